#!/usr/bin/env python3
"""bin/run_seeds.py [PID ...] -- apply every seeded change to a scratch worktree of /repo HEAD, run the property's quick check
against it (VERIF_REPO), and record in seeded/<id>/meta.json which obligations / bounded checks report it."""
import json, os, re, subprocess, sys, concurrent.futures as cf
ROOT = os.path.dirname(os.path.dirname(os.path.abspath(__file__)))
def run(cmd, timeout=None, **kw):
    """shell command in its own process group; on timeout the whole group is killed and an exit code of 124 is reported"""
    import signal
    p = subprocess.Popen(cmd, shell=True, stdout=subprocess.PIPE, stderr=subprocess.PIPE, text=True, start_new_session=True, **kw)
    try:
        out, err = p.communicate(timeout=timeout)
    except subprocess.TimeoutExpired:
        try:
            os.killpg(p.pid, signal.SIGKILL)
        except ProcessLookupError:
            pass
        out, err = p.communicate()
        return subprocess.CompletedProcess(cmd, 124, out or "", (err or "") + "\n[timeout]")
    return subprocess.CompletedProcess(cmd, p.returncode, out, err)
def one(name):
    d = os.path.join(ROOT, "seeded", name)
    pid = name.split("_")[0]
    meta = json.load(open(os.path.join(d, "meta.json")))
    S = f"/tmp/seedrun_{name}_{os.getpid()}"
    run(f"git -C /repo worktree add --detach {S} HEAD")
    patch = os.path.join(d, "patch_rebased.diff") if os.path.exists(os.path.join(d, "patch_rebased.diff")) else os.path.join(d, "patch.diff")
    ap = run(f"git -C {S} apply {patch}")
    how = "git apply on /repo HEAD" + (" (rebased patch)" if patch.endswith("rebased.diff") else "")
    if ap.returncode != 0:
        ap = run(f"git -C {S} apply --3way {patch}")
        how = "git apply --3way on /repo HEAD"
    if ap.returncode != 0:
        run(f"git -C /repo worktree remove --force {S}")
        meta["detected_by"] = dict(status="patch-does-not-apply-to-fixed-tree", note=ap.stderr[-300:])
        json.dump(meta, open(os.path.join(d, "meta.json"), "w"), indent=1)
        return name, "NOAPPLY", []
    r = run(f"cd {ROOT} && VERIF_REPO={S} VERIF_EVIDENCE_DIR={S}/.evidence ./check {pid} --tier quick --jobs 6", timeout=3000)
    out = r.stdout.replace(S, "<scratch>")
    viol = [l for l in out.splitlines() if l.startswith("VIOLATION")]
    obls = sorted({re.sub(r"#\d+", "", m.group(1)) for l in viol for m in [re.search(r"obligation=(.*?)( no-failing-input-found)?$", l)] if m})
    bnds = sorted({m.group(1) for l in viol for m in [re.search(r"bounded=(.*?) class=", l)] if m})
    summary = [l for l in out.splitlines() if l.startswith("[")]
    meta["detected_by"] = dict(exit_code=r.returncode, applied=how, violations=len(viol), obligations=obls[:12], n_obligations=len(obls),
                               bounded_checks=bnds[:8], with_replayed_input=sum(1 for l in viol if "no-failing-input-found" not in l),
                               summary=summary[-1] if summary else "", checked_at_repo_head=run("git -C /repo rev-parse --short HEAD").stdout.strip())
    rc_show = r.returncode
    if r.returncode == 0 and not meta.get("neutralised_by_fix"):
        # a change counts as detected when ANY registered check reports it: try the checks of the other properties whose
        # contract modules mention one of the changed functions
        words = set()
        for f in meta.get("functions_changed") or []:
            words.update(w for w in re.findall(r"[A-Za-z_][A-Za-z0-9_]{5,}", str(f)))
        others = {}
        for other in sorted(os.listdir(os.path.join(ROOT, "contracts"))):
            opid = other[:-3]
            if not re.fullmatch(r"C\d\d", opid) or opid == pid:
                continue
            src = open(os.path.join(ROOT, "contracts", other)).read()
            if any(re.search(r"\b" + re.escape(w) + r"\b", src) for w in words):
                r2 = run(f"cd {ROOT} && VERIF_REPO={S} VERIF_EVIDENCE_DIR={S}/.evidence ./check {opid} --tier quick --jobs 6", timeout=3000)
                v2 = [l for l in r2.stdout.replace(S, "<scratch>").splitlines() if l.startswith("VIOLATION")]
                others[opid] = dict(exit_code=r2.returncode, violations=len(v2), first=(v2[0][:300] if v2 else ""))
                run(f"rm -rf {ROOT}/replays/{opid}")
                if r2.returncode == 1:
                    rc_show = f"0 (own check) / 1 by {opid}"
                    break
        meta["detected_by"]["other_checks"] = others
    json.dump(meta, open(os.path.join(d, "meta.json"), "w"), indent=1)
    run(f"git -C /repo worktree remove --force {S}")
    run(f"rm -rf {ROOT}/replays/{pid}")
    return name, rc_show, obls[:2] + bnds[:1]
names = sorted(n for n in os.listdir(os.path.join(ROOT, "seeded")) if not sys.argv[1:] or n.split("_")[0] in sys.argv[1:] or n in sys.argv[1:])
if os.environ.get("VARIANTS"):
    names = [n for n in names if n.split("_")[1] in os.environ["VARIANTS"].split(",")]
with cf.ThreadPoolExecutor(3) as ex:
    for name, rc, what in ex.map(one, names):
        print(name, rc, [w[:90] for w in what], flush=True)
