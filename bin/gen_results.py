#!/usr/bin/env python3
"""Regenerates the tables of DESIGN.md section 13 (between the BEGIN/END markers) from evidence/, known_findings.jsonl, seeded/."""
import json, os, re, glob
ROOT = os.path.dirname(os.path.dirname(os.path.abspath(__file__)))
ev = {}
for f in sorted(glob.glob(os.path.join(ROOT, "evidence", "C*.json"))):
    e = json.load(open(f)); ev[e["property_id"]] = e
known, fixed = {}, {}
for line in open(os.path.join(ROOT, "known_findings.jsonl")):
    line = line.strip()
    if not line: continue
    if line.startswith("fixed:"):
        m = re.match(r"fixed: property=(\S+) (\S+) (.*)", line)
        fixed.setdefault(m.group(1), []).append((m.group(2), m.group(3)))
        continue
    try: d = json.loads(line)
    except Exception: continue
    if d.get("status", "open") == "open":
        known.setdefault(d["property"], {}).setdefault(d.get("what", "")[:400], 0)
        known[d["property"]][d.get("what", "")[:400]] += 1
out = []
out.append("| id | level | functions under contract | obligations | discharged | lemmas | bounded stand-ins (evaluations) | solver time | quick wall |")
out.append("|---|---|---|---|---|---|---|---|---|")
for pid, e in ev.items():
    c = e["coverage"]
    nb = sum(b.get("evaluations", 0) for b in c.get("bounded_checks", []))
    out.append(f"| {pid} | {e['level']} | {len(c.get('functions_under_contract', []))} | {c['obligations']} | {c['discharged']} | {len(c.get('lemmas', []))} | {len(c.get('bounded_checks', []))} ({nb}) | {c.get('solver_time_s', 0):.0f} s | {e['wall_s']:.0f} s |")
out.append("")
out.append("**Genuine defects repaired (`fix:` commits in /repo, one per defect; the unedited 176 tests pass with each).**")
out.append("")
out.append("| property | commit | what failed (failing input) |")
out.append("|---|---|---|")
for pid in sorted(fixed):
    for c, w in fixed[pid]:
        out.append(f"| {pid} | {c} | {w} |")
out.append("")
out.append("**Open known findings (`known_findings.jsonl`; each prints one `KNOWN-FINDING` line, matched by obligation name or bounded class so that a different failure is still a VIOLATION).**")
out.append("")
out.append("| property | finding | matching entries |")
out.append("|---|---|---|")
for pid in sorted(known):
    for w, n in known[pid].items():
        out.append(f"| {pid} | {w} | {n} |")
out.append("")
out.append("**Seeded changes (written by independent sub-agents from the property text only; confirmed; `seeded/<id>/`).**")
out.append("")
out.append("| seed | what it breaks | needs | check exit | named obligations that fail (first) | bounded checks that fail | with replayed input |")
out.append("|---|---|---|---|---|---|---|")
for d in sorted(glob.glob(os.path.join(ROOT, "seeded", "C*"))):
    m = json.load(open(os.path.join(d, "meta.json")))
    db = m.get("detected_by") or {}
    ob = "; ".join(f"`{o[:110]}`" for o in (db.get("obligations") or [])[:2])
    if db.get("n_obligations", 0) > 2: ob += f" (+{db['n_obligations'] - 2} more)"
    bn = "; ".join(b[:70] for b in (db.get("bounded_checks") or [])[:2])
    cut = lambda s, n: (s or "").replace("|", "/").replace("\n", " ")[:n]
    if m.get("neutralised_by_fix"):
        out.append(f"| {os.path.basename(d)} | {cut(m.get('breaks'), 160)} | {cut(m.get('needs_to_manifest'), 120)} | {db.get('exit_code', '?')} (expected 0) | neutralised by fix {m['neutralised_by_fix'][:7]}: no longer breaks the property | - | - |")
        continue
    oc = [f"{k}: exit {v['exit_code']}" for k, v in (db.get("other_checks") or {}).items() if v.get("exit_code") == 1]
    if oc and db.get("exit_code") == 0:
        ob = "reported by another property's check - " + "; ".join(oc) + " " + cut(next(iter(db["other_checks"].values())).get("first", ""), 120)
    out.append(f"| {os.path.basename(d)} | {cut(m.get('breaks'), 160)} | {cut(m.get('needs_to_manifest'), 120)} | {db.get('exit_code', db.get('status', '?'))} | {ob or '-'} | {bn or '-'} | {db.get('with_replayed_input', '-')} of {db.get('violations', '-')} |")
out.append("")
out.append("**Behaviour-preserving changes (written by independent sub-agents from the property text only; `refactors/<id>/`; expected: exit 0, exit 2 tolerated, exit 1 = false alarm).**")
out.append("")
out.append("| change | kind | functions | tests | check exit | first line |")
out.append("|---|---|---|---|---|---|")
for d in sorted(glob.glob(os.path.join(ROOT, "refactors", "C*"))):
    m = json.load(open(os.path.join(d, "meta.json")))
    r = m.get("result") or {}
    cut = lambda s, n: (str(s) if s is not None else "").replace("|", "/").replace("\n", " ")[:n]
    out.append(f"| {os.path.basename(d)} | {cut(m.get('kind'), 70)} | {cut(', '.join(m.get('functions_changed') or []), 90)} | {cut(r.get('tests'), 24)} | {r.get('exit_code', r.get('status', '?'))} | {cut((r.get('lines') or ['-'])[0], 150)} |")
txt = "\n".join(out)
p = os.path.join(ROOT, "DESIGN.md"); s = open(p).read()
B, E = "<!-- BEGIN GENERATED RESULTS -->", "<!-- END GENERATED RESULTS -->"
if B not in s:
    s += f"\n\n---\n\n## 13. Results on the current tree (generated by `bin/gen_results.py` from evidence/, known_findings.jsonl, seeded/)\n\n{B}\n{E}\n"
s = s[:s.index(B) + len(B)] + "\n" + txt + "\n" + s[s.index(E):]
open(p, "w").write(s)
print("DESIGN.md section 13 regenerated:", len(out), "lines")
