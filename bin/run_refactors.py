#!/usr/bin/env python3
"""bin/run_refactors.py [PID ...] -- behaviour-preserving changes (refactors/<PID>_<R>/patch.diff, written by sub-agents that saw only
the property text): apply each to a scratch worktree of /repo HEAD, run the 176 tests and the property's quick check against it.
Expected: exit 0 (exit 2 = undecided is tolerated and recorded; exit 1 = false alarm -> fix the machinery).  With IMPORT=<dir> the
patches are first copied from <dir>/<PID>/out/patch_R*.diff."""
import json, os, re, shutil, subprocess, sys, concurrent.futures as cf
ROOT = os.path.dirname(os.path.dirname(os.path.abspath(__file__)))
def run(cmd, timeout=None, **kw):
    """shell command in its own process group; on timeout the whole group is killed and an exit code of 124 is reported"""
    import signal
    p = subprocess.Popen(cmd, shell=True, stdout=subprocess.PIPE, stderr=subprocess.PIPE, text=True, start_new_session=True, **kw)
    try:
        out, err = p.communicate(timeout=timeout)
    except subprocess.TimeoutExpired:
        try:
            os.killpg(p.pid, signal.SIGKILL)
        except ProcessLookupError:
            pass
        out, err = p.communicate()
        return subprocess.CompletedProcess(cmd, 124, out or "", (err or "") + "\n[timeout]")
    return subprocess.CompletedProcess(cmd, p.returncode, out, err)
imp = os.environ.get("IMPORT")
if imp:
    for pid in sorted(os.listdir(imp)):
        out = os.path.join(imp, pid, "out")
        if not os.path.isdir(out):
            continue
        for f in sorted(os.listdir(out)):
            m = re.match(r"patch_(R\d)\.diff$", f)
            if m:
                d = os.path.join(ROOT, "refactors", f"{pid}_{m.group(1)}")
                os.makedirs(d, exist_ok=True)
                shutil.copy(os.path.join(out, f), os.path.join(d, "patch.diff"))
                mj = os.path.join(out, f"meta_{m.group(1)}.json")
                meta = {}
                try:
                    meta = json.load(open(mj))
                except Exception:
                    pass
                if not os.path.exists(os.path.join(d, "meta.json")):
                    json.dump(dict(property=pid, kind=meta.get("kind_of_refactoring"), functions_changed=meta.get("functions_changed"),
                                   why_behaviour_is_preserved=meta.get("why_behaviour_is_preserved")), open(os.path.join(d, "meta.json"), "w"), indent=1)
def one(name):
    d = os.path.join(ROOT, "refactors", name)
    pid = name.split("_")[0]
    meta = json.load(open(os.path.join(d, "meta.json")))
    S = f"/tmp/refrun_{name}_{os.getpid()}"
    run(f"git -C /repo worktree add --detach {S} HEAD")
    patch = os.path.join(d, "patch_rebased.diff") if os.path.exists(os.path.join(d, "patch_rebased.diff")) else os.path.join(d, "patch.diff")
    ap = run(f"git -C {S} apply {patch}")
    if ap.returncode != 0:
        run(f"git -C /repo worktree remove --force {S}")
        meta["result"] = dict(status="patch-does-not-apply", note=ap.stderr[-300:])
        json.dump(meta, open(os.path.join(d, "meta.json"), "w"), indent=1)
        return name, "NOAPPLY", ""
    t = run(f"cd {S} && PYTHONPATH={S}/src /venv/bin/python -m pytest -q -p no:cacheprovider --timeout=900 tests 2>&1 | tail -3")
    tests = (re.findall(r"\d+ passed[^\n]*|\d+ failed[^\n]*", t.stdout) or ["?"])[-1]
    r = run(f"cd {ROOT} && VERIF_REPO={S} VERIF_EVIDENCE_DIR={S}/.evidence ./check {pid} --tier quick --jobs 6", timeout=3000)
    out = r.stdout.replace(S, "<scratch>")
    lines = [l for l in out.splitlines() if l.startswith(("VIOLATION", "UNDECIDED", "CHECKER-FAULT"))]
    summary = [l for l in out.splitlines() if l.startswith("[")]
    meta["result"] = dict(exit_code=r.returncode, tests=tests, lines=[l[:300] for l in lines[:6]], n_lines=len(lines), summary=summary[-1] if summary else "",
                          checked_at_repo_head=run("git -C /repo rev-parse --short HEAD").stdout.strip())
    json.dump(meta, open(os.path.join(d, "meta.json"), "w"), indent=1)
    run(f"git -C /repo worktree remove --force {S}")
    run(f"rm -rf {ROOT}/replays/{pid}")
    return name, r.returncode, tests + " | " + (lines[0][:200] if lines else "")
names = sorted(n for n in os.listdir(os.path.join(ROOT, "refactors")) if not sys.argv[1:] or n.split("_")[0] in sys.argv[1:] or n in sys.argv[1:])
with cf.ThreadPoolExecutor(3) as ex:
    for name, rc, what in ex.map(one, names):
        print(name, rc, what, flush=True)
