#!/usr/bin/env python3
"""bin/prune_known.py <PID> <commit> "<what failed>"  -- after a fix: commit, drop the open known-finding entries of <PID> that no
longer fire (per the evidence of the last ./check run) and append a 'fixed:' line."""
import fnmatch, json, os, sys
ROOT = os.path.dirname(os.path.dirname(os.path.abspath(__file__)))
pid, commit, what = sys.argv[1:4]
ev = json.load(open(os.path.join(ROOT, "evidence", f"{pid}.json")))
hit = set(ev["coverage"]["known_findings_hit"])
base = lambda n: n.split("#")[0]
hit_b = {base(h) for h in hit}
def fires(d):
    if d.get("obligation"):
        return d["obligation"] in hit or base(d["obligation"]) in hit_b
    if d.get("obligation_glob"):
        pat = d["obligation_glob"].replace("[", "[[]")
        return any(fnmatch.fnmatchcase(h, pat) for h in hit_b)
    if d.get("bounded"):
        return any(h.startswith(f"bounded::{d['bounded']}::") and (not d.get("class") or h.endswith("::" + d["class"])) for h in hit)
    return True
out, dropped = [], []
for line in open(os.path.join(ROOT, "known_findings.jsonl")):
    raw = line.rstrip("\n")
    try:
        d = json.loads(raw)
    except Exception:
        out.append(raw); continue
    if d.get("property") == pid and d.get("status", "open") == "open" and not fires(d):
        dropped.append(d); continue
    out.append(raw)
out.append(f"fixed: property={pid} {commit} {what}")
open(os.path.join(ROOT, "known_findings.jsonl"), "w").write("\n".join(out) + "\n")
print(f"dropped {len(dropped)} entries that no longer fire:")
for d in dropped: print("  -", (d.get("obligation") or d.get("obligation_glob") or d.get("bounded"))[:90], "|", d.get("class", "")[:40])
