#!/usr/bin/env python3
"""Regenerates MANIFEST.json from contracts/*.py metadata (MANIFEST_ENTRY dicts) + not_applicable.json."""
import importlib, json, os, sys
ROOT = os.path.dirname(os.path.dirname(os.path.abspath(__file__)))
sys.path.insert(0, ROOT)
meta = json.load(open(os.path.join(ROOT, "manifest_meta.json")))
checks = []


def _current(pid):
    """One sentence with the numbers of the last run, from the evidence file the check itself wrote."""
    try:
        cov = json.load(open(os.path.join(ROOT, "evidence", f"{pid}.json")))["coverage"]
        return (f" Last run on this tree (evidence/{pid}.json): {len(cov.get('functions_under_contract', []))} functions / contract objects under "
                f"contract, {cov.get('obligations')} obligations, {cov.get('discharged')} discharged, {len(cov.get('bounded_checks', []))} bounded stand-ins, "
                f"{len(set(cov.get('known_findings_hit', [])))} obligations or bounded classes matched by listed known findings.")
    except Exception:
        return ""


for pid, m in sorted(meta["checks"].items()):
    m = dict(m, text=m["text"].rstrip() + _current(pid))
    checks.append(dict(
        property_id=pid,
        quick_cmd=f"./check {pid} --tier quick",
        thorough_cmd=f"./check {pid} --tier thorough",
        evidence_file=f"/verif/evidence/{pid}.json",
        replay_cmd_template=f"./check {pid} --replay {{path}}",
        engine="pyvc",
        level_claimed=dict(category=m["level"], text=m["text"], design_ref=m.get("design_ref", "DESIGN.md §7")),
        level_note=m["note"],
        technique=m["technique"],
    ))
man = dict(
    version=1,
    setup_cmd="./bin/ensure_env",
    hooks=dict(guard="QUANTEM_VERIF", enable="no hooks in /repo: contracts are sidecar files under /verif/contracts; checks export QUANTEM_VERIF=1 (unused by the repository)",
               baseline_off_cmd="cd /repo && /venv/bin/python -m pytest -ra -q -p no:cacheprovider --timeout=900 --continue-on-collection-errors",
               source_commits=meta.get("hook_commits", []), add_only=True),
    engines=[dict(name="pyvc", path="/verif/pyvc", serves_properties=sorted(meta["checks"]),
                  kind_free_text="contract-based deductive verification: VC generation by symbolic interpretation of the real Python AST against sidecar contracts, discharged by z3/cvc5; run-time contract evaluation as bounded stand-in and replay")],
    checks=checks,
    notes=meta.get("notes", ""),
    not_applicable=[dict(property_id=k, reason=v) for k, v in sorted(meta["not_applicable"].items())],
)
json.dump(man, open(os.path.join(ROOT, "MANIFEST.json"), "w"), indent=1)
import jsonschema
jsonschema.validate(man, json.load(open("/root/.vp/MANIFEST.schema.json")))
print("MANIFEST ok:", len(checks), "checks,", len(man["not_applicable"]), "not applicable")
