"""Runs one property check: VC generation from the working tree, discharge, lemmas, bounded stand-ins,
canaries, baseline comparison, known findings, evidence, exit code."""
from __future__ import annotations

import hashlib
import importlib
import json
import multiprocessing as mp
import os
import sys
import time
import traceback

import z3

ROOT = os.path.dirname(os.path.dirname(os.path.abspath(__file__)))
REPO = os.environ.get("VERIF_REPO", "/repo")

from . import values as V
from .smt import discharge, smt_hash, to_smt2
from .path import Obligation, PathCtx
from .interp import func_ast


class Lemma:
    """Property-level lemma proved from contracts alone: build(ctx) -> list of (label, hyps, goal)."""

    def __init__(self, name, build, note="", uses=()):
        self.name = name
        self.build = build
        self.note = note
        self.uses = uses


class Bounded:
    """Bounded stand-in: run(tier, seed) -> dict(evaluations, distinct, failures=[{case, observed, expected, klass}], bound)."""

    def __init__(self, name, run, bound=""):
        self.name = name
        self.run = run
        self.bound = bound

    @staticmethod
    def from_rt(name, rt, family, bound="", klass=None):
        """Evaluate the run-time oracle `rt` (the contract's concrete form) on every input of `family()`."""

        def run(tier, seed):
            n, fails, distinct = 0, [], set()
            for inp in family() if not _wants_tier(family) else family(tier, seed):
                n += 1
                distinct.add(json.dumps(inp, sort_keys=True, default=str))
                res = rt(inp)
                if res.get("violated"):
                    k = klass(inp, res) if klass else "any"
                    fails.append(dict(case=inp, klass=k, observed=res.get("observed"), expected=res.get("expected")))
            return dict(evaluations=n, distinct=len(distinct), failures=fails)

        b = Bounded(name, run, bound)
        b.rt = rt
        return b


def _wants_tier(f):
    import inspect

    try:
        return len(inspect.signature(f).parameters) >= 2
    except (TypeError, ValueError):
        return False


_MOD = None
_BASELINE = {}


def _timeouts(tier):
    """(short, long) solver budgets in seconds.  z3's limits are wall-clock, so on an oversubscribed machine the same query gets a
    fraction of the CPU time: the budgets grow with the load (x1 up to x4 once the 1-minute load exceeds twice the core count).
    Proved obligations cost what they cost either way; only inconclusive ones wait longer."""
    q, th = (10, 30) if tier == "quick" else (60, 120)
    try:
        over = os.getloadavg()[0] / max(1, os.cpu_count() or 1)
        f = 1.0 if over <= 2 else min(4.0, over / 2.0)
    except (OSError, AttributeError):
        f = 1.0
    return int(q * f), int(th * f)


# ---- hard wall-clock guard around solver calls ------------------------------------------------------------------------------
# z3's time limits are polled: some procedures (seen: lp::dioph_eq::substitute_on_q in z3 5.1 on a mutated tree) run for half an
# hour without looking at the cancel flag.  The discharge loop of a contract therefore runs in a forked child that streams its
# records back; before every solver call the child announces the budget, and a child that stays silent for longer than that
# budget can explain is killed: the obligation is `unknown` (backend "killed") and a new child continues with the next one.
# VERIF_NO_GUARD=1 runs the loop in-process (debugging).
def _guard_slack(budget_s):
    return 4 * budget_s + 45  # discharge(): z3 short + cvc5 + z3 + nlsat, each within `budget_s`; generous slack for a busy machine


def _guarded_map(n, do_k, killed_rec):
    """[do_k(k, hb) for k in range(n)]; do_k must return picklable data and call hb(budget_s) before each solver call."""
    import pickle
    import select
    import signal
    import struct

    if n == 0:
        return []
    if os.environ.get("VERIF_NO_GUARD") == "1":
        return [do_k(k, lambda b: None) for k in range(n)]
    recs = [None] * n
    k0 = 0
    while k0 < n:
        r, w = os.pipe()
        pid = os.fork()
        if pid == 0:  # child
            try:
                os.close(r)
                try:
                    import ctypes

                    ctypes.CDLL(None).prctl(1, 9)  # PR_SET_PDEATHSIG = SIGKILL
                except Exception:
                    pass

                def send(msg):
                    data = pickle.dumps(msg)
                    data = struct.pack("<I", len(data)) + data
                    while data:
                        m = os.write(w, data)
                        data = data[m:]

                cur = [k0]
                try:
                    for j in range(k0, n):
                        cur[0] = j
                        send(("hb", j, 5))
                        rec = do_k(j, lambda b, _j=j: send(("hb", _j, b)))
                        send(("rec", j, rec))
                    send(("done",))
                except BaseException as e:  # noqa: BLE001 - reported to the parent, which re-raises
                    send(("err", cur[0], f"{type(e).__name__}: {e}\n{traceback.format_exc()[-1500:]}", isinstance(e, V.OutOfSubset)))
            finally:
                os._exit(0)
        os.close(w)
        buf = b""
        cur, budget, t_last = k0, 5, time.time()
        finished = False
        killed = None
        while not finished:
            # parse complete frames
            while len(buf) >= 4:
                (ln,) = struct.unpack("<I", buf[:4])
                if len(buf) < 4 + ln:
                    break
                msg = pickle.loads(buf[4:4 + ln])
                buf = buf[4 + ln:]
                t_last = time.time()
                if msg[0] == "hb":
                    cur, budget = msg[1], msg[2]
                elif msg[0] == "rec":
                    recs[msg[1]] = msg[2]
                    cur, budget = msg[1] + 1, 5
                elif msg[0] == "done":
                    finished = True
                elif msg[0] == "err":
                    os.close(r)
                    os.waitpid(pid, 0)
                    if msg[3]:
                        raise V.OutOfSubset(msg[2])
                    raise RuntimeError(f"in guarded discharge of item {msg[1]}: {msg[2]}")
            if finished:
                break
            remaining = t_last + _guard_slack(budget) - time.time()
            if remaining <= 0:
                killed = (cur, budget, time.time() - t_last)
                break
            rl, _, _ = select.select([r], [], [], min(remaining, 30))
            if rl:
                chunk = os.read(r, 1 << 20)
                if not chunk:  # child died without "done"
                    os.close(r)
                    _, st = os.waitpid(pid, 0)
                    if all(x is not None for x in recs):
                        return recs
                    raise RuntimeError(f"guarded discharge child exited unexpectedly (status {st}) at item {cur}")
                buf += chunk
        if killed is not None:
            try:
                os.kill(pid, signal.SIGKILL)
            except ProcessLookupError:
                pass
        os.close(r)
        os.waitpid(pid, 0)
        if killed is None:
            break
        kk, b, dt = killed
        recs[kk] = killed_rec(kk, f"solver call announced with a {b}s limit was still running after {dt:.0f}s; process killed")
        k0 = kk + 1
    return recs


def _with_lemmas(ob):
    """Add ground instances of the real-analysis lemma schemas (A4) to an obligation that mentions them."""
    from .reals import lemma_instances

    facts, n = lemma_instances(ob.hyps + [ob.goal])
    if n:
        ob2 = Obligation(ob.name, ob.hyps + facts, ob.goal, ob.kind, ob.where, dict(ob.meta, lemma_instances=n))
        return ob2
    return ob


_LEAN_RESULT = {}  # per-process cache of the Lean cross-check of the A4 lemma schemas


def _uses_a4(mod, all_obs=()):
    """The property relies on the A4 lemma schemas: some obligation received lemma instances, or the module says so
    (TRUSTED / ASSUMPTIONS mention A4) or imports pyvc.reals."""
    if any(o.get("lemma_instances") for _, o in all_obs):
        return True
    texts = list(getattr(mod, "TRUSTED", [])) + list(getattr(mod, "ASSUMPTIONS", []))
    if any("A4" in str(t) for t in texts):
        return True
    try:
        from . import reals as _reals

        return any(v is _reals for v in vars(mod).values())
    except Exception:
        return False


def lean_cross_check(file=None):
    """Thorough tier only: lemmas/check_lean.sh compiles lemmas/real_analysis.lean (every A4 schema proved from Mathlib,
    no sorry / extra axioms, Python schema text quoted in the Lean file) or, with `file`, another lemma file under lemmas/
    (no schema drift guard for those: they state the lemma in mathematical form).  Run once per process and file.
    Returns dict(theorems, status, seconds[, detail])."""
    key = file or "r"
    if key not in _LEAN_RESULT:
        import re
        import subprocess

        t0 = time.time()
        script = os.path.join(ROOT, "lemmas", "check_lean.sh")
        res = dict(theorems=0, status="fail", seconds=0.0)
        try:
            cmd = ["bash", script] + ([os.path.join(ROOT, "lemmas", file)] if file else [])
            env = dict(os.environ, A4_DRIFT="0") if file else None
            p = subprocess.run(cmd, capture_output=True, text=True, env=env, timeout=int(os.environ.get("LEAN_TIMEOUT", "1500")) + 60)
            out = (p.stdout or "") + (p.stderr or "")
            m = re.search(r"LEAN-CROSS-CHECK status=(\w+) theorems=(\d+)", out)
            if m:
                res["theorems"] = int(m.group(2))
            if p.returncode == 0 and m and m.group(1) == "ok":
                res["status"] = "ok"
            else:
                res["detail"] = "\n".join(out.strip().splitlines()[-12:])[-1500:] or f"exit code {p.returncode}"
        except Exception as e:  # missing bash / lean, timeout, ...
            res["detail"] = f"{type(e).__name__}: {e}"
        res["seconds"] = round(time.time() - t0, 1)
        _LEAN_RESULT[key] = res
    return _LEAN_RESULT[key]


def _model_eval(m):
    """ev(prefix, default=None, kind=int): value of the first model constant whose name is `prefix` or `prefix!<n>`."""
    table = {}
    if m is not None:
        for d in m.decls():
            if d.arity() == 0:
                table[d.name()] = m[d]

    def ev(prefix, default=None):
        for k in (prefix, prefix + "!0"):
            if k in table:
                v = table[k]
                if z3.is_int_value(v):
                    return v.as_long()
                if z3.is_true(v):
                    return True
                if z3.is_false(v):
                    return False
                if z3.is_rational_value(v):
                    return float(v.numerator_as_long()) / float(v.denominator_as_long())
                if z3.is_algebraic_value(v):
                    return float(v.approx(20).numerator_as_long()) / float(v.approx(20).denominator_as_long())
                if z3.is_string_value(v):
                    return v.as_string()
                return str(v)
        return default

    ev.table = table
    ev.model = m  # the z3 model itself (function interpretations), for concretize functions that need more than constants
    return ev


def _replay_inputs(con, z3model):
    """First half of the replay (runs next to the solver, in the guarded child): concretise the counter-model into plain inputs."""
    try:
        if z3model is not None and con.concretize is not None:
            inp = con.concretize(_model_eval(z3model))
            return None if inp is None else json.loads(json.dumps(inp, default=str))
    except Exception as e:
        return {"__concretize_error__": f"{type(e).__name__}: {e}"}
    return None


def _replay(con, z3model, inputs=None):
    """Run the REAL function natively against the run-time oracle on the concretised counter-model; if the model is not
    realisable fall back to the contract's small-input family.  Native library code (torch / OpenMP thread pools) must not run
    in a child forked from a process that already used it, so this half runs in the pool worker itself, on `inputs` prepared by
    `_replay_inputs`."""
    out = {"violated": False}
    try:
        tried = []
        if isinstance(inputs, dict) and "__concretize_error__" in inputs:
            out["error"] = inputs["__concretize_error__"]
            inputs = None
        if inputs is None and z3model is not None and con.concretize is not None:
            inputs = con.concretize(_model_eval(z3model))
        if inputs is not None:
            if True:
                res = con.rt(inputs)
                tried.append(dict(inputs=inputs, **res))
                if res.get("violated"):
                    return dict(source="solver-model", inputs=inputs, **res)
        if con.rt_family is not None:
            n = 0
            for inputs in con.rt_family():
                n += 1
                res = con.rt(inputs)
                if res.get("violated"):
                    return dict(source="small-input-family", inputs=inputs, family_tried=n, **res)
            out["family_tried"] = n
        out["model_replays"] = tried[:2]
    except Exception as e:
        out["error"] = f"{type(e).__name__}: {e}"
    return out


def _goal_text(goal, limit, simplify=False):
    """Text of a goal for the evidence.  z3's Python pretty printer takes seconds on goals with deeply shared if-then-else index terms
    (C04 mask cropping: 1.5 s per goal); those are printed by the C-side s-expression printer instead."""
    try:
        sx = goal.sexpr()
    except Exception:
        sx = ""
    if len(sx) > 1500 or "(let (" in sx:   # shared sub-terms: the Python printer would expand them
        return " ".join(sx.split())[:limit]
    return str(z3.simplify(goal) if simplify else goal)[:limit]


def _verify_one(args):
    idx, tier = args
    t0 = time.time()
    mod = _MOD
    con = mod.CONTRACTS[idx]
    out = dict(func=con.func, obligations=[], error=None, outcomes=[], canary=None, wall_s=0.0)
    try:
        node, fname, l0, l1, seg = func_ast(con.real)
        out["file"] = os.path.relpath(fname, REPO)
        out["lines"] = [l0, l1]
        out["sha256"] = hashlib.sha256(seg.encode()).hexdigest()[:16]
        reg = mod.make_registry()
        obs, outcomes = con.verify(reg)
        out["outcomes"] = [list(o) if isinstance(o, tuple) else o for o in outcomes]
        out["inlined"] = sorted(con.inline)
        out["used_rowmajor"] = bool(getattr(con, "used_rowmajor", False))
        out["frame_name"] = con.frame_name
        q, th = _timeouts(tier)
        seen_names = {}
        names = []
        for ob in obs:
            c = seen_names.get(ob.name, 0)
            seen_names[ob.name] = c + 1
            names.append(f"{ob.name}#{c + 1}" if c else ob.name)

        inconclusive = [0]  # obligations of this function that stayed `unknown` after the full schedule (per guarded child)
        inconclusive_bases = set()  # ... and their base names: the other paths (#k) of the same clause get the short attempt only

        def do_ob(k, hb):
            ob = _with_lemmas(obs[k])
            ob.name = names[k]
            hb(q)
            r = discharge(ob, q)
            if r["status"] == "unknown" and (inconclusive[0] >= 3 or _base(ob.name) in inconclusive_bases):
                # three obligations of this function were already inconclusive after the long attempts: the function is evidently
                # not the one of the baseline (or the machine is hopelessly overloaded) and the run's verdict no longer depends on
                # the rest - they get the short attempt only, so that a run on a broken tree ends in minutes, not hours
                r["reason"] = f"{r.get('reason')}; long attempts skipped (this clause on another path, or 3 obligations of this function, already inconclusive)"
                r["backend"] = r["backend"] + "+short-only"
            elif r["status"] == "unknown":
                hb(th)
                r = discharge(ob, th)
            if r["status"] == "unknown" and inconclusive[0] < 3 and _BASELINE.get(_base(f"{con.frame_name}::{ob.name}")) == "proved":
                # an obligation that was proved on the pinned tree and is merely inconclusive now (busy machine?) gets one
                # generous last attempt before the baseline rule turns it into a VIOLATION
                hb(4 * th)
                r = discharge(ob, 4 * th)
                r["backend"] = r["backend"] + "+retry"
            if r["status"] == "unknown" and not r["backend"].endswith("+short-only"):
                inconclusive[0] += 1
                inconclusive_bases.add(_base(ob.name))
            rec = dict(name=f"{con.frame_name}::{ob.name}", kind=ob.kind, status=r["status"], backend=r["backend"],
                       time_s=round(r["time_s"], 4), where=ob.where)
            if ob.meta.get("lemma_instances"):
                rec["lemma_instances"] = ob.meta["lemma_instances"]  # number of A4 schema instances added (-> lean_cross_check)
            if r["status"] != "proved":
                rec["model"] = r.get("model")
                rec["reason"] = r.get("reason")
                rec["goal"] = _goal_text(ob.goal, 600)
                rec["meta"] = {k_: str(v)[:300] for k_, v in ob.meta.items()}
                rec["smt2"] = to_smt2(ob.hyps, ob.goal)[:20000]
            if r["status"] != "proved" and (con.rt is not None):
                rec["_replay_inputs"] = _replay_inputs(con, r.get("z3model"))  # the native run happens in the pool worker (below)
                rec["_wants_replay"] = True
            rec["sample"] = _goal_text(ob.goal, 300, simplify=True)
            rec["n_hyps"] = len(ob.hyps)
            return json.loads(json.dumps(rec, default=str))

        def killed_ob(k, why):
            ob = obs[k]
            return dict(name=f"{con.frame_name}::{names[k]}", kind=ob.kind, status="unknown", backend="killed", time_s=0.0, where=ob.where,
                        model=None, reason=why, goal=_goal_text(ob.goal, 600), meta={k_: str(v)[:300] for k_, v in ob.meta.items()},
                        smt2="", sample=_goal_text(ob.goal, 300, simplify=True), n_hyps=len(ob.hyps))

        recs = _guarded_map(len(obs), do_ob, killed_ob)
        for rec in recs:
            if rec.pop("_wants_replay", False):
                rec["replay"] = _replay(con, None, rec.pop("_replay_inputs", None))
        out["obligations"].extend(recs)
        # canary / vacuity: on at least one normally-returning path `False` must NOT be provable,
        # and a deliberately falsified postcondition must fail
        can = {"vacuous_paths": 0, "live_paths": 0, "falsified_post_fails": None}
        reg2 = mod.make_registry()
        obs2, _ = con.verify(reg2, mutate_goal=lambda lab, t: z3.And(t, z3.BoolVal(False)),
                             path_limit=getattr(con, "canary_path_limit", None))  # opt-in: contracts with many paths sample the canary

        def do_canary(_k, hb):
            c2 = dict(vacuous_paths=0, live_paths=0, posts=0)
            for ob in obs2:
                if ob.kind != "post":
                    continue
                c2["posts"] += 1
                if c2["live_paths"] >= 2 or c2["posts"] > 12:
                    continue  # two independent non-vacuous return paths are enough for the canary
                hb(1)
                r = discharge(_with_lemmas(ob), 1, use_cvc5=False, tactics=False)
                if r["status"] == "proved":
                    c2["vacuous_paths"] += 1
                else:
                    c2["live_paths"] += 1
            return c2

        # a killed canary run means `False` was not proved within the limit: live
        c2 = _guarded_map(1, do_canary, lambda _k, why: dict(vacuous_paths=0, live_paths=1, posts=sum(1 for o in obs2 if o.kind == "post")))[0]
        can["vacuous_paths"], can["live_paths"], posts = c2["vacuous_paths"], c2["live_paths"], c2["posts"]
        can["post_obligations"] = posts
        can["falsified_post_fails"] = (can["live_paths"] > 0) if posts else None
        out["canary"] = can
    except V.OutOfSubset as e:
        out["error"] = f"out-of-subset: {e}"
    except Exception as e:
        out["error"] = f"checker-fault: {type(e).__name__}: {e}\n{traceback.format_exc()[-1500:]}"
    out["wall_s"] = round(time.time() - t0, 3)
    return out


def _lemma_one(args):
    idx, tier = args
    mod = _MOD
    lem = mod.LEMMAS[idx]
    out = dict(lemma=lem.name, obligations=[], error=None)
    try:
        ctx = PathCtx()
        with ctx:
            items = lem.build(ctx)
        q, th = _timeouts(tier)
        items = list(items)

        def do_lemma(k, hb):
            lab, hyps, goal = items[k]
            ob = _with_lemmas(Obligation(f"lemma:{lem.name}:{lab}", list(hyps), goal, "lemma"))
            hb(q)
            r = discharge(ob, q)
            if r["status"] == "unknown":
                hb(th)
                r = discharge(ob, th)
            if r["status"] == "unknown" and _BASELINE.get(_base(f"lemma::{lem.name}::{lab}")) == "proved":
                hb(4 * th)
                r = discharge(ob, 4 * th)
                r["backend"] = r["backend"] + "+retry"
            rec = dict(name=f"lemma::{lem.name}::{lab}", kind="lemma", status=r["status"], backend=r["backend"],
                       time_s=round(r["time_s"], 4), sample=str(goal)[:300])
            if ob.meta.get("lemma_instances"):
                rec["lemma_instances"] = ob.meta["lemma_instances"]
            if r["status"] != "proved":
                rec["model"] = r.get("model")
                rec["reason"] = r.get("reason")
                rec["goal"] = str(goal)[:600]
                rec["smt2"] = to_smt2(ob.hyps, ob.goal)[:20000]
            return json.loads(json.dumps(rec, default=str))

        def killed_lemma(k, why):
            lab, hyps, goal = items[k]
            return dict(name=f"lemma::{lem.name}::{lab}", kind="lemma", status="unknown", backend="killed", time_s=0.0, sample=str(goal)[:300],
                        model=None, reason=why, goal=str(goal)[:600], smt2="")

        out["obligations"].extend(_guarded_map(len(items), do_lemma, killed_lemma))
    except Exception as e:
        out["error"] = f"checker-fault: {type(e).__name__}: {e}\n{traceback.format_exc()[-1500:]}"
    return out


def _bounded_one(args):
    idx, tier, seed = args
    b = _MOD.BOUNDED[idx]
    tb = time.time()
    try:
        res = json.loads(json.dumps(b.run(tier, seed), default=str))  # plain data across the process boundary
        return dict(res=res, wall_s=round(time.time() - tb, 2))
    except Exception as e:
        return dict(error=f"{type(e).__name__}: {e}\n{traceback.format_exc()[-1200:]}", wall_s=round(time.time() - tb, 2))


_SELFTEST = {}


def _selftest_one(args):
    """Engine self-check against CPython (DESIGN §3, pyvc/selftest.py): thorough tier, once per process."""
    tier, seed = args
    if (tier, seed) not in _SELFTEST:
        from .selftest import run_cached

        _SELFTEST[(tier, seed)] = run_cached(tier, seed)
    return _SELFTEST[(tier, seed)]


def load_known(pid):
    path = os.path.join(ROOT, "known_findings.jsonl")
    out = []
    if os.path.exists(path):
        for line in open(path):
            line = line.strip()
            if not line or line.startswith("#"):
                continue
            try:
                d = json.loads(line)
            except json.JSONDecodeError:
                continue  # "fixed: ..." lines are informational and suppress nothing
            if d.get("property") == pid and d.get("status", "open") == "open":
                out.append(d)
    return out


def load_baseline(pid):
    path = os.path.join(ROOT, "baseline", "obligations.json")
    if os.path.exists(path):
        return json.load(open(path)).get(pid, {})
    return {}


def run_property(pid, tier="quick", seed=0, update_baseline=False, jobs=None):
    global _MOD
    t0 = time.time()
    sys.path.insert(0, ROOT)
    mod = importlib.import_module(f"contracts.{pid}")
    _MOD = mod
    jobs = jobs or min(16, os.cpu_count() or 4)
    known = load_known(pid)
    baseline = load_baseline(pid)
    global _BASELINE
    _BASELINE = baseline  # inherited by the forked workers
    contracts = getattr(mod, "CONTRACTS", [])
    lemmas = getattr(mod, "LEMMAS", [])
    bounded = getattr(mod, "BOUNDED", [])
    results, lemma_results = [], []
    tasks = [(i, tier) for i in range(len(contracts))]
    ltasks = [(i, tier) for i in range(len(lemmas))]
    btasks = [(i, tier, seed) for i in range(len(bounded))]
    # engine self-check against CPython: thorough tier only, once per process (VERIF_SELFTEST=0 skips, =1 forces it in quick)
    want_selftest = os.environ.get("VERIF_SELFTEST", "1" if tier == "thorough" else "0") == "1"
    if jobs > 1 and (len(tasks) + len(ltasks) + len(btasks)) > 1:
        ctxmp = mp.get_context("fork")
        with ctxmp.Pool(min(jobs, max(1, len(tasks) + len(ltasks) + len(btasks)))) as pool:
            ab = pool.map_async(_bounded_one, btasks, chunksize=1)  # bounded stand-ins run alongside the proofs
            ar = pool.map_async(_verify_one, tasks, chunksize=1)
            al = pool.map_async(_lemma_one, ltasks, chunksize=1)
            ast_ = pool.apply_async(_selftest_one, ((tier, int(seed)),)) if want_selftest and (tier, int(seed)) not in _SELFTEST else None
            results = ar.get()
            lemma_results = al.get()
            bounded_results = ab.get()
            if ast_ is not None:
                _SELFTEST[(tier, int(seed))] = ast_.get()
            selftest = _SELFTEST.get((tier, int(seed))) if want_selftest else None
    else:
        results = [_verify_one(t) for t in tasks]
        lemma_results = [_lemma_one(t) for t in ltasks]
        bounded_results = [_bounded_one(t) for t in btasks]
        selftest = _selftest_one((tier, int(seed))) if want_selftest else None

    lines = []
    violations = []
    undecided = []
    faults = []
    known_hit = []
    all_obs = []
    by_backend = {}
    solver_time = 0.0
    for r in results:
        if r["error"]:
            (faults if r["error"].startswith("checker-fault") else undecided).append(f"{r['func']}: {r['error']}")
            # every baseline-proved obligation of this function is now undecided, not violated
            continue
        if not r["obligations"]:
            faults.append(f"{r['func']}: zero obligations generated")
        can = r.get("canary") or {}
        if can.get("falsified_post_fails") is False:
            faults.append(f"{r['func']}: canary verified (all return paths vacuous)")
        all_obs.extend((r, o) for o in r["obligations"])
    for r in lemma_results:
        if r["error"]:
            faults.append(f"lemma {r['lemma']}: {r['error']}")
        all_obs.extend((r, o) for o in r["obligations"])
    # A4 lemma schemas re-proved from Mathlib (lemmas/real_analysis.lean): thorough tier only, once per process, only for
    # properties that use the schemas; a failure is a checker fault (exit 3), never a VIOLATION.  VERIF_LEAN=0 skips.
    lean = None
    if tier == "thorough" and os.environ.get("VERIF_LEAN", "1") == "1" and _uses_a4(mod, all_obs):
        lean = lean_cross_check()
        if lean["status"] != "ok":
            faults.append(f"lean cross-check of the A4 lemma schemas failed (lemmas/check_lean.sh): {str(lean.get('detail', ''))[-600:]}")
    # further lemma files named by the module (LEAN_FILES = ["discrete.lean"]): discrete schemas the contracts rely on
    lean_extra = {}
    if tier == "thorough" and os.environ.get("VERIF_LEAN", "1") == "1":
        lean_files = list(getattr(mod, "LEAN_FILES", ()))
        if any(r.get("used_rowmajor") for r in results) and "discrete.lean" not in lean_files:
            lean_files.append("discrete.lean")  # the row-major axioms were assumed on some path
        for lf in lean_files:
            lean_extra[lf] = lean_cross_check(lf)
            if lean_extra[lf]["status"] != "ok":
                faults.append(f"lean check of lemmas/{lf} failed (lemmas/check_lean.sh): {str(lean_extra[lf].get('detail', ''))[-600:]}")
    selftest_failed = bool(selftest and selftest.get("disagreements"))
    if selftest_failed:
        # the engine's encoding of Python / numpy / torch semantics disagrees with CPython: a checker fault, never a VIOLATION
        d0 = (selftest.get("details") or [{}])[0]
        faults.append(f"engine self-test: {selftest['disagreements']} disagreement(s) with CPython, first: program={d0.get('program')} "
                      f"kind={d0.get('kind')} input={d0.get('input')} cpython={d0.get('cpython')} engine={str(d0.get('engine'))[:200]} (bin/selftest -v)")

    replay_dir = os.path.join(ROOT, "replays", pid)
    os.makedirs(replay_dir, exist_ok=True)
    n_proved = 0
    for r, o in all_obs:
        by_backend[o["backend"]] = by_backend.get(o["backend"], 0) + (1 if o["status"] == "proved" else 0)
        solver_time += o["time_s"]
        if o["status"] == "proved":
            n_proved += 1
            continue
        kf = [k for k in known if k.get("obligation") in (o["name"], _base(o["name"]))
              or (k.get("obligation_glob") and _glob(k["obligation_glob"], _base(o["name"])))]
        # try to replay the counter-model on the real code
        replay = o.get("replay")
        if kf:
            known_hit.append(o["name"])
            ln = f"KNOWN-FINDING: property={pid} {kf[0].get('what', o['name'])}"
            if ln not in lines:  # one line per listed finding, however many obligations it matches
                lines.append(ln)
            continue
        was_proved = baseline.get(_base(o["name"])) == "proved"
        confirmed = bool(replay and replay.get("violated"))
        if confirmed and _only_known_classes(replay, known):
            # the input the oracle found is an instance of a LISTED finding (it fails on the unchanged tree too): it says nothing
            # about this obligation
            replay = dict(replay, violated=False, note="the only failing input found reproduces a listed known finding")
            confirmed = False
        if was_proved and not confirmed and o.get("backend") == "killed":
            # the solver process was killed by the hard wall-clock guard (machine overload): that is a resource event, not a verdict
            # of any back end - never a VIOLATION (seen at 15-fold oversubscription: proved obligations of untouched functions)
            undecided.append(f"obligation {o['name']}: solver process killed by the wall-clock guard (was proved in the baseline)")
            continue
        if confirmed or was_proved:
            path = os.path.join(replay_dir, _safe(o["name"]) + ".json")
            json.dump(dict(property=pid, obligation=o["name"], function=r.get("func"), file=r.get("file"), lines=r.get("lines"),
                           sha256=r.get("sha256"), status=o["status"], backend=o["backend"], solver_model=o.get("model"),
                           reason=o.get("reason"), goal=o.get("goal"), replay=replay, smt2=o.get("smt2"),
                           baseline_status=baseline.get(_base(o["name"]))), open(path, "w"), indent=1, default=str)
            tail = "" if confirmed else " no-failing-input-found"
            violations.append((o["name"], path))
            lines.append(f"VIOLATION property={pid} replay={os.path.relpath(path, ROOT)} obligation={o['name']}{tail}")
        else:
            undecided.append(f"obligation {o['name']}: {o['status']} (not in baseline as proved)")

    # obligations that disappeared relative to baseline
    names = {_base(o["name"]) for _, o in all_obs}
    missing = [n for n, st in baseline.items() if st == "proved" and n not in names]
    # A missing INTERNAL proof step (loop invariant, call-site precondition, unreachable-raise obligation) is tolerated when the
    # function it belongs to still verifies completely against its contract: every obligation generated for it now is discharged,
    # it produced no error and its canary is live.  The proof merely took another route (a loop replaced by a call to a helper
    # under contract, lines moved).  Missing postconditions / raises / frame / fault-point clauses and lemmas are never tolerated.
    fully = {}
    for r in results:
        fn = r.get("frame_name") or r["func"].split(":")[-1]
        ok = (not r["error"]) and bool(r["obligations"]) and all(o["status"] == "proved" for o in r["obligations"]) \
            and (r.get("canary") or {}).get("falsified_post_fails") is not False
        fully[fn] = fully.get(fn, True) and ok
    tolerated = []
    for n in list(missing):
        fn, _, rest = n.partition("::")
        if _INTERNAL_STEP.search(rest) and fully.get(fn):
            missing.remove(n)
            tolerated.append(n)
    errored_funcs = {r["func"] for r in results if r["error"]}

    # bounded stand-ins
    bounded_out = []
    for b, br in zip(bounded, bounded_results):
        if br.get("error"):
            faults.append(f"bounded {b.name}: {br['error']}")
            continue
        res = dict(br["res"])
        fails = res.pop("failures", [])
        res.update(name=b.name, bound=b.bound, wall_s=br["wall_s"], failures=len(fails))
        bounded_out.append(res)
        seen_k = set()
        for f in fails:
            klass = f.get("klass", "")
            kf = [k for k in known if k.get("bounded") == b.name and (k.get("class") in (None, "", klass))]
            if kf:
                if (b.name, klass) not in seen_k:
                    lines.append(f"KNOWN-FINDING: property={pid} {kf[0].get('what', b.name + ' ' + klass)}")
                    known_hit.append(f"bounded::{b.name}::{klass}")
                seen_k.add((b.name, klass))
                continue
            if (b.name, klass) in seen_k:
                continue
            seen_k.add((b.name, klass))
            path = os.path.join(replay_dir, _safe(f"bounded-{b.name}-{klass}") + ".json")
            json.dump(dict(f, property=pid, bounded_check=b.name, klass=klass), open(path, "w"), indent=1, default=str)
            violations.append((f"bounded::{b.name}::{klass}", path))
            lines.append(f"VIOLATION property={pid} replay={os.path.relpath(path, ROOT)} bounded={b.name} class={klass}")

    n_obl = len(all_obs)
    wall = time.time() - t0
    level = getattr(mod, "LEVEL", "proof")
    samples = [dict(obligation=o["name"], kind=o["kind"], goal=o.get("sample", ""), status=o["status"], backend=o["backend"], time_s=o["time_s"])
               for _, o in all_obs[:: max(1, len(all_obs) // 8)]][:10]
    evidence = dict(
        property_id=pid, tier=tier, seed=int(seed), level=level,
        coverage=dict(
            obligations=n_obl, discharged=n_proved,
            checker_cmd=f"./check {pid} --tier {tier}",
            trusted_base=list(getattr(mod, "TRUSTED", [])),
            explanation=getattr(mod, "EXPLANATION", ""),
            samples=samples,
            functions_under_contract=[dict(func=r["func"], file=r.get("file"), lines=r.get("lines"), sha256=r.get("sha256"),
                                           obligations=len(r["obligations"]), paths=len(r.get("outcomes", [])),
                                           # how the explored paths ended: returned / raised / one loop iteration verified /
                                           # pruned by a false assumption (contradictory case combination of the setup)
                                           path_outcomes=_outcome_counts(r.get("outcomes", [])),
                                           inlined=r.get("inlined", []), canary=r.get("canary"), error=r["error"], wall_s=r["wall_s"])
                                      for r in results],
            lemmas=[dict(lemma=r["lemma"], obligations=len(r["obligations"]), error=r["error"]) for r in lemma_results],
            by_backend=by_backend, solver_time_s=round(solver_time, 3),
            slowest_obligations=[dict(name=o["name"], time_s=o["time_s"], backend=o["backend"])
                                 for _, o in sorted(all_obs, key=lambda ro: -ro[1]["time_s"])[:8]],
            not_discharged=[dict(name=o["name"], status=o["status"]) for _, o in all_obs if o["status"] != "proved"],
            known_findings_hit=known_hit,
            bounded_checks=bounded_out,
            baseline_missing_obligations=missing,
            dropped_by_extraction=["type annotations", "docstrings", "typing.cast(T,x) -> x", "output-only calls (print, warn, tqdm, gc.collect, empty_cache) -> no-op", "with torch.no_grad(): -> body"],
            undecided=undecided, checker_faults=faults,
            **({"engine_selftest": selftest} if selftest is not None else {}),
            **({"internal_proof_steps_no_longer_generated_but_function_fully_verified": tolerated[:50]} if tolerated else {}),
            **({"lean_cross_check": {k: lean[k] for k in ("theorems", "status", "seconds")}} if lean is not None else {}),
            **({"lean_lemma_files": {f: {k: r[k] for k in ("theorems", "status", "seconds")} for f, r in lean_extra.items()}} if lean_extra else {}),
        ),
        assumptions=list(getattr(mod, "ASSUMPTIONS", [])),
        wall_s=round(wall, 2), violations=len(violations),
    )
    # runs against a scratch tree (bin/try_patch, bin/run_seeds.py) keep their evidence out of /verif/evidence
    evdir = os.environ.get("VERIF_EVIDENCE_DIR") or os.path.join(ROOT, "evidence")
    os.makedirs(evdir, exist_ok=True)
    json.dump(evidence, open(os.path.join(evdir, f"{pid}.json"), "w"), indent=1, default=str)
    if tier == "thorough":
        # the thorough run's evidence (Lean cross-check, engine self-test, larger families) is kept next to the one of the quick run,
        # which overwrites evidence/<id>.json on every change
        os.makedirs(os.path.join(evdir, "thorough"), exist_ok=True)
        json.dump(evidence, open(os.path.join(evdir, "thorough", f"{pid}.json"), "w"), indent=1, default=str)

    if update_baseline:
        path = os.path.join(ROOT, "baseline", "obligations.json")
        allb = json.load(open(path)) if os.path.exists(path) else {}
        agg = {}
        for _, o in all_obs:
            b = _base(o["name"])
            agg[b] = "proved" if (agg.get(b, "proved") == "proved" and o["status"] == "proved") else "not-proved"
        allb[pid] = agg
        json.dump(allb, open(path, "w"), indent=1, sort_keys=True)

    for ln in lines:
        # with a failed engine self-test no verdict of the engine is trusted: the run is a checker fault (exit 3), not a VIOLATION
        print(("UNTRUSTED(engine self-test failed) " + ln) if selftest_failed and ln.startswith("VIOLATION") else ln)
    if lean is not None:
        print(f"[{pid}] lean_cross_check theorems={lean['theorems']} status={lean['status']} seconds={lean['seconds']}")
    if selftest is not None:
        print(f"[{pid}] engine_selftest programs={selftest.get('programs')} comparisons={selftest.get('comparisons')} "
              f"disagreements={selftest.get('disagreements')} seconds={selftest.get('seconds')}")
    if selftest_failed:
        for f in faults:
            print(f"CHECKER-FAULT property={pid} {f}")
        return 3
    print(f"[{pid}] tier={tier} functions={len(results)} obligations={n_obl} discharged={n_proved} "
          f"bounded={len(bounded_out)} violations={len(violations)} known={len(known_hit)} undecided={len(undecided)} faults={len(faults)} wall={wall:.1f}s")
    if violations:
        return 1
    if faults:
        for f in faults:
            print(f"CHECKER-FAULT property={pid} {f}")
        return 3
    if undecided or missing:
        for u in undecided:
            print(f"UNDECIDED property={pid} reason={u}")
        for m in missing:
            print(f"UNDECIDED property={pid} reason=baseline obligation no longer generated: {m}")
        return 2
    return 0


def _glob(pattern, name):
    """`obligation_glob` of a known finding: fnmatch-style, case-sensitive; `[`/`]` are literal (obligation names carry case tags in brackets)."""
    import fnmatch

    return fnmatch.fnmatchcase(name, pattern.replace("[", "\x00").replace("]", "\x01").replace("\x00", "[[]").replace("\x01", "[]]"))


import re as _re


def _outcome_counts(outcomes):
    c = {}
    for o in outcomes:
        k = (o[0] if o[0] != "end" else f"end:{o[1]}") if isinstance(o, (list, tuple)) and o else str(o)
        c[k] = c.get(k, 0) + 1
    return c


def _only_known_classes(replay, known):
    """Every failure class the run-time oracle reports for this input (`kinds` / `klass`) is the class of an open known finding."""
    norm = lambda x: _re.sub(r"[^a-z0-9]+", "-", str(x).lower()).strip("-")
    kinds = replay.get("kinds") or ([replay["klass"]] if replay.get("klass") else [])
    classes = {norm(k["class"]) for k in known if k.get("class")}
    return bool(kinds) and all(norm(x) in classes for x in kinds)

_INTERNAL_STEP = _re.compile(r"(@loop\d+:(inv-entry|inv-preserved|variant-decreases|yield-matches-spec)|^call .*: pre:|^no-raise:)")


def _base(name):
    """Obligation name without the per-path ordinal (#k): path enumeration order is not part of the identity."""
    return name.split("#")[0]


def _safe(s):
    return "".join(c if c.isalnum() or c in "-_." else "_" for c in s)[:150]
