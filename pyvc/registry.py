"""Registry of library models, contracts, loop specs; Contract class (verify + apply at call sites)."""
from __future__ import annotations

import ast
import importlib
import inspect

import z3

from . import values as V
from .values import OutOfSubset, Sym, SymArr, Obj, S, lift, contains_sym
from .interp import Interp, RaiseSig, PathEnd, NS, LoopSpec, func_ast, GhostGen
from .path import explore


def resolve(qualname):
    mod, _, qn = qualname.partition(":")
    m = importlib.import_module(mod)
    obj = m
    for part in qn.split("."):
        if isinstance(obj, property):
            obj = {"fget": obj.fget, "fset": obj.fset, "fdel": obj.fdel}[part]
            continue
        obj = obj.__dict__[part] if isinstance(obj, type) and part in obj.__dict__ else getattr(obj, part)
        if isinstance(obj, (staticmethod, classmethod)):
            obj = obj.__func__
    return obj


def _default_stateful():
    """Library callables whose result depends on mutable state outside the program's values (file system, clock, RNG,
    environment).  A repository function wrapped in functools.lru_cache / cache that reaches one of them returns stale
    results over a call history; see Interp.call_memoised."""
    import os
    import pathlib
    import random
    import shutil
    import tempfile
    import time
    import zipfile

    out = {open, os.path.exists, os.path.isfile, os.path.isdir, os.path.getsize, os.path.getmtime, os.listdir, os.stat, os.scandir,
           os.walk, os.getcwd, os.getenv, time.time, time.perf_counter, time.monotonic, zipfile.ZipFile, zipfile.is_zipfile,
           tempfile.TemporaryDirectory, tempfile.mkdtemp, tempfile.NamedTemporaryFile, tempfile.mkstemp,
           shutil.copy, shutil.copy2, shutil.copytree, shutil.copyfile, shutil.unpack_archive, random.random, random.randint}
    for nm in ("exists", "is_file", "is_dir", "read_text", "read_bytes", "open", "iterdir", "glob", "rglob", "stat", "resolve"):
        out.add(getattr(pathlib.Path, nm))
    for modname, names in (("zarr", ("open", "open_group", "open_array", "load")), ("numpy", ("load", "loadtxt", "fromfile")),
                           ("torch", ("load",))):
        try:
            mod = __import__(modname)
            for nm in names:
                if hasattr(mod, nm):
                    out.add(getattr(mod, nm))
        except Exception:
            pass
    return out


class ContractMisuse(Exception):
    """A contract cannot be applied soundly at a call site (its postcondition is unsatisfiable there).  Reported as a checker fault:
    never a verdict about the code."""


def _rel_line(line, fnode):
    """Line of a raise relative to the `def` line of the function under verification ("+12"): edits above the function do not
    rename the obligation."""
    try:
        return f"+{int(line) - int(fnode.lineno)}"
    except Exception:
        return "?"


class Registry:
    def __init__(self, repo_prefix="quantem"):
        self.repo_prefix = repo_prefix
        self.models = {}          # real callable -> handler(interp, *args, **kw)
        self.method_models = {}   # (type, name) -> handler(interp, self, *args)
        self.ctor_models = {}
        self.attr_models = {}     # type -> handler(interp, base, name)
        self.setattr_models = {}
        self.getitem_models = {}
        self.setitem_models = {}
        self.binop_models = {}
        self.cmp_models = {}
        self.contains_models = {}
        self.with_models = {}
        self.kind_is = None
        self.contracts = {}       # "module:qualname" -> Contract
        self.inline = set()
        self.inline_all = False
        self.strict_calls = False
        self.abstract_classes = set()
        self.loops = {}           # (func qualname (frame name), ordinal) -> LoopSpec
        self.noop_calls = {"print", "warn", "tqdm", "collect", "empty_cache"}
        self._loop_ord = {}
        self.stateful = _default_stateful()  # callables that READ mutable external state (memoising a caller of one is flagged)

    def model(self, *fs):
        def deco(h):
            for f in fs:
                self.models[f] = h
            return h
        return deco

    def add_contract(self, c):
        self.contracts[c.func] = c
        for ordn, spec in (c.loops or {}).items():
            self.loops[(c.frame_name, ordn)] = spec
        return c

    # loops are keyed by (frame name, ordinal of the loop among For/While nodes of that function in source order)
    def loop_ordinal(self, frame, node):
        key = (frame, node.lineno, node.col_offset)
        return self._loop_ord.get(key, "?")

    def index_loops(self, frame, fnode):
        n = 0
        for x in ast.walk(fnode):
            pass
        loops = [x for x in ast.walk(fnode) if isinstance(x, (ast.For, ast.While))]
        loops.sort(key=lambda x: (x.lineno, x.col_offset))
        for i, x in enumerate(loops):
            self._loop_ord[(frame, x.lineno, x.col_offset)] = i

    def loop_spec(self, frame, node):
        o = self._loop_ord.get((frame, node.lineno, node.col_offset))
        if o is None:
            return None
        return self.loops.get((frame, o))


class Contract:
    """Contract of one real function.

    func      'module:Qual.name'
    setup     (ctx) -> NS with one attribute per parameter (symbolic arguments) [+ ghosts]
    requires  (s) -> [(label, term)]           assumed when verifying, proved at call sites
    ensures   (s) -> [(label, term)]           s.result = return value, s.old = snapshot
    raises    {ExcClass: (s)->term}            exception E is raised IFF the term holds (old state)
    result    (ctx, s) -> fresh result value   (call sites)
    modifies  (ctx, s) -> None                 havoc of the frame (call sites); everything else unchanged
    loops     {ordinal: LoopSpec}
    """

    def __init__(self, func, setup=None, requires=None, ensures=None, raises=None, result=None, modifies=None,
                 loops=None, snapshot=None, inline=(), recursive_by_contract=False, witnesses=None,
                 canaries=None, note="", props=(), generator=False, max_paths=2000, any_raise_ok=False,
                 concretize=None, rt=None, rt_family=None, on_raise=None, overrides=None):
        self.overrides = overrides or {}  # callee "module:qualname" -> Contract used only while verifying THIS body
        self.on_raise = on_raise  # (s, ExcClass) -> [(label, term)]: exceptional postconditions proved on every raising path
        self.concretize = concretize
        self.rt = rt
        self.rt_family = rt_family
        self.func = func
        self.setup = setup
        self.requires = requires or (lambda s: [])
        self.ensures = ensures or (lambda s: [])
        self.raises = raises or {}
        self.result = result
        self.modifies = modifies
        self.loops = loops or {}
        self.snapshot = snapshot
        self.inline = set(inline)
        self.recursive_by_contract = recursive_by_contract
        self.witnesses = witnesses or []
        self.canaries = canaries or []
        self.note = note
        self.props = props
        self.max_paths = max_paths
        self.any_raise_ok = any_raise_ok
        self.real = resolve(func)
        self.frame_name = self.real.__qualname__

    # ---- helpers
    def param_names(self):
        node = func_ast(self.real)[0]
        a = node.args
        return [p.arg for p in a.posonlyargs + a.args + a.kwonlyargs]

    def bind(self, interp, args, kwargs):
        clo = interp.closure_of(self.real)
        env = interp.bind_args(clo, args, kwargs)
        return NS(dict(env.vars))

    def labelled(self, r):
        out = []
        if r is None:
            return out
        if isinstance(r, dict):
            r = list(r.items())
        for i, x in enumerate(r):
            if isinstance(x, tuple):
                out.append((x[0], lift(x[1])))
            else:
                out.append((f"c{i}", lift(x)))
        return out

    # ---- use at a call site (modular: only the contract is visible)
    def apply(self, interp, args, kwargs):
        ctx = interp.ctx
        s = self.bind(interp, args, kwargs)
        s.ctx = ctx
        s.interp = interp
        s.mode = "apply"
        s.old = self.snapshot(s) if self.snapshot else None
        for lab, t in self.labelled(self.requires(s)):
            ctx.prove(f"call {self.frame_name}: pre:{lab}", t, kind="call-pre")
        for E, cond in self.raises.items():
            c = cond(s)
            if c is True or (contains_sym(c) or V.is_z3(c)) and ctx.branch(lift(c)):
                raise RaiseSig(E("raised per contract"))
        if self.modifies:
            self.modifies(ctx, s)
        s.result = self.result(ctx, s) if self.result else None
        ens = self.labelled(self.ensures(s))
        # vacuity guard: a postcondition that is FALSE at this call site (typically a clause written for the verification run and
        # evaluated on the caller's state) would silently end the caller's path and take all its obligations with it
        bad = [lab for lab, t in ens if z3.is_false(V.simp(t))]
        if bad:
            raise ContractMisuse(f"postcondition `{bad[0]}` of {self.frame_name} is literally false at a call site in "
                                 f"{ctx.frames[-1] if ctx.frames else '?'} (a verify-mode clause assumed in apply mode?)")
        live_before = ens and ctx.prune and ctx.feasible(z3.BoolVal(True))
        for lab, t in ens:
            ctx.assume(t)
        if live_before and not ctx.feasible(z3.BoolVal(True)):
            raise ContractMisuse(f"the postconditions of {self.frame_name} contradict the caller's state at a call site in "
                                 f"{ctx.frames[-1] if ctx.frames else '?'}: the caller's path would end vacuously")
        return s.result

    # ---- verification of the body
    def verify(self, reg, mutate_goal=None, path_limit=None):
        """Returns (obligations, paths, notes). Raises OutOfSubset if the body leaves the subset."""
        real = self.real
        fnode = func_ast(real)[0]
        reg.index_loops(self.frame_name, fnode)
        for q in self.inline:
            reg.inline.add(q)
            f = resolve(q)
            fs = [x for x in (f.fget, f.fset) if x is not None] if isinstance(f, property) else [f]
            for g in fs:
                reg.index_loops(g.__qualname__, func_ast(g)[0])
        obligs = {}
        outcomes = []
        for q, c in self.overrides.items():
            reg.contracts[q] = c

        def run(ctx):
            interp = Interp(ctx, reg)
            interp.under_verification = self.func
            ctx.interp = interp  # setups may run the real function first to build a pre-state WITH A PAST (C10: second read of a getter)
            s = self.setup(ctx)
            s.ctx = ctx
            s.interp = interp
            s.mode = "verify"
            sfx = f"[{s.case}]" if getattr(s, "case", None) else ""  # optional case tag (setup may enumerate cases)
            for lab, t in self.labelled(self.requires(s)):
                ctx.assume(t)
            s.old = self.snapshot(s) if self.snapshot else None
            a_ = func_ast(real)[0].args
            names = [p.arg for p in a_.posonlyargs + a_.args]
            pv = getattr(s, "param_values", None) or {}  # explicit values for parameters whose name collides with NS bookkeeping (`mode`, `ctx`, `old`, ...)
            # positional up to the first parameter the setup does not bind; the bound parameters after such a gap are passed by
            # keyword (skipping the gap positionally would shift every later value into the wrong parameter)
            args, kwargs, gap = [], dict(getattr(s, "kwargs", {})), False
            for n in names:
                if n in pv or hasattr(s, n):
                    val = pv[n] if n in pv else getattr(s, n)
                    if gap:
                        kwargs.setdefault(n, val)
                    else:
                        args.append(val)
                else:
                    gap = True
            if getattr(s, "varargs", ()):
                if gap:
                    raise OutOfSubset("contract setup binds *args but leaves an earlier positional parameter unbound")
                args += list(s.varargs)  # varargs: extra positionals for *args
            for p_ in a_.kwonlyargs:  # keyword-only parameters are passed by keyword
                if p_.arg in pv or hasattr(s, p_.arg):
                    kwargs.setdefault(p_.arg, pv[p_.arg] if p_.arg in pv else getattr(s, p_.arg))
            clo = interp.closure_of(real)
            try:
                env = interp.bind_args(clo, args, kwargs)
                res = interp.run_body(clo, env)
            except RaiseSig as r:
                E = type(r.exc)
                matched = False
                for EC, cond in self.raises.items():
                    if issubclass(E, EC):
                        matched = True
                        ctx.prove(f"raises:{EC.__name__}:only-when{sfx}", cond(s), kind="raises", assume_after=False)
                if not matched and not self.any_raise_ok:
                    ctx.prove(f"no-raise:{E.__name__}@{_rel_line(getattr(interp, 'cur_line', None), fnode)}{sfx}", z3.BoolVal(False), kind="safety",
                              assume_after=False, meta={"exc": repr(r.exc)})
                if self.on_raise is not None:
                    for lab, t in self.labelled(self.on_raise(s, E)):
                        ctx.prove(f"post-raise:{E.__name__}:{lab}", t, kind="post-raise", assume_after=False)
                return ("raise", E.__name__)
            s.result = res
            interp.check_memoised_results()
            posts_first = getattr(self, "posts_first", False)  # opt-in (set on the Contract object): postconditions are proved WITHOUT the
            if not posts_first:                                # "no exception was due" facts, so a skipped validation fails the invariant clause by name
                for EC, cond in self.raises.items():
                    ctx.prove(f"raises:{EC.__name__}:whenever{sfx}", z3.Not(lift(cond(s))), kind="raises")
            ens = self.labelled(self.ensures(s))
            for lab, t in ens:
                if mutate_goal:
                    t = mutate_goal(lab, t)
                ctx.prove(f"post:{lab}", t, kind="post", assume_after=False)
            if posts_first:
                for EC, cond in self.raises.items():
                    ctx.prove(f"raises:{EC.__name__}:whenever{sfx}", z3.Not(lift(cond(s))), kind="raises")
            return ("return", None)

        results = explore(run, max_paths=self.max_paths, stop_after=path_limit)  # path_limit: canary sampling (runner), None = all paths
        n_paths = 0
        memo_bad = []
        for ctx, out in results:
            n_paths += 1
            outcomes.append(out)
            for ob in ctx.obligs:
                obligs.setdefault(ob.key(), ob)
            if ctx.ghost.get("rowmajor"):
                self.used_rowmajor = True  # values.RowMajor axioms were assumed on some path (-> lemmas/discrete.lean D1 in the thorough tier)
            for b in ctx.ghost.get("memo_bad", ()):
                if b not in memo_bad:
                    memo_bad.append(b)
        obs = list(obligs.values())
        if mutate_goal is None:
            # one summary obligation per contract (always generated, so it is in the baseline): no call through a memoising
            # wrapper (functools.lru_cache / cache) read mutable external state or had its cached result written afterwards -
            # either makes the function's result depend on the call HISTORY, which no per-call contract clause can see
            from .path import Obligation

            obs.append(Obligation("frame:memoised-calls-read-no-mutable-state-and-their-cached-results-are-never-written",
                                  [], z3.BoolVal(not memo_bad), kind="frame", meta={"events": "; ".join(memo_bad)[:600]}))
        return obs, outcomes
