"""Engine self-check against CPython (DESIGN §3): differential testing of pyvc's symbolic semantics.

For every test program of `pyvc/selftest_programs.py` (small real Python functions, each exercising one or two language /
numpy / torch features whose encoding in pyvc is TRUSTED):

  (a) the function is run SYMBOLICALLY through `pyvc.interp.Interp` on symbolic arguments, all paths are explored with
      `pyvc.path.explore`; per path the path condition and the result value / raised exception class are recorded
      (array results are materialised element by element at concrete indices while the path is still active);
  (b) many seeded random concrete inputs are drawn (negatives, zeros, range boundaries, equal values); for each input the
      path conditions are evaluated under the assignment (z3 substitute + substitute_funs + simplify): EXACTLY ONE path
      must hold; the symbolic result is evaluated under the assignment and compared with running the function natively
      in CPython (exact rational comparison; floats are exact dyadic rationals; same exception class; arrays element by
      element; mutable arguments are compared after the call as well).

Programs whose symbolic run introduces fresh symbols (over-approximating models: round(), any(), max(), argsort(),
loop invariants, Sigma-terms) are compared by CONSISTENCY: the CPython behaviour must be included in the set of
behaviours described by some path (sat check of  binding AND path condition AND result == CPython result).

Loop-rule programs additionally discharge the generated obligations (a correct invariant must verify; a deliberately
wrong invariant must yield at least one refutable obligation).

A disagreement is a CHECKER FAULT (exit 3 of bin/selftest / of ./check --tier thorough), never a property violation.
"""
from __future__ import annotations

import itertools
import random
import sys
import time
import traceback
import zlib
from fractions import Fraction

import z3

from . import values as V
from .values import Sym, SymArr, OutOfSubset
from .interp import Interp, RaiseSig, GhostGen, SymRange, func_ast
from .path import explore

SENT_INT = 424243
SENT_REAL = "848487/2"


# ------------------------------------------------------------------------------------------------
# registry used by the self-test: the TRUSTED core models only (builtins, numpy_, torch_), as contracts.common does
# ------------------------------------------------------------------------------------------------


def make_registry():
    from .lib import base_registry, numpy_, torch_

    reg = base_registry()
    numpy_.install(reg)
    torch_.install(reg)

    def gi(interp, base, key):  # same hook as contracts/common.py::registry
        if isinstance(key, slice) and hasattr(base, "mem"):
            return numpy_.slice_index_array(base, key)
        return NotImplemented

    reg.getitem_models[SymArr] = gi
    reg.repo_prefix = "pyvc.selftest_programs"  # helper functions / classes of the test programs are interpreted (inlined)
    reg.inline_all = True
    return reg


# ------------------------------------------------------------------------------------------------
# argument specs  ->  symbolic arguments, concrete draws, bindings
# ------------------------------------------------------------------------------------------------

_SORT = {"int": z3.IntSort, "real": z3.RealSort, "bool": z3.BoolSort}


def _zval(elem, v):
    if elem == "int":
        return z3.IntVal(int(v))
    if elem == "bool":
        return z3.BoolVal(bool(v))
    return z3.RealVal(str(Fraction(v)))


def _shape_indices(shape):
    return list(itertools.product(*[range(d) for d in shape]))


class ArgSym:
    """Symbolic argument + how to bind it to a concrete draw."""

    def __init__(self, spec, value, consts=(), length=None, func=None):
        self.spec = spec
        self.value = value  # what is passed to the interpreted function
        self.consts = list(consts)  # z3 constants in draw order (scalars / list elements)
        self.length = length  # z3 Int constant of a symbolic length (or None)
        self.func = func  # z3 function of a fresh_arr

    def bind(self, draw):
        """draw: python scalar | flat list (row-major) with shape | (shape, flat) -> (const pairs, fun pairs)"""
        sp = self.spec
        cp, fp = [], []
        if sp.kind == "const":
            return cp, fp
        if sp.kind == "scalar":
            cp.append((self.consts[0], _zval(sp.elem, draw)))
            return cp, fp
        shape, flat = draw
        if sp.kind in ("pylist", "pytuple"):
            for c, v in zip(self.consts, flat):
                cp.append((c, _zval(sp.elem, v)))
            return cp, fp
        if self.length is not None:
            cp.append((self.length, z3.IntVal(shape[0])))
        nd = len(shape)
        if nd == 0:
            cp.append((self.func, _zval(sp.elem, flat[0])))
            return cp, fp
        body = {"int": z3.IntVal(SENT_INT), "real": z3.RealVal(SENT_REAL), "bool": z3.BoolVal(False)}[sp.elem]
        vs = [z3.Var(i, z3.IntSort()) for i in range(nd)]
        for idx, v in reversed(list(zip(_shape_indices(shape), flat))):
            body = z3.If(z3.And(*[a == i for a, i in zip(vs, idx)]) if nd > 1 else vs[0] == idx[0], _zval(sp.elem, v), body)
        fp.append((self.func, body))
        return cp, fp


def build_args(ctx, specs, names):
    out = []
    for sp, nm in zip(specs, names):
        if sp.kind == "const":
            out.append(ArgSym(sp, sp.fresh_value()))
        elif sp.kind == "scalar":
            s = ctx.fresh(nm, sp.elem)
            if sp.elem != "bool":
                ctx.assume(z3.And(s.t >= sp.lo, s.t <= sp.hi))
            out.append(ArgSym(sp, s, [s.t]))
        elif sp.kind in ("pylist", "pytuple"):
            xs = [ctx.fresh(f"{nm}_{i}", sp.elem) for i in range(sp.shape[0])]
            if sp.elem != "bool":
                for x in xs:
                    ctx.assume(z3.And(x.t >= sp.lo, x.t <= sp.hi))
            out.append(ArgSym(sp, list(xs) if sp.kind == "pylist" else tuple(xs), [x.t for x in xs]))
        else:  # symlist / np / torch : index-function arrays
            length = None
            if sp.shape is None:
                n = ctx.fresh(nm + "_len", "int")
                ctx.assume(z3.And(n.t >= 0, n.t <= sp.maxlen))
                shape = (n,)
                length = n.t
            else:
                shape = tuple(sp.shape)
            a = ctx.fresh_arr(nm, shape, sp.elem)
            if sp.kind == "symlist":
                a.pylist = True
            elif sp.kind == "np":
                import numpy as np

                a.as_type = np.ndarray
            else:
                import torch

                a.as_type = torch.Tensor
            # element ranges are NOT assumed (no quantified hypotheses on the path); draws simply stay inside [lo, hi]
            out.append(ArgSym(sp, a, length=length, func=a.func))
    return out


def _draw_scalar(sp, rng, mode):
    if sp.elem == "bool":
        return {"zero": False, "lo": False, "hi": True}.get(mode, rng.random() < 0.5)
    if sp.elem == "int":
        lo, hi = sp.lo, sp.hi
        if mode == "zero":
            return min(max(0, lo), hi)
        if mode == "lo":
            return lo
        if mode == "hi":
            return hi
        if rng.random() < 0.3:
            return rng.choice([v for v in (lo, hi, 0, -1, 1, lo + 1, hi - 1) if lo <= v <= hi])
        return rng.randint(lo, hi)
    lo, hi = sp.lo * sp.den, sp.hi * sp.den
    if mode == "zero":
        k = min(max(0, lo), hi)
    elif mode == "lo":
        k = lo
    elif mode == "hi":
        k = hi
    elif rng.random() < 0.3:
        k = rng.choice([v for v in (lo, hi, 0, -1, 1, sp.den, -sp.den, sp.den // 2, -(sp.den // 2)) if lo <= v <= hi])
    else:
        k = rng.randint(lo, hi)
    return Fraction(k, sp.den)


def draw_input(specs, rng, mode, j):
    """One concrete input (list of draws, one per spec). mode: zero | lo | hi | equal | random"""
    draws = []
    eq = {}
    for sp in specs:
        if sp.kind == "const":
            draws.append(None)
            continue
        if mode == "equal":
            key = (sp.elem, sp.lo, sp.hi)
            if key not in eq:
                eq[key] = _draw_scalar(sp, rng, "random")
            one = lambda _sp=sp, _k=key: eq[_k]
        else:
            one = lambda _sp=sp: _draw_scalar(_sp, rng, mode)
        if sp.kind == "scalar":
            draws.append(one())
            continue
        if sp.shape is None:
            n = [0, 1, sp.maxlen, 2][j % 4] if j < 6 else rng.randint(0, sp.maxlen)
            n = min(n, sp.maxlen)
            shape = (n,)
        else:
            shape = tuple(sp.shape)
        cnt = 1
        for d in shape:
            cnt *= d
        flat = [one() for _ in range(cnt)]
        if mode == "random" and cnt > 1 and rng.random() < 0.25:  # ties inside an array
            flat[rng.randrange(cnt)] = flat[rng.randrange(cnt)]
        draws.append((shape, flat))
    return draws


def _pyval(elem, v):
    return bool(v) if elem == "bool" else int(v) if elem == "int" else float(v)


def native_args(specs, draws):
    """Fresh native argument objects for CPython."""
    out = []
    for sp, d in zip(specs, draws):
        if sp.kind == "const":
            out.append(sp.fresh_value())
        elif sp.kind == "scalar":
            out.append(_pyval(sp.elem, d))
        else:
            shape, flat = d
            vals = [_pyval(sp.elem, v) for v in flat]
            if sp.kind in ("pylist", "symlist"):
                out.append(vals)
            elif sp.kind == "pytuple":
                out.append(tuple(vals))
            elif sp.kind == "np":
                import numpy as np

                dt = {"int": np.int64, "real": np.float64, "bool": np.bool_}[sp.elem]
                out.append(np.array(vals, dtype=dt).reshape(shape))
            else:
                import torch

                dt = {"int": torch.int64, "real": torch.float64, "bool": torch.bool}[sp.elem]
                out.append(torch.tensor(vals, dtype=dt).reshape(shape))
    return out


def show_input(specs, names, draws):
    d = {}
    for sp, nm, x in zip(specs, names, draws):
        if sp.kind == "const":
            continue
        if sp.kind == "scalar":
            d[nm] = str(x) if isinstance(x, Fraction) and x.denominator != 1 else (int(x) if not isinstance(x, bool) else x)
        else:
            d[nm] = dict(shape=list(x[0]), flat=[str(v) if isinstance(v, Fraction) and v.denominator != 1 else (v if isinstance(v, bool) else int(v)) for v in x[1]])
    return d


# ------------------------------------------------------------------------------------------------
# value normalisation:  engine value -> tree with z3 terms at the leaves ;  CPython value -> tree with constants
#   ("num", Fraction, is_float) ("bool", b) ("none",) ("str", s) ("seq", [items], shape|None) ("dict", {k: item})
#   ("term", z3 term) (engine only) ; ("opaque", text)
# ------------------------------------------------------------------------------------------------


def canon_native(v, depth=0):
    import numpy as np

    try:
        import torch
    except ImportError:  # pragma: no cover
        torch = None
    if v is None:
        return ("none",)
    if isinstance(v, (bool, np.bool_)):
        return ("bool", bool(v))
    if isinstance(v, (int, np.integer)):
        return ("num", Fraction(int(v)), False)
    if isinstance(v, (float, np.floating)):
        f = float(v)
        if f != f or f in (float("inf"), float("-inf")):
            return ("opaque", repr(f))
        return ("num", Fraction(f), True)
    if isinstance(v, Fraction):
        return ("num", v, False)
    if isinstance(v, str):
        return ("str", v)
    if torch is not None and isinstance(v, torch.Tensor):
        v = v.detach().cpu().numpy()
    if isinstance(v, np.ndarray):
        if v.ndim == 0:
            return canon_native(v.item())
        return ("seq", [canon_native(x, depth + 1) for x in v], tuple(v.shape))
    if isinstance(v, (list, tuple, range)):
        return ("seq", [canon_native(x, depth + 1) for x in v], None)
    if isinstance(v, dict):
        return ("dict", {repr(k): canon_native(x, depth + 1) for k, x in v.items()})
    if isinstance(v, (set, frozenset)):
        return ("seq", sorted((canon_native(x, depth + 1) for x in v), key=repr), None)
    if hasattr(v, "__next__"):
        return canon_native(list(v))
    if hasattr(v, "__dict__") and type(v).__module__.endswith("selftest_programs"):
        return ("dict", {repr(k): canon_native(x, depth + 1) for k, x in vars(v).items()})
    return ("opaque", type(v).__name__)


MAX_MATERIALISE = 64


def materialise(v, maxlen=8, depth=0):
    """Engine value -> tree (must run while the path context is active: element functions may fork)."""
    import numpy as np

    if isinstance(v, Sym):
        return ("term", v.t)
    if isinstance(v, SymArr):
        if v.ndim == 0:
            return materialise(v.fn(), maxlen, depth + 1)
        dims, ext = [], []
        for d in v.shape:
            lit = V._dim_lit(d)
            dims.append(V.lift(d))
            ext.append(lit if lit is not None else maxlen)
        total = 1
        for e in ext:
            total *= e
        if total > MAX_MATERIALISE:
            raise OutOfSubset("self-test: result array too large to materialise")
        elems = {}
        for idx in _shape_indices(ext):
            try:
                e = v.fn(*[z3.IntVal(i) for i in idx])
            except (OutOfSubset, V.RaiseSigLazy) as ex:
                if all(V._dim_lit(d) is not None for d in v.shape):
                    raise
                e = None  # beyond a symbolic extent: may be unreadable, only compared when in range
                elems[idx] = ("opaque", f"unreadable: {ex}")
                continue
            elems[idx] = materialise(e, maxlen, depth + 1)
        return ("arr", dims, elems, v.pylist)
    if isinstance(v, (list, tuple)):
        return ("seq", [materialise(x, maxlen, depth + 1) for x in v], None)
    if isinstance(v, GhostGen):
        return materialise(v.concrete_list(), maxlen, depth + 1)
    if isinstance(v, SymRange):
        c = v.concrete()
        if c is None:
            raise OutOfSubset("self-test: symbolic range as a result")
        return materialise(c, maxlen, depth + 1)
    if isinstance(v, dict):
        if any(V.contains_sym(k) for k in v):
            raise OutOfSubset("self-test: dict result with symbolic keys")
        return ("dict", {repr(k): materialise(x, maxlen, depth + 1) for k, x in v.items()})
    if isinstance(v, V.Obj):
        return ("dict", {repr(k): materialise(x, maxlen, depth + 1) for k, x in v.fields.items()})
    if V.is_z3(v):
        return ("term", v)
    return canon_native(v)


class Binding:
    def __init__(self, argsyms, draws):
        self.cp, self.fp = [], []
        for a, d in zip(argsyms, draws):
            c, f = a.bind(d)
            self.cp += c
            self.fp += f

    def ev(self, t):
        if self.cp:
            t = z3.substitute(t, *self.cp)
        if self.fp:
            t = z3.substitute_funs(t, *self.fp)
        return z3.simplify(t)

    def equalities(self):
        return [a == b for a, b in self.cp]


def literal(t):
    """Simplified z3 term -> ('num', Fraction) / ('bool', b) / ('str', s) / None."""
    if z3.is_true(t):
        return ("bool", True)
    if z3.is_false(t):
        return ("bool", False)
    if z3.is_int_value(t):
        return ("num", Fraction(t.as_long()), False)
    if z3.is_rational_value(t):
        return ("num", Fraction(t.numerator_as_long(), t.denominator_as_long()), False)
    if z3.is_string_value(t):
        return ("str", t.as_string())
    return None


def eval_tree(tree, b):
    """Evaluate an engine tree under binding `b`; leaves that do not reduce to literals stay ('term', t)."""
    k = tree[0]
    if k == "term":
        t = b.ev(tree[1])
        lit = literal(t)
        return lit if lit is not None else ("term", t)
    if k == "seq":
        return ("seq", [eval_tree(x, b) for x in tree[1]], tree[2])
    if k == "dict":
        return ("dict", {kk: eval_tree(x, b) for kk, x in tree[1].items()})
    if k == "arr":
        dims = []
        for d in tree[1]:
            lit = literal(b.ev(d))
            if lit is None or lit[0] != "num":
                return ("opaque", f"symbolic extent {d}")
            dims.append(int(lit[1]))

        def nest(prefix, ax):
            if ax == len(dims):
                e = tree[2].get(tuple(prefix))
                return eval_tree(e, b) if e is not None else ("opaque", "not materialised")
            return ("seq", [nest(prefix + [i], ax + 1) for i in range(dims[ax])], tuple(dims[ax:]) if not tree[3] else None)

        return nest([], 0)
    return tree


TOL = Fraction(1, 10 ** 9)


def compare(eng, nat, path, stats, eqs):
    """Structural comparison. Returns list of mismatch strings. Unreduced engine leaves add equations to `eqs`."""
    ke, kn = eng[0], nat[0]
    if ke == "term":
        t = eng[1]
        if kn == "num":
            eqs.append((t, nat, path))
        elif kn == "bool":
            eqs.append((t, nat, path))
        elif kn == "opaque" or kn == "str":
            pass
        else:
            return [f"{path}: engine scalar vs CPython {kn}"]
        return []
    if ke == "opaque" or kn == "opaque":
        stats["opaque"] = stats.get("opaque", 0) + 1
        if ke == "opaque" and kn != "opaque" and str(eng[1]).startswith(("unreadable", "not materialised", "symbolic extent")):
            return [f"{path}: engine value {eng[1]}"]
        return []
    if ke in ("num", "bool") and kn in ("num", "bool"):
        ve = Fraction(int(eng[1])) if ke == "bool" else eng[1]
        vn = Fraction(int(nat[1])) if kn == "bool" else nat[1]
        if ke != kn:
            stats["kind_notes"].add(f"{path}: engine {ke} vs CPython {kn}")
        if ve == vn:
            return []
        if kn == "num" and nat[2] and abs(ve - vn) <= TOL * max(1, abs(vn)):
            stats["approx"] = stats.get("approx", 0) + 1
            return []
        return [f"{path}: engine {_fmt(eng)} != CPython {_fmt(nat)}"]
    if ke != kn:
        return [f"{path}: engine {ke} vs CPython {kn}"]
    if ke in ("none",):
        return []
    if ke == "str":
        return [] if eng[1] == nat[1] or eng[1].startswith("<") else [f"{path}: engine {eng[1]!r} != CPython {nat[1]!r}"]
    if ke == "seq":
        if len(eng[1]) != len(nat[1]):
            return [f"{path}: length engine {len(eng[1])} != CPython {len(nat[1])}"]
        if eng[2] is not None and nat[2] is not None and tuple(eng[2]) != tuple(nat[2]):
            return [f"{path}: shape engine {eng[2]} != CPython {nat[2]}"]
        out = []
        for i, (x, y) in enumerate(zip(eng[1], nat[1])):
            out += compare(x, y, f"{path}[{i}]", stats, eqs)
        return out
    if ke == "dict":
        if set(eng[1]) != set(nat[1]):
            return [f"{path}: keys engine {sorted(eng[1])} != CPython {sorted(nat[1])}"]
        out = []
        for k in eng[1]:
            out += compare(eng[1][k], nat[1][k], f"{path}[{k}]", stats, eqs)
        return out
    return [f"{path}: cannot compare {ke}"]


def _fmt(tree, n=0):
    k = tree[0]
    if k == "num":
        v = tree[1]
        return str(v.numerator) if v.denominator == 1 else (str(float(v)) if len(tree) > 2 and tree[2] else str(v))
    if k == "bool":
        return str(tree[1])
    if k == "none":
        return "None"
    if k == "str":
        return repr(tree[1])
    if k == "seq":
        return "[" + ", ".join(_fmt(x) for x in tree[1]) + "]"
    if k == "dict":
        return "{" + ", ".join(f"{a}: {_fmt(x)}" for a, x in tree[1].items()) + "}"
    if k == "term":
        return f"<{str(tree[1])[:60]}>"
    if k == "arr":
        return "<array>"
    return f"<{tree[1]}>"


# ------------------------------------------------------------------------------------------------
# one program
# ------------------------------------------------------------------------------------------------


class PathRec:
    __slots__ = ("pc", "pc_and", "out", "obligs", "n_dec")

    def __init__(self, pc, out, obligs, n_dec):
        pi_ids = {f.get_id() for f in V.PI_FACTS}
        pc = [t for t in pc if t.get_id() not in pi_ids]  # global axioms about the symbolic constant pi, not path facts
        self.pc = pc
        self.pc_and = z3.And(*pc) if pc else z3.BoolVal(True)
        self.out = out
        self.obligs = obligs
        self.n_dec = n_dec


def _mutable_arg_positions(specs):
    return [i for i, sp in enumerate(specs) if sp.kind in ("pylist", "symlist", "np", "torch")]


def symbolic_paths(prog, loops=None):
    """All paths of the program: list of PathRec, the argument symbols (of the first path), engine faults."""
    fn = prog.fn
    specs = prog.specs
    node = func_ast(fn)[0]
    names = [p.arg for p in node.args.posonlyargs + node.args.args][: len(specs)]
    holder = {}
    mut = _mutable_arg_positions(specs)
    maxlen = max([sp.maxlen for sp in specs if getattr(sp, "maxlen", None)] + [0]) * prog.len_factor or 8

    def run(ctx):
        reg = make_registry()
        frame = fn.__qualname__
        reg.index_loops(frame, node)
        for o, spec in (loops or {}).items():
            reg.loops[(frame, o)] = spec
        interp = Interp(ctx, reg)
        argsyms = build_args(ctx, specs, names)
        holder.setdefault("args", argsyms)
        args = [a.value for a in argsyms]
        if prog.pre is not None:
            r = prog.pre(*args)
            for c in (r if isinstance(r, (list, tuple)) else [r]):
                if c is True:
                    continue
                ctx.assume(V.lift(c))
        clo = interp.closure_of(fn)
        try:
            env = interp.bind_args(clo, args, {})
            res = interp.run_body(clo, env)
            after = []
            for i in mut:
                try:
                    after.append(materialise(args[i], maxlen))
                except OutOfSubset as e:
                    after.append(("opaque", f"argument state not readable: {e}"))
            return ("return", materialise(res, maxlen), after)
        except RaiseSig as r:
            return ("raise", type(r.exc).__name__)
        except V.RaiseSigLazy as r:
            return ("raise", type(r.exc).__name__)
        except OutOfSubset as e:
            return ("oos", str(e)[:200])

    results = explore(run, max_paths=prog.max_paths)
    paths = [PathRec(list(ctx.pc), out, list(ctx.obligs), len(ctx.decisions)) for ctx, out in results]
    return paths, holder.get("args", []), names


def _input_symbols(argsyms):
    ids = set()
    for a in argsyms:
        for c in a.consts:
            ids.add(c.decl().name())
        if a.length is not None:
            ids.add(a.length.decl().name())
        if a.func is not None:
            ids.add(a.func.name() if isinstance(a.func, z3.FuncDeclRef) else a.func.decl().name())
    ids.add("pi")
    return ids


def _solver_sat(fs, timeout_ms=3000):
    s = z3.Solver()
    s.set("timeout", timeout_ms)
    for f in fs:
        s.add(f)
    return s.check()


def _discharge(ob, timeout_ms=5000):
    s = z3.Solver()
    s.set("timeout", timeout_ms)
    for h in ob.hyps:
        s.add(h)
    s.add(z3.Not(ob.goal))
    r = s.check()
    return "proved" if r == z3.unsat else "refuted" if r == z3.sat else "unknown"


def run_program(prog, n_inputs, seed):
    """Returns dict(name, status, comparisons, exact, consistency, disagreements=[...], unsupported=[...], notes)"""
    t0 = time.time()
    rec = dict(name=prog.name, comparisons=0, exact=0, consistency=0, disagreements=[], unsupported=[], paths=0,
               kind_notes=[], approx=0, obligations=0)
    stats = {"kind_notes": set()}

    def disagree(kind, **kw):
        kd = prog.known_deviation
        if kd and kw.get("cpython") == f"raises {kd[0]}" and not str(kw.get("engine", "")).startswith("raises") and kind in ("result", "result-not-admitted"):
            # documented, deliberately unfixed deviation (listed in the summary / evidence, not a disagreement)
            rec["known_deviations"] = rec.get("known_deviations", 0) + 1
            rec["known_deviation_text"] = kd[1]
            return
        if len(rec["disagreements"]) < 6:
            rec["disagreements"].append(dict(program=prog.name, kind=kind, **kw))
        else:
            rec["more_disagreements"] = rec.get("more_disagreements", 0) + 1

    try:
        paths, argsyms, names = symbolic_paths(prog, prog.loops)
    except OutOfSubset as e:
        msg = f"out-of-subset during exploration: {e}"
        if prog.unsupported:
            rec["unsupported"].append(msg)
        else:
            disagree("out-of-subset", input=None, cpython="(runs)", engine=msg)
        rec["seconds"] = round(time.time() - t0, 3)
        return rec
    except Exception as e:
        disagree("engine-crash", input=None, cpython="(runs)", engine=f"{type(e).__name__}: {e}", trace=traceback.format_exc()[-800:])
        rec["seconds"] = round(time.time() - t0, 3)
        return rec
    rec["paths"] = len(paths)

    # loop-rule programs: the generated obligations must verify with the correct invariant ...
    if prog.loops:
        seen = set()
        for p in paths:
            for ob in p.obligs:
                k = ob.key()
                if k in seen:
                    continue
                seen.add(k)
                rec["obligations"] += 1
                st = _discharge(ob)
                if st != "proved":
                    disagree("loop-obligation-not-proved", input=None, cpython="correct invariant", engine=f"{ob.name}: {st}")
        if not seen:
            disagree("loop-rule", input=None, cpython="loop with invariant", engine="no obligations generated")
        # ... and a deliberately wrong invariant must produce a refutable obligation
        for label, bad in (prog.bad_loops or {}).items():
            try:
                bpaths, _, _ = symbolic_paths(prog, bad)
                sts = [(_discharge(ob), ob.name) for p in bpaths for ob in p.obligs]
                rec["obligations"] += len(sts)
                if not any(s != "proved" for s, _ in sts):
                    disagree("wrong-invariant-accepted", input=None, cpython=f"invariant {label} is wrong", engine=f"all {len(sts)} obligations proved")
            except OutOfSubset as e:
                rec["unsupported"].append(f"bad-invariant run {label}: {e}")

    specs = prog.specs
    insyms = _input_symbols(argsyms)
    rng = random.Random((zlib.crc32(prog.name.encode()) ^ (seed * 7919)) & 0xFFFFFFFF)
    modes = ["zero", "lo", "hi", "equal", "equal"]
    mut = _mutable_arg_positions(specs)
    for j in range(n_inputs):
        mode = modes[j] if j < len(modes) else "random"
        draws = None
        for _try in range(60):
            d = draw_input(specs, rng, mode if _try == 0 else "random", j)
            if prog.pre is None:
                draws = d
                break
            try:
                r = prog.pre(*native_args(specs, d))
                ok = all(bool(c) for c in (r if isinstance(r, (list, tuple)) else [r]))
            except Exception:
                ok = False
            if ok:
                draws = d
                break
        if draws is None:
            continue
        shown = show_input(specs, names, draws)
        # CPython
        nargs = native_args(specs, draws)
        try:
            import warnings

            with warnings.catch_warnings():
                warnings.simplefilter("ignore")
                nres = prog.fn(*nargs)
            nat = ("return", canon_native(nres), [canon_native(nargs[i]) for i in mut])
        except Exception as e:
            nat = ("raise", type(e).__name__)
        nat_txt = _fmt(nat[1]) if nat[0] == "return" else f"raises {nat[1]}"
        # engine
        b = Binding(argsyms, draws)
        rec["comparisons"] += 1
        definite, possible = [], []
        for p in paths:
            c = b.ev(p.pc_and)
            if z3.is_true(c):
                definite.append((p, c))
            elif z3.is_false(c):
                continue
            else:
                possible.append((p, c))
        if definite and not possible:
            # exact mode
            if len(definite) != 1:
                disagree("several-matching-paths", input=shown, cpython=nat_txt, engine=f"{len(definite)} paths hold: {[_out_txt(p.out, b) for p, _ in definite][:4]}")
                continue
            p = definite[0][0]
            ok, why, exact = _compare_path(p, b, nat, stats, [])
            if ok is None:
                rec["unsupported"].append(why) if prog.unsupported else disagree("out-of-subset", input=shown, cpython=nat_txt, engine=why)
                continue
            rec["exact" if exact else "consistency"] += 1
            if not ok:
                disagree("result", input=shown, cpython=nat_txt, engine=_out_txt(p.out, b), detail=why[:3])
            continue
        # over-approximating mode: CPython's behaviour must be admitted by some satisfiable path
        cands = [(p, c) for p, c in definite + possible]
        live = []
        for p, c in cands:
            if z3.is_true(c):
                live.append((p, c))
                continue
            r = _solver_sat([c])
            if r != z3.unsat:
                live.append((p, c))
        if not live:
            disagree("no-matching-path", input=shown, cpython=nat_txt, engine=f"none of {len(paths)} path conditions holds")
            continue
        rec["consistency"] += 1
        good = False
        whys = []
        oos = None
        for p, c in live:
            if p.out[0] == "end":
                continue
            ok, why, _ = _compare_path(p, b, nat, stats, [c])
            if ok is None:
                oos = why
                continue
            if ok:
                good = True
                break
            whys.append((_out_txt(p.out, b), why[:2]))
        if not good:
            if oos is not None and not whys:
                rec["unsupported"].append(oos) if prog.unsupported else disagree("out-of-subset", input=shown, cpython=nat_txt, engine=oos)
            else:
                disagree("result-not-admitted", input=shown, cpython=nat_txt, engine=f"{len(live)} satisfiable path(s), none admits CPython's result: {whys[:3]}")
    rec["kind_notes"] = sorted(stats["kind_notes"])[:6]
    rec["approx"] = stats.get("approx", 0)
    rec["unsupported"] = sorted(set(rec["unsupported"]))[:4]
    if prog.unsupported and not rec["unsupported"] and not rec["disagreements"]:
        rec["now_supported"] = True
    rec["seconds"] = round(time.time() - t0, 3)
    return rec


def _out_txt(out, b):
    if out[0] == "return":
        try:
            return _fmt(eval_tree(out[1], b))
        except Exception as e:  # pragma: no cover
            return f"<unevaluable: {e}>"
    if out[0] == "raise":
        return f"raises {out[1]}"
    return f"{out[0]}: {out[1]}"


def _compare_path(p, b, nat, stats, extra):
    """(ok | None if out-of-subset, reasons, exact?)"""
    out = p.out
    if out[0] == "oos":
        return None, f"out-of-subset: {out[1]}", True
    if out[0] == "end":
        return False, [f"path ended ({out[1]}) but its condition holds for the input"], True
    if out[0] == "raise" or nat[0] == "raise":
        if out[0] == nat[0] and out[1] == nat[1]:
            return True, [], True
        return False, [f"engine {'raises ' + out[1] if out[0] == 'raise' else 'returns'}; CPython {'raises ' + nat[1] if nat[0] == 'raise' else 'returns'}"], True
    eqs = []
    why = compare(eval_tree(out[1], b), nat[1], "result", stats, eqs)
    for i, (e, n) in enumerate(zip(out[2], nat[2])):
        why += compare(eval_tree(e, b), n, f"arg{i}-after", stats, eqs)
    if why:
        return False, why, not eqs
    if not eqs and not extra:
        return True, [], True
    fs = list(extra)
    for t, n, path in eqs:
        if n[0] == "bool":
            fs.append(t == z3.BoolVal(n[1]) if z3.is_bool(t) else t == (1 if n[1] else 0))
        elif z3.is_bool(t):
            fs.append(z3.If(t, 1, 0) == z3.RealVal(str(n[1])))
        elif n[2] and z3.is_real(t):  # CPython float: allow rounding of the native computation
            q = z3.RealVal(str(n[1]))
            tol = z3.RealVal(str(TOL * max(1, abs(n[1]))))
            fs.append(z3.And(t - q <= tol, q - t <= tol))
        else:
            fs.append(t == z3.RealVal(str(n[1])) if z3.is_real(t) else z3.ToReal(t) == z3.RealVal(str(n[1])))
    r = _solver_sat(fs)
    if r == z3.unsat:
        return False, [f"path condition /\\ result == CPython result is unsatisfiable ({[pth for _, _, pth in eqs][:3]})"], False
    return True, [], False


# ------------------------------------------------------------------------------------------------
# whole suite
# ------------------------------------------------------------------------------------------------

_CACHE = {}


def run_all(tier="quick", seed=0, only=None, verbose=False):
    from . import selftest_programs as SP

    n_inputs = 16 if tier == "quick" else 48
    t0 = time.time()
    recs = []
    for prog in SP.PROGRAMS:
        if only and not any(o in prog.name for o in only):
            continue
        r = run_program(prog, prog.n_inputs or n_inputs, seed)
        recs.append(r)
        if verbose:
            flag = "DISAGREE" if r["disagreements"] else "unsupported" if r["unsupported"] else "ok"
            print(f"  {r['name']:<34} paths={r['paths']:<3} cmp={r['comparisons']:<3} exact={r['exact']:<3} cons={r['consistency']:<3} "
                  f"{r['seconds']:6.2f}s {flag}" + (f" kind-notes={len(r['kind_notes'])}" if r["kind_notes"] else ""), flush=True)
    dis = [d for r in recs for d in r["disagreements"]]
    summary = dict(
        programs=len(recs),
        comparisons=sum(r["comparisons"] for r in recs),
        exact=sum(r["exact"] for r in recs),
        consistency=sum(r["consistency"] for r in recs),
        paths=sum(r["paths"] for r in recs),
        loop_obligations=sum(r["obligations"] for r in recs),
        disagreements=len(dis) + sum(r.get("more_disagreements", 0) for r in recs),
        unsupported=[dict(program=r["name"], why=r["unsupported"]) for r in recs if r["unsupported"]],
        known_deviations=[dict(program=r["name"], comparisons=r["known_deviations"], why=r.get("known_deviation_text")) for r in recs if r.get("known_deviations")],
        seconds=round(time.time() - t0, 2),
        details=dis[:40],
        records=recs,
    )
    return summary


def run_cached(tier="thorough", seed=0):
    """Once per process (used by pyvc.runner in the thorough tier)."""
    key = (tier, seed)
    if key not in _CACHE:
        try:
            s = run_all(tier, seed)
            _CACHE[key] = dict(programs=s["programs"], comparisons=s["comparisons"], disagreements=s["disagreements"],
                               seconds=s["seconds"], exact=s["exact"], consistency=s["consistency"],
                               unsupported=[u["program"] for u in s["unsupported"]],
                               known_deviations=[f"{u['program']}: {u['why']}" for u in s["known_deviations"]],
                               details=[{k: (v if isinstance(v, (int, str, type(None))) else str(v))[:400] if isinstance(v, str) else v
                                         for k, v in d.items() if k != "trace"} for d in s["details"][:10]])
        except Exception as e:  # the self-test itself broke: that is a checker fault, too
            _CACHE[key] = dict(programs=0, comparisons=0, disagreements=1, seconds=0.0,
                               details=[dict(program="<selftest>", kind="selftest-crash", engine=f"{type(e).__name__}: {e}", trace=traceback.format_exc()[-1200:])])
    return _CACHE[key]


def main(argv=None):
    import argparse
    import json

    ap = argparse.ArgumentParser(description="pyvc engine self-check against CPython")
    ap.add_argument("--tier", default="quick", choices=["quick", "thorough"])
    ap.add_argument("--seed", type=int, default=0)
    ap.add_argument("--only", nargs="*")
    ap.add_argument("-v", "--verbose", action="store_true")
    ap.add_argument("--json")
    a = ap.parse_args(argv)
    s = run_all(a.tier, a.seed, a.only, a.verbose)
    for d in s["details"]:
        print(f"DISAGREEMENT program={d['program']} kind={d['kind']}\n    input   = {d.get('input')}\n    CPython = {d.get('cpython')}\n    engine  = {d.get('engine')}"
              + (f"\n    detail  = {d.get('detail')}" if d.get("detail") else "") + (f"\n{d['trace']}" if d.get("trace") else ""))
    for u in s["unsupported"]:
        print(f"UNSUPPORTED program={u['program']} {u['why'][0][:160]}")
    for u in s["known_deviations"]:
        print(f"KNOWN-DEVIATION program={u['program']} comparisons={u['comparisons']} {u['why']}")
    if a.verbose:
        for r in s["records"]:
            for k in r["kind_notes"]:
                print(f"KIND-NOTE program={r['name']} {k}")
            if r.get("now_supported"):
                print(f"NOTE program={r['name']} is marked unsupported but ran inside the subset")
    if a.json:
        json.dump({k: v for k, v in s.items()}, open(a.json, "w"), indent=1, default=str)
    print(f"[selftest] tier={a.tier} programs={s['programs']} paths={s['paths']} comparisons={s['comparisons']} (exact={s['exact']} consistency={s['consistency']}) "
          f"loop_obligations={s['loop_obligations']} unsupported={len(s['unsupported'])} known_deviations={len(s['known_deviations'])} disagreements={s['disagreements']} wall={s['seconds']}s")
    return 3 if s["disagreements"] else 0


if __name__ == "__main__":
    sys.exit(main())
