"""Discharge of proof obligations: z3 (API) first, then /usr/bin/cvc5 on the SMT-LIB2 text."""
from __future__ import annotations

import hashlib
import os
import subprocess
import tempfile
import time

import z3

CVC5 = "/usr/bin/cvc5"


def to_smt2(hyps, goal):
    s = z3.Solver()
    for h in hyps:
        s.add(h)
    s.add(z3.Not(goal))
    return s.to_smt2()


def model_dict(m, limit=60):
    out = {}
    for d in m.decls()[:limit]:
        try:
            v = m[d]
            out[d.name()] = str(v) if not isinstance(v, z3.FuncInterp) else str(v)[:200]
        except Exception:
            pass
    return out


# Opt-in first attempt for quantifier-free obligations over uninterpreted real functions (set by a property module,
# e.g. contracts/C12.py sets PURIFY = "decide"):  every application f(args) of an uninterpreted function is replaced by a
# fresh constant (same function + same simplified arguments -> same constant), then
# simplify(som) ; propagate-values ; solve-eqs ; simplify(som) ; qfnra-nlsat.
# Purification only forgets facts (functional consistency), so `unsat` is sound for the original obligation.
#   None     : off (default)
#   "try"    : unsat -> proved; anything else -> normal path
#   "decide" : unsat -> proved; sat -> short normal attempt, and if that does not prove it: refuted with the purified model
PURIFY = None


def _has_quantifier(fs):
    seen, stack = set(), list(fs)
    while stack:
        e = stack.pop()
        if e.get_id() in seen:
            continue
        seen.add(e.get_id())
        if z3.is_quantifier(e):
            return True
        stack.extend(e.children())
    return False


def _subst_many(fs, pairs):
    """z3.substitute(f, *pairs) for every f, with the (from, to) arrays built once (the Python wrapper re-checks the
    sorts of all pairs on every call, which dominates for ~300 pairs x ~200 formulas)."""
    if not pairs or not fs:
        return list(fs)
    n = len(pairs)
    ctx = fs[0].ctx
    _from = (z3.Ast * n)()
    _to = (z3.Ast * n)()
    for i, (a, b) in enumerate(pairs):
        _from[i] = a.as_ast()
        _to[i] = b.as_ast()
    return [z3.z3._to_expr_ref(z3.Z3_substitute(ctx.ref(), f.as_ast(), n, _from, _to), ctx) for f in fs]


def purify(fs):
    """Replace applications of uninterpreted functions (arity > 0) by fresh constants (innermost first, so nested
    applications such as cos(atan2(y, x)) are handled). Returns (formulas, names) where names maps the fresh constant's
    name to the application it stands for (a z3 term)."""
    table, names, has_uf = {}, {}, {}
    order = []  # uninterpreted applications in post-order (inner before outer)
    stack = [(f, False) for f in fs]
    while stack:
        e, done = stack.pop()
        k = e.get_id()
        if done:
            uf = z3.is_app(e) and e.decl().kind() == z3.Z3_OP_UNINTERPRETED and e.num_args() > 0
            inner = any(has_uf.get(c.get_id(), False) for c in e.children())
            has_uf[k] = uf or inner
            if uf:
                order.append((e, inner))
            continue
        if k in has_uf:
            continue
        has_uf[k] = False
        if z3.is_quantifier(e):
            stack.append((e.body(), False))
            continue
        if not z3.is_app(e) or e.num_args() == 0:
            continue
        stack.append((e, True))
        for c in e.children():
            if c.get_id() not in has_uf:
                stack.append((c, False))
    if not order:
        return list(fs), names
    pairs = []
    keep = []
    for e, inner in order:
        e2 = _subst_many([e], pairs)[0] if (inner and pairs) else e  # arguments with the inner applications replaced
        d = e2.decl()
        simp = [z3.simplify(c) for c in e2.children()]
        keep.extend(simp)  # keep the simplified arguments alive: z3 recycles the ids of collected terms (key collisions = unsound merging)
        key = (d.name(), tuple(x.get_id() for x in simp))
        c = table.get(key)
        if c is None:
            c = z3.Const(f"uf!{len(table)}!{d.name()}", e.sort())
            table[key] = c
            names[str(c)] = e
        pairs.append((e2, c))
        if e2.get_id() != e.get_id():
            pairs.append((e, c))
    return _subst_many(list(fs), pairs), names


def discharge_purified(ob, timeout_s=10):
    """See PURIFY. Returns a result dict, or None when inconclusive / not applicable."""
    fs = list(ob.hyps) + [z3.Not(ob.goal)]
    if _has_quantifier(fs):
        return None
    t0 = time.time()
    r, s = z3.unknown, None
    try:
        pf, names = purify(fs)
        g = z3.Goal()
        for f in pf:
            g.add(f)
        # (a) sum-of-monomials normalisation: closes polynomial identities by rewriting alone;
        # (b) structure-preserving: better when large sub-terms (sqrt, quotients) are substituted into polynomials
        budget = int(timeout_s * 1000)
        for som, ms in ((True, min(budget, 4000)), (False, budget)):
            tac = z3.TryFor(z3.Then(z3.With("simplify", som=som), "propagate-values", "solve-eqs",
                                    z3.With("simplify", som=som), "qfnra-nlsat"), ms)
            s = tac.solver()
            s.add(g.as_expr())
            try:
                r = s.check()
            except z3.Z3Exception:
                r = z3.unknown
            if r != z3.unknown:
                break
    except z3.Z3Exception:
        return None
    dt = time.time() - t0
    if r == z3.unsat:
        return dict(status="proved", backend="z3-purified-nlsat", time_s=dt)
    if r == z3.sat:
        m = s.model()
        md = model_dict(m, limit=400)
        md = {(str(names[k])[:200] if k in names else k): v for k, v in md.items()}
        return dict(status="refuted", backend="z3-purified-nlsat", time_s=dt, model=md, z3model=m, purified_names=names)
    return None


def _mentions_strings(ob, limit=600):
    """Does a bounded sample of the goal / most recent hypotheses contain a term of sort String?"""
    try:
        stack, seen, n = [ob.goal] + list(ob.hyps)[-30:], set(), 0
        while stack and n < limit:
            e = stack.pop()
            i = e.get_id()
            if i in seen:
                continue
            seen.add(i)
            n += 1
            if z3.is_string(e):
                return True
            stack.extend([e.body()] if z3.is_quantifier(e) else e.children())
    except Exception:
        pass
    return False


def _mentions_strings(ob, limit=600):
    """(C19) Does a bounded sample of the goal / most recent hypotheses contain a term of sort String?
    NB: `discharge` calls this - keep it when editing this file."""
    try:
        stack, seen, n = [ob.goal] + list(ob.hyps)[-30:], set(), 0
        while stack and n < limit:
            e = stack.pop()
            i = e.get_id()
            if i in seen:
                continue
            seen.add(i)
            n += 1
            if z3.is_string(e):
                return True
            stack.extend([e.body()] if z3.is_quantifier(e) else e.children())
    except Exception:
        pass
    return False


def discharge(ob, timeout_s=10, use_cvc5=True, tactics=True):
    """Returns dict(status='proved'|'refuted'|'unknown', backend, time_s, model?)."""
    t0 = time.time()
    if z3.is_true(ob.goal) or z3.is_true(z3.simplify(ob.goal)):
        # the goal is literally `true` (meta-level clause decided by path enumeration): valid under any hypotheses
        return dict(status="proved", backend="simplify", time_s=time.time() - t0)
    if PURIFY:
        rp = discharge_purified(ob, min(timeout_s, 20))
        if rp is not None and rp["status"] == "proved":
            return rp
        if rp is not None and PURIFY == "decide":
            s = z3.Solver()
            s.set("timeout", 1500)
            for h in ob.hyps:
                s.add(h)
            s.add(z3.Not(ob.goal))
            r = s.check()
            if r == z3.unsat:
                return dict(status="proved", backend="z3", time_s=time.time() - t0)
            rp["time_s"] = time.time() - t0
            return rp
        if rp is None and PURIFY == "decide" and not _has_quantifier(list(ob.hyps) + [ob.goal]):
            # "decide": the purified pipeline is THE back end for quantifier-free obligations of this property; when it is
            # inconclusive only one short default attempt follows (keeps runs on a broken tree from taking minutes per obligation)
            s = z3.Solver()
            s.set("timeout", int(min(timeout_s, 5) * 1000))
            for h in ob.hyps:
                s.add(h)
            s.add(z3.Not(ob.goal))
            r = s.check()
            if r == z3.unsat:
                return dict(status="proved", backend="z3", time_s=time.time() - t0)
            if r == z3.sat:
                m = s.model()
                return dict(status="refuted", backend="z3", time_s=time.time() - t0, model=model_dict(m), z3model=m)
            return dict(status="unknown", backend="z3-purified-nlsat+z3", time_s=time.time() - t0, reason=str(s.reason_unknown()))
    quantified = _has_quantifier(list(ob.hyps) + [ob.goal])
    # quantified obligations: short z3 attempt, then cvc5 (often instant where z3's instantiation wanders), then z3 in full
    # (same schedule for obligations over strings, C19: z3's sequence solver often times out where cvc5 answers at once)
    budgets = [min(3.0, timeout_s), timeout_s] if ((quantified or _mentions_strings(ob)) and use_cvc5 and timeout_s > 3) else [timeout_s]
    reason = None
    for bi, budget in enumerate(budgets):
        s = z3.Solver()
        s.set("timeout", int(budget * 1000))
        for h in ob.hyps:
            s.add(h)
        s.add(z3.Not(ob.goal))
        r = s.check()
        dt = time.time() - t0
        if r == z3.unsat:
            return dict(status="proved", backend="z3", time_s=dt)
        if r == z3.sat:
            m = s.model()
            return dict(status="refuted", backend="z3", time_s=dt, model=model_dict(m), z3model=m)
        reason = s.reason_unknown()
        if bi == 0 and len(budgets) > 1:
            rc = _cvc5(ob, timeout_s, t0)
            if rc is not None:
                return rc
            use_cvc5 = False
    # second attempt: nonlinear tactic pipeline (quantifier-free only)
    if tactics and not quantified:
        try:
            t1 = time.time()
            g = z3.Goal()
            for h in ob.hyps:
                g.add(h)
            g.add(z3.Not(ob.goal))
            tac = z3.TryFor(z3.Then("simplify", "propagate-values", "solve-eqs", "qfnra-nlsat"), int(timeout_s * 1000))
            s2 = tac.solver()
            s2.add(g.as_expr())
            r2 = s2.check()
            if r2 == z3.unsat:
                return dict(status="proved", backend="z3-nlsat", time_s=time.time() - t0)
            if r2 == z3.sat:
                m = s2.model()
                return dict(status="refuted", backend="z3-nlsat", time_s=time.time() - t0, model=model_dict(m), z3model=m)
        except z3.Z3Exception:
            pass
    if use_cvc5:
        rc = _cvc5(ob, timeout_s, t0)
        if rc is not None:
            return rc
    return dict(status="unknown", backend="z3+cvc5", time_s=time.time() - t0, reason=str(reason))


def _cvc5(ob, timeout_s, t0):
    if not os.path.exists(CVC5):
        return None
    txt = to_smt2(ob.hyps, ob.goal)
    with tempfile.NamedTemporaryFile("w", suffix=".smt2", delete=False) as f:
        f.write(txt)
        path = f.name
    try:
        p = subprocess.run([CVC5, "--strings-exp", f"--tlimit={int(timeout_s * 1000)}", path],
                           capture_output=True, text=True, timeout=timeout_s + 5)
        out = (p.stdout or "").strip().splitlines()
        ans = out[0] if out else ""
        if ans == "unsat":
            return dict(status="proved", backend="cvc5", time_s=time.time() - t0)
        if ans == "sat":
            return dict(status="refuted", backend="cvc5", time_s=time.time() - t0, model={"note": "cvc5 sat (no model extracted)"})
    except subprocess.TimeoutExpired:
        pass
    finally:
        os.unlink(path)
    return None


def smt_hash(ob):
    return hashlib.sha256(to_smt2(ob.hyps, ob.goal).encode()).hexdigest()[:16]
