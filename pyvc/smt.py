"""Discharge of proof obligations: z3 (API) first, then /usr/bin/cvc5 on the SMT-LIB2 text."""
from __future__ import annotations

import hashlib
import os
import subprocess
import tempfile
import time

import z3

CVC5 = "/usr/bin/cvc5"


def to_smt2(hyps, goal):
    s = z3.Solver()
    for h in hyps:
        s.add(h)
    s.add(z3.Not(goal))
    return s.to_smt2()


def model_dict(m, limit=60):
    out = {}
    for d in m.decls()[:limit]:
        try:
            v = m[d]
            out[d.name()] = str(v) if not isinstance(v, z3.FuncInterp) else str(v)[:200]
        except Exception:
            pass
    return out


def discharge(ob, timeout_s=10, use_cvc5=True, tactics=True):
    """Returns dict(status='proved'|'refuted'|'unknown', backend, time_s, model?)."""
    t0 = time.time()
    s = z3.Solver()
    s.set("timeout", int(timeout_s * 1000))
    for h in ob.hyps:
        s.add(h)
    s.add(z3.Not(ob.goal))
    r = s.check()
    dt = time.time() - t0
    if r == z3.unsat:
        return dict(status="proved", backend="z3", time_s=dt)
    if r == z3.sat:
        m = s.model()
        return dict(status="refuted", backend="z3", time_s=dt, model=model_dict(m), z3model=m)
    reason = s.reason_unknown()
    # second attempt: nonlinear tactic pipeline
    if tactics:
        try:
            t1 = time.time()
            g = z3.Goal()
            for h in ob.hyps:
                g.add(h)
            g.add(z3.Not(ob.goal))
            tac = z3.TryFor(z3.Then("simplify", "propagate-values", "solve-eqs", "qfnra-nlsat"), int(timeout_s * 1000))
            s2 = tac.solver()
            s2.add(g.as_expr())
            r2 = s2.check()
            if r2 == z3.unsat:
                return dict(status="proved", backend="z3-nlsat", time_s=time.time() - t0)
            if r2 == z3.sat:
                m = s2.model()
                return dict(status="refuted", backend="z3-nlsat", time_s=time.time() - t0, model=model_dict(m), z3model=m)
        except z3.Z3Exception:
            pass
    if use_cvc5 and os.path.exists(CVC5):
        txt = to_smt2(ob.hyps, ob.goal)
        logic = ""
        with tempfile.NamedTemporaryFile("w", suffix=".smt2", delete=False) as f:
            f.write(txt)
            path = f.name
        try:
            t1 = time.time()
            p = subprocess.run([CVC5, "--strings-exp", f"--tlimit={int(timeout_s * 1000)}", path],
                               capture_output=True, text=True, timeout=timeout_s + 5)
            out = (p.stdout or "").strip().splitlines()
            ans = out[0] if out else ""
            if ans == "unsat":
                return dict(status="proved", backend="cvc5", time_s=time.time() - t0)
            if ans == "sat":
                return dict(status="refuted", backend="cvc5", time_s=time.time() - t0, model={"note": "cvc5 sat (no model extracted)"})
        except subprocess.TimeoutExpired:
            pass
        finally:
            os.unlink(path)
    return dict(status="unknown", backend="z3+cvc5", time_s=time.time() - t0, reason=str(reason))


def smt_hash(ob):
    return hashlib.sha256(to_smt2(ob.hyps, ob.goal).encode()).hexdigest()[:16]
