"""Test programs for the pyvc engine self-check (pyvc/selftest.py).

Every program is a small REAL Python function exercising one or two features of the Python / numpy / torch semantics
that pyvc encodes.  They are test programs for the ENGINE (differentially tested against CPython), not models of quantem.
A program is registered with the specs of its arguments:

  I(lo, hi)            int scalar                 R(lo, hi, den)   real scalar k/den (exact dyadic float in CPython)
  B()                  bool scalar                K(value)         concrete constant (deep-copied per run)
  LI/LR/LB(n)          Python list of n symbolic ints / reals / bools          TI(n) tuple of n ints
  SLI/SLR(n)           SymArr-backed Python list of concrete length n          SLIn/SLRn(maxlen): symbolic length 0..maxlen
  NPI/NPR/NPB(*shape)  numpy array with symbolic contents                      NPIn/NPRn(maxlen): 1-d, symbolic length
  TTI/TTR/TTB(*shape)  torch tensor with symbolic contents                     TTIn/TTRn(maxlen)

`unsupported=True` marks a feature that is known to lie outside the engine's subset (the engine must then say
OutOfSubset — reported as 'unsupported', not as a disagreement; a wrong answer still is a disagreement).
"""
from __future__ import annotations

import copy
import math

import numpy as np
import torch

PROGRAMS = []


class Spec:
    def __init__(self, kind, elem=None, shape=None, lo=-6, hi=6, den=4, maxlen=None, value=None):
        self.kind, self.elem, self.shape, self.lo, self.hi, self.den, self.maxlen, self.value = kind, elem, shape, lo, hi, den, maxlen, value

    def fresh_value(self):
        return copy.deepcopy(self.value)


def I(lo=-6, hi=6):
    return Spec("scalar", "int", lo=lo, hi=hi)


def R(lo=-4, hi=4, den=4):
    return Spec("scalar", "real", lo=lo, hi=hi, den=den)


def B():
    return Spec("scalar", "bool")


def K(value):
    return Spec("const", value=value)


def _seq(kind, elem):
    def mk(*shape, lo=-6, hi=6, den=4):
        return Spec(kind, elem, shape=tuple(shape), lo=lo, hi=hi, den=den)

    return mk


def _seqn(kind, elem):
    def mk(maxlen, lo=-6, hi=6, den=4):
        return Spec(kind, elem, shape=None, lo=lo, hi=hi, den=den, maxlen=maxlen)

    return mk


LI, LR, LB, TI = _seq("pylist", "int"), _seq("pylist", "real"), _seq("pylist", "bool"), _seq("pytuple", "int")
SLI, SLR, SLIn, SLRn = _seq("symlist", "int"), _seq("symlist", "real"), _seqn("symlist", "int"), _seqn("symlist", "real")
NPI, NPR, NPB, NPIn, NPRn = _seq("np", "int"), _seq("np", "real"), _seq("np", "bool"), _seqn("np", "int"), _seqn("np", "real")
TTI, TTR, TTB, TTIn, TTRn = _seq("torch", "int"), _seq("torch", "real"), _seq("torch", "bool"), _seqn("torch", "int"), _seqn("torch", "real")


class Prog:
    def __init__(self, fn, specs, pre=None, loops=None, bad_loops=None, unsupported=False, n_inputs=None, max_paths=600, len_factor=2,
                 known_deviation=None):
        self.fn, self.specs, self.pre, self.loops, self.bad_loops = fn, list(specs), pre, loops, bad_loops
        self.known_deviation = known_deviation  # (CPython exception class name, why the engine deliberately does not raise it)
        self.unsupported, self.n_inputs, self.max_paths, self.len_factor = unsupported, n_inputs, max_paths, len_factor
        self.name = fn.__name__


def prog(*specs, **kw):
    def deco(fn):
        PROGRAMS.append(Prog(fn, specs, **kw))
        return fn

    return deco


# =================================================================================================
# 1. integer / real / bool arithmetic
# =================================================================================================


@prog(I(-7, 7), I(-4, 4))
def int_floordiv(a, b):
    return a // b


@prog(I(-7, 7), I(-4, 4))
def int_mod(a, b):
    return a % b


@prog(I(-9, 9), I(-4, 4))
def int_divmod_identity(a, b):
    q = a // b
    r = a % b
    return q, r, q * b + r


@prog(I(-7, 7), I(-4, 4))
def int_truediv(a, b):
    return a / b


_FLOAT_DIV0 = ("ZeroDivisionError", "float division by zero is not raised for real-sorted scalars by default (they also stand for numpy/torch "
               "scalars, which do not raise); opt-in check: PYVC_REAL_DIV_ZERO=1 / values.REAL_DIV_ZERO_RAISES")


@prog(R(-4, 4), R(-2, 2, 2), known_deviation=_FLOAT_DIV0)
def real_truediv(x, y):
    return x / y


@prog(R(-4, 4), R(-2, 2, 2), known_deviation=_FLOAT_DIV0)
def real_floordiv(x, y):
    return x // y


@prog(R(-4, 4), R(-2, 2, 2), known_deviation=_FLOAT_DIV0)
def real_mod(x, y):
    return x % y


@prog(R(-4, 4), I(-3, 3), pre=lambda x, b: b != 0)
def mixed_floordiv_mod(x, b):
    return x // b, x % b, b // 2, b % 2


@prog(I(-4, 4), R(-2, 2))
def int_pow(a, x):
    return a ** 2, a ** 3, a ** 0, x ** 2, (-a) ** 2, -a ** 2


@prog(I(1, 4), R(1, 3, 2))
def neg_pow(a, x):
    return a ** -1, x ** -2, 2 ** -a if a < 3 else 0


@prog(I(-2, 2), R(-1, 1, 2), known_deviation=_FLOAT_DIV0)
def neg_pow_zero_base(a, x):
    if a > 1:
        return x ** -1
    return a ** -2


@prog(I(), R())
def neg_abs_pos(a, x):
    return -a, abs(a), +a, abs(x), -x, abs(-a - 1)


@prog(R(-4, 4, 8))
def int_of_real(x):
    return int(x), int(-x), int(x * 2)


@prog(R(-4, 4, 4))
def round_real(x):
    return round(x)


@prog(R(-4, 4, 8), I())
def ceil_floor(x, a):
    return math.ceil(x), math.floor(x), math.ceil(-x), math.floor(a), math.ceil(x / 2)


@prog(I(), B())
def float_bool_conv(a, p):
    return float(a) / 2, int(p), bool(a), float(p), int(a), bool(a - 1) + 1


@prog(B(), B(), I())
def bool_arith(p, q, a):
    return p + q, p * 3, a + p, p - q, -p, abs(p)


@prog(B(), B())
def bool_logic(p, q):
    return p and q, p or q, not p, p == q, p != q, p & q, p | q


@prog(I(), I(), I(), R())
def min_max(a, b, c, x):
    return min(a, b, c), max(a, b), min(a, x), max([a, b, c]), min((b, c))


@prog(I(), R())
def mixed_compare(a, x):
    return a < x, a == x, a >= x, a != x, x <= a


@prog(I(), I(), I())
def chained_compare(a, b, c):
    if a < b <= c:
        return 1
    if a == b == c:
        return 2
    if a > b > c:
        return 3
    return 0


@prog(I(-3, 8), I(0, 6))
def chained_compare_value(i, n):
    return 0 <= i < n, (0 <= i) == (i < n), not 0 <= i < n


@prog(I(), I(-3, 3))
def short_circuit_and(a, b):
    if b != 0 and a // b > 1:
        return 1
    return 0


@prog(I(), I(-3, 3))
def short_circuit_or(a, b):
    if b == 0 or a % b == 0:
        return 1
    return 0


@prog(I(-3, 3), I(-3, 3))
def boolop_value(a, b):
    return a or 5, a and b, (a or b) + 1, (a and 7) * 2


@prog(I(-2, 2), R(-1, 1, 2))
def not_on_numbers(a, x):
    return not a, not x, not (a - 1), not not a


@prog(I(), I())
def ifexp(a, b):
    m = a if a > b else b
    s = 1 if a > 0 else (0 if a == 0 else -1)
    return m, s


@prog(I(), I())
def if_elif_else(a, b):
    if a > 3:
        r = a
    elif a > 0 and b > 0:
        r = a + b
    elif a == 0:
        return b
    else:
        r = -1
    return r * 2


@prog(I(), I(), I())
def aug_assign_scalar(a, b, c):
    a += b
    a *= 2
    a -= c
    b //= 2
    c %= 3
    x = a
    x /= 4
    return a, b, c, x


@prog(I(), I(), I())
def tuple_unpack(a, b, c):
    a, b = b, a
    (x, y), z = (a + 1, b + 1), c
    first, *rest = [a, b, c]
    *init, last = (a, b, c)
    return a, b, x, y, z, first, rest, init, last


@prog(I(), I())
def unpack_mismatch(a, b):
    t = (a, b, a)
    x, y = t
    return x


@prog(I(), I())
def walrus(a, b):
    if (y := a + b) > 3:
        return y
    return -y


# =================================================================================================
# 2. control flow: loops (unrolled), ranges, recursion, closures, generators, comprehensions, try/except
# =================================================================================================


@prog(I(0, 6), I(0, 6))
def while_gcd(a, b):
    while b:
        a, b = b, a % b
    return a


@prog(I(-2, 7))
def while_break_continue_else(n):
    i = 0
    s = 0
    while i < n:
        i += 1
        if i == 2:
            continue
        if i == 5:
            break
        s += i
    else:
        s += 100
    return s, i


@prog(I(), I())
def for_concrete_range(a, b):
    s = 0
    for i in range(4):
        s += a * i
        if s > b:
            break
    else:
        s = -s
    return s


@prog(LI(4))
def for_else_find(xs):
    for i, x in enumerate(xs):
        if x < 0:
            break
    else:
        i = -1
    return i


@prog(I(-8, 8), I(-8, 8))
def range_len_pos_step(a, b):
    return len(range(a, b)), len(range(a, b, 2)), len(range(a, b, 3)), len(range(b))


@prog(I(-8, 8), I(-8, 8))
def range_len_neg_step(a, b):
    return len(range(a, b, -1)), len(range(a, b, -3)), len(range(a, b, -2))


@prog(I(-8, 8), I(-8, 8), I(1, 3))
def range_len_sym_step(a, b, s):
    return len(range(a, b, s))


@prog(I(-3, 3))
def range_zero_step(a):
    return len(range(0, a, a - a))


@prog(I(0, 4))
def recursion_fact(n):
    if n <= 1:
        return 1
    return n * recursion_fact(n - 1)


def _helper_default(a, b=None, *, scale=2):
    if b is None:
        b = 10
    return (a + b) * scale


@prog(I(), I())
def call_defaults_kwargs(a, b):
    return _helper_default(a), _helper_default(a, b), _helper_default(a, scale=b), _helper_default(b=a, a=b, scale=1)


def _var_helper(*args, **kw):
    return len(args), args[0] if args else 0, kw.get("z", -1)


@prog(I(), I())
def call_varargs(a, b):
    t = (a, b)
    d = {"z": b}
    return _var_helper(), _var_helper(a), _var_helper(*t, z=a), _var_helper(b, **d)


@prog(I(), I())
def closure_capture(a, b):
    def add(x):
        return x + a

    k = 3
    mul = lambda x, k=k: x * k + b  # noqa: E731
    k = 100
    a = a + 1  # the closure sees the rebinding (late binding)
    return add(1), mul(2), add(b)


@prog(I())
def closure_nonlocal(a):
    count = 0

    def bump(d):
        nonlocal count
        count += d
        return count

    bump(a)
    bump(2)
    return count, bump(0)


@prog(I(), I())
def generator_list(a, b):
    def gen():
        yield a
        yield a + 1
        if a > b:
            yield a * 2
        for i in range(2):
            yield b + i

    xs = list(gen())
    return xs, len(xs), sum(gen())


@prog(LI(3))
def generator_expr(xs):
    return sum(x * x for x in xs), any(x > 2 for x in xs), all(x > -2 for x in xs), max(abs(x) for x in xs)


@prog(LI(3), I())
def list_comprehension(xs, t):
    pos = [x * 2 for x in xs if x > t]
    pairs = [(i, x) for i, x in enumerate(xs) if i != 1]
    nested = [x + y for x in xs[:2] for y in (1, t)]
    return pos, pairs, nested, len(pos)


@prog(LI(3))
def dict_set_comprehension(xs):
    d = {i: x + 1 for i, x in enumerate(xs)}
    e = {k: v for k, v in d.items() if k > 0}
    return d, e, d[2] - d[0]


@prog(LI(3), LI(3))
def zip_enumerate(xs, ys):
    s = 0
    for i, (x, y) in enumerate(zip(xs, ys), 1):
        s += i * x - y
    return s, [x < y for x, y in zip(xs, ys)]


@prog(I(), I(-2, 2))
def try_except_zero(a, b):
    try:
        r = a // b
    except ZeroDivisionError:
        r = -99
    else:
        r += 1
    finally:
        a = a + 1
    return r, a


@prog(LI(3), I(-5, 5))
def try_except_index(xs, i):
    try:
        return xs[i]
    except (IndexError, KeyError) as e:
        return 1000
    finally:
        xs[0] = 0


@prog(I(), I())
def raise_and_catch(a, b):
    def check(x):
        if x < 0:
            raise ValueError("neg")
        if x == 0:
            raise KeyError("zero")
        return x

    try:
        return check(a) + check(b)
    except ValueError:
        return -1


@prog(I(-2, 2))
def reraise(a):
    try:
        if a == 0:
            raise ValueError("z")
        return 10 // (a - 1)
    except ValueError:
        raise
    except ZeroDivisionError:
        raise RuntimeError("wrapped")


@prog(I(-2, 2), I(-2, 2))
def exception_in_handler(a, b):
    try:
        return 4 // a
    except ZeroDivisionError:
        return 6 // b


@prog(I(), I())
def assert_stmt(a, b):
    assert a < b, "order"
    return b - a


@prog(I(-2, 2))
def raise_custom_hierarchy(a):
    try:
        if a > 0:
            raise IndexError("i")
        if a < 0:
            raise KeyError("k")
        return 0
    except LookupError:
        return 1


@prog(I(-3, 3))
def finally_overrides_flow(a):
    out = []
    for i in range(3):
        try:
            if i == a:
                continue
            out.append(i)
        finally:
            out.append(-1)
    return out


# =================================================================================================
# 3. containers: lists / tuples / dicts with symbolic elements, symbolic indices and lengths
# =================================================================================================


@prog(LI(4), I(-6, 6))
def list_index_symbolic(xs, i):
    return xs[i]


@prog(TI(3), I(-4, 4))
def tuple_index_symbolic(t, i):
    return t[i] + t[-1]


@prog(LI(3), I(-4, 4), I())
def list_setitem_symbolic(xs, i, v):
    ys = xs
    ys[i] = v
    xs[0] += 1
    return xs, ys[-1]


@prog(I(), I(), I())
def list_methods(a, b, c):
    xs = [a]
    xs.append(b)
    xs.extend([c, a + b])
    xs.insert(1, 7)
    last = xs.pop()
    first = xs.pop(0)
    xs += [first]
    ys = xs[:]
    ys[0] = 99
    return xs, last, ys, len(xs), xs[1:3], xs[::-1]


@prog(I(), I(), I())
def list_concat_repeat(a, b, c):
    xs = [a, b] * 2 + [c]
    ys = 2 * [c] + [a]
    return xs, ys, len(xs), ([a] + [b])[1]


@prog(I(-2, 4), I())
def list_repeat_symbolic(n, a):
    xs = [a] * n
    return len(xs), xs


@prog(I(-2, 3), I(), I(), I(-1, 7))
def list_repeat_symbolic_index(n, a, b, i):
    xs = [a, b] * n
    return xs[i]


@prog(LI(5), I(-7, 7), I(-7, 7))
def list_slice_symbolic(xs, i, j):
    return xs[i:j]


@prog(LI(5), I(-7, 7))
def list_slice_half_open(xs, i):
    return xs[i:], xs[:i], len(xs[i:]) + len(xs[:i])


@prog(I(), I(), I(-1, 3))
def dict_symbolic_values(a, b, k):
    d = {"a": a, "b": b}
    d["a"] += 1
    d["c"] = d["a"] * d["b"]
    e = d.copy()
    e["a"] = 0
    del e["b"]
    return d["a"] + d.get("zz", 5), d, e, "a" in d, len(d), list(d), list(e.values())


@prog(LI(3), unsupported=True)
def sorted_builtin(xs):
    return sorted(xs)


@prog(I(), I(1, 3), unsupported=True)
def divmod_pow_builtins(a, b):
    return divmod(a, b), pow(a, 2)


@prog(I(), I(), unsupported=True)
def dict_ctor_copy(a, b):
    d = {"a": a, "b": b}
    e = dict(d)
    e["a"] = 0
    return d, e


@prog(I(), I(), I(), I(-1, 3))
def dict_symbolic_key(a, b, c, k):
    d = {0: a, 1: b, 2: c}
    return d[k]


@prog(I(-3, 3), I(-3, 3), I(-3, 3))
def membership(x, a, b):
    return x in [a, b, 0], x not in (a, b), x in {1: a, 2: b}, (a, b) == (b, a), [a, b] != [a, x]


@prog(SLIn(4))
def symlist_len_truth(xs):
    if xs:
        return len(xs), xs[0], xs[-1]
    return 0, -1, -1


@prog(SLIn(4), I(-6, 6))
def symlist_index(xs, i):
    return xs[i]


@prog(SLIn(4))
def symlist_slices(xs):
    return xs[1:], xs[:-1], xs[::2], xs[1::2], xs[-2:], xs[:2]


@prog(SLIn(4), I(-6, 6), I(-6, 6))
def symlist_slice_symbolic(xs, i, j):
    ys = xs[i:j]
    return ys, len(ys)


@prog(SLIn(3), SLIn(3))
def symlist_concat_repeat(xs, ys):
    zs = xs + ys
    ws = xs * 2
    return zs, ws, len(zs), len(ws), (xs + [7])[-1]


@prog(SLIn(4))
def symlist_sum(xs):
    return sum(xs)


@prog(SLI(3), I(-4, 4), I())
def symlist_setitem(xs, i, v):
    ys = xs
    ys[i] = v
    return xs, xs[0] + ys[-1]


@prog(SLRn(3), R())
def symlist_real_elements(xs, x):
    ys = xs + [x]
    return ys[0] * 2, ys[-1], len(ys)


class _Acc:
    def __init__(self, start, step=1):
        self.total = start
        self.step = step
        self.history = [start]

    def add(self, x):
        self.total += x * self.step
        self.history.append(self.total)
        return self

    @property
    def double(self):
        return self.total * 2

    def __len__(self):
        return len(self.history)


@prog(I(), I(), I(1, 3))
def object_fields_methods(a, b, s):
    acc = _Acc(a, step=s)
    acc.add(b).add(1)
    acc.step = 0
    acc.add(100)
    return acc.total, acc.double, acc.history, len(acc), isinstance(acc, _Acc)


@prog(I(), R(), B())
def isinstance_type_dispatch(a, x, p):
    def kind(v):
        if isinstance(v, bool):
            return 0
        if isinstance(v, int):
            return 1
        if isinstance(v, float):
            return 2
        return 3

    return kind(a), kind(x), kind(p), kind(a / 2), kind(a // 2), kind(x // 1), kind(a * x), kind(a < x), type(a) is int, type(x) is float


# =================================================================================================
# 4. numpy arrays (index-function arrays): elementwise, broadcasting, indexing, slicing, views, reshape, reductions
# =================================================================================================


@prog(NPI(3), NPI(3), I())
def np_elementwise(a, b, k):
    return a + b, a - b * 2, a * k, -a, abs(a), k - a, (a + 1) * (b - 1)


@prog(NPR(3), NPR(3))
def np_elementwise_real(a, b):
    return a * b + 0.5, a / 2, (a - b) / 4, a ** 2


@prog(NPI(2, 3), NPI(3), NPI(2, 1), I())
def np_broadcast(a, r, c, k):
    return a + r, a * c, c + r, (a + k).shape, (c * r).shape, a - c + r


@prog(NPI(4), I(1, 3))
def np_floordiv_mod(a, d):
    return a // 2, a % 3, a // -2, a % -3, a // d, a % d


@prog(NPI(3), NPI(3, lo=1, hi=4))
def np_floordiv_array_divisor(a, b):
    return a // b, a % b, a / b


@prog(NPI(3), NPI(3))
def np_compare_masks(a, b):
    m = (a > 0) & (b < 2)
    return m, ~m, a == b, a != b, (a >= b) | (a < -2), a <= 0


@prog(NPI(4), I(-6, 6))
def np_index_symbolic(a, i):
    return a[i]


@prog(NPI(2, 3), I(-3, 3), I(-4, 4))
def np_index_2d(a, i, j):
    return a[i, j], a[i][j], a[-1, -1], a[i].shape


@prog(NPI(5))
def np_slices_concrete(a):
    return a[1:], a[:-1], a[::2], a[1:4:2], a[-2:], a[:10], a[3:1], a[-10:2]


@prog(NPI(5), I(-7, 7), I(-7, 7))
def np_slice_symbolic(a, i, j):
    s = a[i:j]
    return s, len(s), s.shape


@prog(NPI(3, 4))
def np_slices_2d(a):
    return a[:, 1], a[1, :], a[..., 0], a[0:2, 1:3], a[None, 1].shape, a[1:, ::2], a[:, None, 2].shape, a[-1]


@prog(NPI(4), NPI(3, lo=0, hi=3))
def np_fancy_index(a, idx):
    return a[idx], a[[2, 0, 1]], a[idx][::-1] if False else a[idx][1:]


@prog(NPI(4), NPI(3, lo=-4, hi=3))
def np_fancy_index_negative(a, idx):
    return a[idx]


@prog(NPI(4), I(-6, 6), I())
def np_setitem_alias(a, i, v):
    b = a
    b[i] = v
    a[0] += 1
    return a, b[-1]


@prog(NPI(2, 3), I(-3, 3), I(-4, 4), I())
def np_setitem_2d(a, i, j, v):
    a[i, j] = v
    a[0, 0] += a[1, 2]
    return a


@prog(NPI(4), NPB(4), unsupported=True)
def np_bool_mask_index(a, m):
    return a[m]


@prog(NPI(4), unsupported=True)
def np_bool_mask_computed(a):
    return a[a > 0]


@prog(NPI(4), I(), unsupported=True)
def np_slice_assign(a, v):
    a[1:3] = v
    return a


@prog(NPI(3), NPI(3))
def np_inplace_alias(a, b):
    c = a
    a += b  # in place: c sees it
    d = a
    a = a + 1  # rebinding: d does not see it
    a *= 2
    return a, c, d


@prog(NPI(4))
def np_copy_independent(a):
    c = a.copy()
    s = a + 0
    a[0] = 77
    a += 1
    return a, c, s


@prog(NPI(4))
def np_view_write_own(a):
    v = a[1:]
    v[0] = 7
    return v


@prog(NPI(4), unsupported=True)
def np_view_sees_base_write(a):
    v = a[1:]
    a[1] = 9
    return v


@prog(NPI(4), unsupported=True)
def np_write_through_view(a):
    v = a[1:]
    v[0] = 7
    return a


@prog(NPI(2, 3))
def np_reshape_flatten(a):
    return a.reshape(3, 2), a.flatten(), a.reshape(-1), a.reshape((6,)), a.T, a.ravel()[4], a.reshape(-1, 2), a.reshape(3, -1).T


@prog(NPI(2, 2, 2), I(-8, 7))
def np_reshape_3d(a, i):
    return a.reshape(4, 2), a.reshape(2, 4), a.reshape(8)[i], a.reshape(2, 4)[1, 2], a.flatten().reshape(2, 2, 2)[1]


@prog(NPIn(4))
def np_reshape_symbolic_len(a):
    return a.reshape(-1), a.flatten()[::2]


@prog(NPI(2, 3))
def np_sum_mean(a):
    return a.sum(), a.sum(axis=0), a.sum(axis=1), a.sum(axis=-1, keepdims=True), a.mean(), a.mean(axis=0), a.mean(axis=1), a.sum(axis=(0, 1))


@prog(NPR(2, 2))
def np_sum_mean_real(a):
    return a.sum(), a.mean(), a.mean(axis=1, keepdims=True), (a - a.mean()).sum()


@prog(NPIn(4))
def np_sum_symbolic_len(a):
    return a.sum()


@prog(NPI(4))
def np_argsort(a):
    o = a.argsort()
    return o, a[o]


@prog(NPI(4))
def np_max_min_any_all(a):
    return a.max(), a.min(), (a > 0).any(), (a > -7).all()


@prog(I(-2, 4), I(-5, 5))
def np_arange_symbolic(n, i):
    r = np.arange(n)
    return len(r), r[i], r


@prog(I(-2, 4))
def np_arange_slices(n):
    r = np.arange(n)
    return r[:2], r[::2], r[1:]


@prog(I(), I(), R())
def np_asarray_of_syms(a, b, x):
    v = np.asarray([a, b, x])
    w = np.array([a, b]) * 2
    return v, w, v.shape, w[1] - v[0]


@prog(NPR(3))
def np_astype_int(a):
    return a.astype(int)


@prog(NPI(2, 2))
def np_tolist_iter(a):
    rows = [r.sum() for r in a]
    flat = [x for r in a for x in r]
    return a.tolist(), list(a[0]), len(a), a.shape, a.ndim, a.size, rows, flat


@prog(NPR(3), R())
def np_where_mask_arith(a, t):
    m = a > t
    return m * a, (a * m).sum(), m.sum()


# =================================================================================================
# 5. torch tensors: where, roll, cat, stack, clamp, zeros/ones, arange, reshape/view, reductions
# =================================================================================================


@prog(TTR(3), TTR(3), R())
def t_where(a, b, t):
    return torch.where(a > t, a, b), torch.where(a > b, a, 0.0), torch.where(a <= 0, -a, a)


@prog(TTI(2, 3), TTI(3))
def t_where_broadcast(a, r):
    return torch.where(a > r, a, r), torch.where(r > 0, a, -a)


@prog(TTI(4))
def t_roll_1d(x):
    return torch.roll(x, 1, 0), torch.roll(x, -1, 0), torch.roll(x, 2, 0), torch.roll(x, -3, 0), torch.roll(x, 5, -1), torch.roll(x, 0, 0)


@prog(TTI(2, 3))
def t_roll_2d(x):
    return torch.roll(x, 1, 1), torch.roll(x, shifts=-1, dims=0), torch.roll(x, (1, 2), (0, 1)), torch.roll(x, 2, -1), torch.roll(x, 4, 1)


@prog(TTI(4), I(-6, 6))
def t_roll_symbolic_shift(x, k):
    return torch.roll(x, k, 0)


@prog(TTI(2), TTI(3), TTI(1))
def t_cat_1d(a, b, c):
    return torch.cat([a, b]), torch.cat((b, a, c), dim=0), torch.cat([c, c, a], -1)


@prog(TTI(2, 2), TTI(1, 2), TTI(2, 3))
def t_cat_2d(a, b, c):
    return torch.cat([a, b], dim=0), torch.cat([a, c], dim=1), torch.cat([b, a, b]), torch.cat([c, a], dim=-1)


@prog(TTI(3), TTI(3))
def t_stack_1d(a, b):
    return torch.stack([a, b]), torch.stack([a, b], dim=1), torch.stack((b, a, b), dim=-1), torch.stack([a, b], 0)[1, 2]


@prog(TTI(2, 2), TTI(2, 2))
def t_stack_2d(a, b):
    return torch.stack([a, b], dim=0), torch.stack([a, b], dim=1), torch.stack([a, b], dim=2), torch.stack([a, b], dim=-2)


@prog(TTR(4), R(-2, 2), R(-2, 2))
def t_clamp(x, lo, hi):
    return torch.clamp(x, lo, hi), torch.clamp(x, min=0.0), torch.clamp(x, max=hi), torch.clamp(x, min=lo, max=hi) - x


@prog(TTI(2, 3))
def t_abs_sum(x):
    return torch.abs(x), torch.sum(x), torch.sum(x, dim=0), torch.sum(x, dim=1, keepdim=True), x.sum(dim=-1), x.abs().sum() if False else torch.abs(x).sum()


@prog(I(-1, 3), TTI(3))
def t_zeros_ones_symbolic(n, x):
    z = torch.zeros(n)
    o = torch.ones((n,))
    return z, o, len(z), torch.zeros_like(x), torch.full_like(x, 7), torch.zeros(2, 2) + 1


@prog(I(-2, 4), I(-5, 5))
def t_arange_symbolic(n, i):
    r = torch.arange(n)
    return len(r), r[i], r * 2


@prog(TTI(2, 3), I(-7, 6))
def t_reshape_view(x, i):
    return x.reshape(3, 2), x.view(-1), x.view(6)[i], x.flatten(), x.T, x.reshape(-1, 2).T, x.contiguous().view(3, 2)[2, 1]


@prog(TTR(3), TTI(3))
def t_clone_long_float(x, k):
    c = x.clone()
    x[0] = 2.5
    return c, x, x.long(), (x * 2).long(), k.float() / 2, x.detach().cpu().numpy(), k.to(torch.float64) + 0.5


@prog(TTR(2, 2), TTR(2))
def t_elementwise_broadcast(a, v):
    return a + v, a * v[0], a - v[:, None], (a * 2 - 1) * v, -a, a / 2, a ** 2


@prog(TTI(3), TTI(3))
def t_inplace_alias(a, b):
    c = a
    a += b
    a *= 2
    d = a.clone()
    a -= 1
    return a, c, d


@prog(TTI(2, 3), I(-3, 3), I(-4, 4), I())
def t_setitem(a, i, j, v):
    a[i, j] = v
    return a, a[i, j].item() if False else a[i][j]


@prog(TTR(2, 3))
def t_sum_mean_dims(x):
    return x.sum(dim=1), x.mean(dim=0), x.sum(dim=(0, 1)), x.mean(), x.sum(0).sum(), x.mean(dim=1, keepdim=True)


@prog(TTI(3))
def t_any_all_item(x):
    return (x > 0).any(), (x > -7).all(), x[1].item(), x.numel(), x.dim(), x.shape[0], x.ndim


@prog(TTI(4), TTI(3, lo=0, hi=3))
def t_fancy_index(x, idx):
    return x[idx], x[[3, 3, 0]]


@prog(TTI(2, 3))
def t_slices(x):
    return x[:, 1:], x[1], x[:, -1], x[..., ::2], x[None].shape, x[0, 1:3], x[-1, :-1]


@prog(TTRn(4))
def t_symbolic_len_ops(x):
    y = x * 2 + 1
    return y, y[1:], len(y), torch.cat([x, x]), torch.roll(x, 1, 0)


@prog(TTI(4))
def t_size_call(x):
    return x.size(0), x.shape[0]


# =================================================================================================
# 6. loops with symbolic trip count, verified by invariant (LoopSpec); correct invariants must verify and the exit
#    state must admit CPython's result; deliberately wrong invariants must be rejected
# =================================================================================================


def _LS(**kw):
    from pyvc.interp import LoopSpec

    return LoopSpec(**kw)


@prog(I(-3, 6), loops={0: _LS(inv=lambda s: [("s=2k", s.s == 2 * s.k)])},
      bad_loops={"entry": {0: _LS(inv=lambda s: [("s=2k+1", s.s == 2 * s.k + 1)])}, "preserve": {0: _LS(inv=lambda s: [("s=k", s.s == s.k)])}})
def loop_for_range(n):
    s = 0
    for i in range(n):
        s += 2
    return s


@prog(I(-3, 6), I(-3, 6), loops={0: _LS(inv=lambda s: [("s", s.s == s.pre.a * s.k), ("t", s.t == 3 * s.k + s.pre.a)])},
      bad_loops={"off-by-one": {0: _LS(inv=lambda s: [("s", s.s == s.pre.a * s.k), ("t", s.t == 3 * s.k + s.pre.a + s.k)])}})
def loop_for_range_start_stop(a, b):
    s = 0
    t = a
    for i in range(a, b):
        s += a
        t = i + 3 - i + t
    return s, t


@prog(I(-3, 9), loops={0: _LS(inv=lambda s: [("mod", s.i % 3 == 0), ("lo", s.i >= 0), ("hi", (s.i == 0) | (s.i - 3 < s.n))], variant=lambda s: s.n - s.i + 3)},
      bad_loops={"too-strong": {0: _LS(inv=lambda s: [("i<=n", s.i <= s.n)], variant=lambda s: s.n - s.i + 3)},
                 "variant": {0: _LS(inv=lambda s: [("lo", s.i >= 0)], variant=lambda s: s.i)}})
def loop_while_variant(n):
    i = 0
    while i < n:
        i += 3
    return i


@prog(SLIn(4), loops={0: _LS(inv=lambda s: [("lo", s.c >= 0), ("hi", s.c <= s.k)])},
      bad_loops={"c=k": {0: _LS(inv=lambda s: [("c=k", s.c == s.k)])}})
def loop_over_symlist(xs):
    c = 0
    for x in xs:
        if x > 0:
            c += 1
    return c


@prog(I(-2, 5), I(1, 3), loops={0: _LS(inv=lambda s: [("acc", s.acc == s.k * s.pre.step)])})
def loop_range_step(n, step):
    acc = 0
    for i in range(0, n, 2):
        acc += step
    return acc


# =================================================================================================
# 7. second batch: equality / membership of sequences, objects with protocol methods, error paths of array
#    operations, more slicing, loops without carried state, zip / enumerate trip counts
# =================================================================================================


@prog(SLI(3), I(-3, 3))
def symlist_contains(xs, a):
    return a in xs, a not in xs, isinstance(xs, list)


@prog(SLI(3), I(-3, 3), unsupported=True)
def symlist_count_method(xs, a):
    return xs.count(a)


@prog(SLI(2), SLI(2))
def symlist_equality(xs, ys):
    return xs == ys, xs != ys, xs == xs


@prog(LI(2), LI(2))
def pylist_equality(xs, ys):
    return xs == ys, xs != ys, xs == [xs[0], xs[1]], (xs[0], 1) == (ys[0], 1), xs < ys if False else 0


@prog(SLI(3), I())
def symlist_builtins(xs, s):
    return sum(xs, s), min(xs), max(xs), len(xs), list(xs), tuple(xs), [x + 1 for x in xs], sum(xs[1:])


@prog(LI(2), LI(2), I(-3, 3), I(-3, 3))
def nested_list_symbolic_index(xs, ys, i, j):
    grid = [xs, ys]
    return grid[i][j]


@prog(I(), I(), I(), unsupported=True)
def list_index_count_methods(a, b, c):
    xs = [a, b, c]
    return xs.count(a), xs.index(c), len(xs)


@prog(I(-3, 3), I(-3, 3))
def while_else_symbolic(a, b):
    n = 0
    while a < b:
        a += 2
        n += 1
        if n == 2:
            break
    else:
        n = -n
    return n, a


@prog(LI(3), I(-4, 4))
def del_and_slices_pylist(xs, i):
    ys = xs[::-1]
    zs = xs[1:]
    del zs[0]
    return ys, zs, xs[i:], xs[:i][::1], xs[-2:]


class _Vec:
    scale = 2

    def __init__(self, x, y):
        self.x = x
        self._y = y

    @property
    def y(self):
        return self._y

    @y.setter
    def y(self, v):
        self._y = v * self.scale

    def __getitem__(self, i):
        if i == 0:
            return self.x
        if i == 1:
            return self._y
        raise IndexError(i)

    def __len__(self):
        return 2

    def __contains__(self, v):
        return v == self.x or v == self._y

    def __call__(self, k):
        return _Vec(self.x * k, self._y * k)

    @staticmethod
    def dot(a, b):
        return a.x * b.x + a.y * b.y

    @classmethod
    def unit(cls, s):
        return cls(s, 0)

    def norm1(self):
        return abs(self.x) + abs(self._y)


@prog(I(), I(), I(-1, 2))
def object_protocols(a, b, i):
    v = _Vec(a, b)
    v.y = b + 1
    w = v(3)
    u = _Vec.unit(a)
    return v[i], len(v), a in v, 100 in v, w.x, w.y, _Vec.dot(v, u), v.norm1(), hasattr(v, "x"), hasattr(v, "zz"), getattr(v, "zz", 5)


@prog(I(), I())
def object_attribute_errors(a, b):
    v = _Vec(a, b)
    if a > b:
        return v.missing
    setattr(v, "extra", a + b)
    return v.extra, v.scale


@prog(SLIn(3), I(-4, 4))
def try_except_symarr_index(xs, i):
    try:
        return xs[i]
    except IndexError:
        return -100


@prog(NPI(2, 3), I(0, 3))
def np_reshape_bad(a, k):
    if k == 0:
        return a.reshape(4)
    if k == 1:
        return a.reshape(2, 2)
    if k == 2:
        return a.reshape(-1, 4)
    return a.reshape(6)


@prog(TTI(2, 3), I(0, 2))
def t_reshape_bad(a, k):
    if k == 0:
        return a.reshape(5)
    if k == 1:
        return a.view(4, 2)
    return a.view(3, 2)


@prog(NPI(3), NPI(2), unsupported=True)
def np_broadcast_mismatch(a, b):
    return a + b


@prog(NPI(2, 3), I(-3, 3))
def np_too_many_indices(a, i):
    if i > 0:
        return a[0, 1, i]
    return a[i, 0]


@prog(NPI(6), I(-8, 8), I(-8, 8))
def np_slice_symbolic_step(a, i, j):
    return a[i:j:2], a[i::3], a[:j:2]


@prog(NPI(4), unsupported=True)
def np_negative_step(a):
    return a[::-1]


@prog(NPIn(4))
def np_mean_symbolic_len(a):
    return a.mean()


@prog(NPRn(3))
def np_symbolic_len_elementwise(a):
    b = a * 2 - 1
    c = abs(b)
    return b, c[1:], len(c), (b > 0), c[:-1]


@prog(NPI(2, 3))
def np_len_shape_2d(a):
    return len(a), a.shape[1], a.T.shape, a[0].shape, a.sum(axis=0).shape, a[:, :2].T, a.T[1], a.T.reshape(-1)


@prog(NPI(3), I(-4, 4))
def np_scalar_conversions(a, i):
    return int(a[1]), float(a[0]) / 2, bool(a[2]), a[i] * 2 if -3 <= i < 3 else 0, a[0].item() if False else a[0] + 0


@prog(NPR(2, 3))
def np_long_trunc(a):
    return a.astype(np.int64), (a * 2).astype(int), a.astype(float), a.astype(np.int32).sum()


@prog(NPI(3))
def np_astype_int_to_float(a):
    return a.astype(float) / 2, a.astype(np.float64) * 0.5


@prog(TTR(3), TTR(3))
def t_compare_logic(a, b):
    m = (a > b) | (a < -1)
    return m, ~m, m & (b > 0), a == b, torch.where(m, 1.0, 0.0), (a >= b).sum() if False else m


@prog(TTI(3), I(-5, 5))
def t_index_errors(x, i):
    return x[i]


@prog(TTI(2, 2), TTI(2, 2))
def t_cat_stack_compose(a, b):
    c = torch.cat([a, b], dim=1)
    s = torch.stack([c[0], c[1]], dim=0)
    return s, torch.roll(c, 1, 1)[:, 0], c.sum(dim=0), torch.cat([a.flatten(), b.flatten()]).reshape(2, 4)


@prog(TTR(2, 3))
def t_keepdim_broadcast_back(x):
    m = x.mean(dim=1, keepdim=True)
    return x - m, (x - m).sum(dim=1), x / 2 - x.sum(dim=0, keepdim=True)


@prog(R(0, 4), R(-2, 2))
def math_uninterpreted(x, y):
    return math.sqrt(x), math.cos(y), math.sin(y) + 1, math.exp(y), y * math.pi


@prog(SLIn(3))
def loop_no_state_raise(xs):
    for x in xs:
        if x < 0:
            raise ValueError("negative")
    return len(xs)


@prog(SLIn(3), SLIn(4), loops={0: _LS(inv=lambda s: [("c=k", s.c == s.k)])},
      bad_loops={"c=k+1": {0: _LS(inv=lambda s: [("c", s.c == s.k + 1)])}})
def loop_zip_trip_count(xs, ys):
    c = 0
    for x, y in zip(xs, ys):
        c += 1
    return c


@prog(SLIn(4), loops={0: _LS(inv=lambda s: [("last", s.last == s.k - 1)])})
def loop_enumerate_symlist(xs):
    last = -1
    for i, x in enumerate(xs):
        last = i
    return last


@prog(I(-2, 6), I(-2, 6), loops={0: _LS(inv=lambda s: [("c", s.c == s.k), ("last", (s.k == 0) | (s.last == s.pre.a - s.k + 1))])})
def loop_range_negative_step(a, b):
    c = 0
    last = 0
    for i in range(a, b, -1):
        c += 1
        last = i
    return c, last if c else 0


# =================================================================================================
# 8. third batch: operator precedence, bool/int mixing, views of rows, snapshots, closures over mutable state
# =================================================================================================

_GLOBAL_OFFSET = 7


@prog(I(-7, 7), I(1, 4))
def neg_floordiv_precedence(a, b):
    return -a // b, -(a // b), a // -b, (-a) % b, a % -b, -a % b, a - a // b * b, 2 ** 3 ** 1 - a


@prog(B(), I(-2, 2))
def bool_int_compare(p, a):
    return p == 1, p < a, p == a, a == True, p != 0, (p + 1) // 2, p * a, max(p, a), p is True if False else 0  # noqa: E712


@prog(I(0, 7), I(0, 7), unsupported=True)
def int_bit_ops(a, b):
    return a & 1, a | b, a ^ b, a << 1, a >> 1


@prog(R(0, 4, 2))
def while_real_halving(x):
    n = 0
    while x > 0.5:
        x /= 2
        n += 1
    if x:
        n += 10
    return n, x


@prog(SLI(3), I(-4, 4), I())
def symlist_augassign_subscript(xs, i, v):
    xs[i] += v
    xs[0] *= 2
    return xs


@prog(LI(3), I())
def pylist_alias_in_containers(xs, a):
    d = {"k": xs}
    pair = (xs, [a])
    d["k"].append(a)
    pair[1].append(xs[0])
    xs[0] += 1

    def push(v):
        xs.append(v)
        return len(xs)

    n = push(a * 2)
    return xs, d["k"][-1], pair[1], n, d["k"] is xs


@prog(NPI(2, 3), I())
def np_row_view_own_write(a, v):
    r = a[0]
    r[1] = v
    r += 1
    return r


@prog(NPI(2, 3), I(), unsupported=True)
def np_chained_index_write(a, v):
    a[0][1] = v
    return a


@prog(NPI(2, 3), I())
def np_reshape_then_write(a, v):
    b = a.reshape(3, 2).copy()
    b[0, 1] = v
    b[2, 0] += v
    return b, a


@prog(NPI(3), NPI(3))
def np_result_snapshot(a, b):
    c = a + b
    d = a * 2
    m = a > b
    b[0] = 100
    a[1] = -100
    a += 5
    return c, d, m, a, b


@prog(SLIn(3))
def symlist_to_array_and_back(xs):
    a = np.asarray(xs)
    b = a * 2 + 1
    return b, b.tolist() if False else len(b), list(xs), a[::2]


@prog(I(), I(), I())
def dict_iteration_symbolic_values(a, b, c):
    d = {"x": a, "y": b}
    d["z"] = c
    tot = 0
    for k, v in d.items():
        if k != "y":
            tot += v
    keys = [k for k in d]
    best = max(d.values())
    return tot, keys, best, {k: v * 2 for k, v in d.items()}, "x" in d, "q" in d


@prog(SLI(3), I())
def star_args_from_symlist(xs, a):
    def f(p, q, r, s=0):
        return p - q + r * s

    return f(*xs), f(*xs, a), f(*xs[:2], r=a)


@prog(I(), R())
def global_and_isinstance_tuple(a, x):
    def num(v):
        return isinstance(v, (int, float)) and not isinstance(v, bool)

    return a + _GLOBAL_OFFSET, num(a), num(x), num(a > 0), num(None), num("s")


@prog(NPI(2, 3), NPI(2, 3))
def np_iterate_rows_zip(a, b):
    out = []
    for i, (ra, rb) in enumerate(zip(a, b)):
        out.append((ra * rb).sum() + i)
    return out, [int(x) for x in a[0]]


@prog(TTR(2, 3), R())
def t_scalar_sym_ops(x, s):
    return x * s, x + s, s - x, x / 2 + s, torch.clamp(x, min=s), torch.where(x > s, x, s * 1.0)


@prog(TTI(3, 2))
def t_transpose_flatten_roundtrip(x):
    return x.T.flatten(), x.T.reshape(3, 2), x.flatten().reshape(2, 3).T, x.T.T, x.T[1, 2]


@prog(I(-2, 2), I(-2, 2))
def finally_return_overrides(a, b):
    def f():
        try:
            return 10 // a
        finally:
            if b > 0:
                return -1  # noqa: B012

    return f()


@prog(R(1, 3, 2), R(-2, 2, 2))
def pow_symbolic_exponent(x, y):
    return x ** y, x ** 0.5, x ** 2.0


def _filled(s, f):
    import z3
    from pyvc.values import lift

    j = z3.Int("j!inv")
    return z3.ForAll([j], z3.Implies(z3.And(j >= 0, j < lift(s.k)), lift(s.out.fn(j)) == f(j)))


@prog(I(0, 4), loops={0: _LS(inv=lambda s: [("filled", _filled(s, lambda j: 2 * j))])},
      bad_loops={"wrong-values": {0: _LS(inv=lambda s: [("filled", _filled(s, lambda j: 2 * j + 1))])}})
def loop_fill_list_inplace(n):
    out = [0] * n
    for i in range(n):
        out[i] = i * 2
    return out


@prog(NPIn(4), loops={0: _LS(inv=lambda s: [("filled", _filled(s, lambda j: lift_elem(s.pre.a, j) + 1))])})
def loop_array_inplace_from_input(a):
    out = a.copy()
    for i in range(len(a)):
        out[i] = a[i] + 1
    return out


def lift_elem(arr, j):
    from pyvc.values import lift

    return lift(arr.fn(j))


# =================================================================================================
# additions after the refactoring round: divmod, slice objects, yield from
# =================================================================================================


@prog(I(-9, 9), I(-4, 4))
def builtin_divmod_int(a, b):
    q, r = divmod(a, b)
    return q, r


@prog(R(-4, 4), I(-3, 3), known_deviation=_FLOAT_DIV0)
def builtin_divmod_real(x, b):
    q, r = divmod(x, b)
    return q, r


@prog(I(0, 5), I(0, 5))
def slice_object_symbolic(lo, hi):
    xs = [10, 11, 12, 13, 14]
    sl = slice(lo, hi)
    return xs[sl]


def _sub_gen(n):
    for i in range(n):
        yield i * i


@prog(K(3))
def yield_from_generator(n):
    def outer():
        yield -1
        yield from _sub_gen(n)
        yield from [7, 8]

    return list(outer())


# torch: x[i] is a 0-dim VIEW (an in-place operator on it writes x[i]); numpy: x[i] is a scalar copy
@prog(TTR(4), I(0, 3), R(-2, 2))
def torch_elem_view_inplace_writes_base(x, i, v):
    x = x.clone()
    t = x[i]
    t += v
    t *= 2.0
    return x, t.item()


@prog(TTR(4), I(0, 3), R(-2, 2))
def torch_elem_then_fresh_accumulator(x, i, v):
    x = x.clone()
    total = 0.0
    total += x[i]      # a NEW 0-dim tensor: later in-place adds do not touch x
    total += v
    return x, total


@prog(NPR(4), I(0, 3), R(-2, 2))
def numpy_elem_copy_inplace_keeps_base(x, i, v):
    x = x.copy()
    t = x[i]
    t += v
    return x
