from ..registry import Registry


def base_registry():
    from . import builtins_

    reg = Registry()
    builtins_.install(reg)
    return reg
