"""TRUSTED models for the serializer properties (C01 round trip, C14 skip lists).

Nothing in this file describes quantem code.  It states the contracts of the libraries the serializer
is written against, on abstract values:

* zarr (A6):  a group is (attrs: JSON map, arrays: map, groups: map); attrs are a JSON round trip
  (tuples -> lists, str keys, non-JSON values raise TypeError); arrays keep dtype / shape / data;
  compressors are lossless (they are recorded and otherwise ignored); `create_array` on an existing key raises;
  a 0-d array is read with `arr[()]` / `arr[...]` (numpy scalar), `arr[:]` on it raises IndexError.
* torch.save / torch.load, dill.dumps / dill.loads, gzip.compress / gzip.decompress are inverse pairs on opaque byte tokens;
  bytes that are not a gzip stream make gzip.decompress raise.
* numpy: asarray of a list of numeric scalars is a 1-d array holding the same numeric values (A1/A2), frombuffer/tobytes
  are inverse on byte tokens, empty(shape, dtype) has the given shape/dtype and unspecified contents.
* os / shutil / tempfile / zipfile on a ghost file system (whole-tree granularity, see GhostFS).
* kind facts (A7): isinstance / hasattr on a kind-abstract value are answered by ONE real representative
  instance of that kind, measured at check time (KIND_FACTS records every answer that was used).

Names (attribute names, dict keys, skip-list entries) are python str or symbolic z3 strings (`StrSym`);
every map lookup with an undetermined key forks the path on key equality.
"""
from __future__ import annotations

import atexit
import io
import operator
import os
import shutil
import tempfile

import z3

from .. import values as V
from ..values import Sym, SymArr, Obj, Kind, S, lift, contains_sym, OutOfSubset, cur
from ..interp import RaiseSig, PathEnd

# ------------------------------------------------------------------------------------------------
# names: python str or symbolic strings
# ------------------------------------------------------------------------------------------------


class StrSym(Sym):
    """A z3 String term with python `str` operator semantics for the few operations the serializer uses."""

    __slots__ = ()
    _pyvc_value = True

    def __bool__(self):
        return cur().branch(z3.Length(self.t) > 0)

    def __eq__(self, o):
        if isinstance(o, str) or (isinstance(o, Sym) and z3.is_string(o.t)):
            return Sym(self.t == sterm(o))
        return False

    def __ne__(self, o):
        r = self.__eq__(o)
        return True if r is False else Sym(z3.Not(r.t))

    __hash__ = Sym.__hash__

    def __str__(self):
        return f"<{self.t}>"

    def endswith(self, suf):
        if isinstance(suf, tuple):  # str.endswith(tuple) is the disjunction over its elements
            return Sym(z3.Or(*[z3.SuffixOf(sterm(x), self.t) for x in suf])) if suf else False
        return Sym(z3.SuffixOf(sterm(suf), self.t))

    def startswith(self, pre):
        if isinstance(pre, tuple):
            return Sym(z3.Or(*[z3.PrefixOf(sterm(x), self.t) for x in pre])) if pre else False
        return Sym(z3.PrefixOf(sterm(pre), self.t))

    def isdigit(self):
        # all characters are decimal digits and the string is non-empty: str.to_int is -1 otherwise
        return Sym(z3.And(z3.Length(self.t) > 0, z3.StrToInt(self.t) >= 0))

    def __add__(self, o):
        return StrSym(z3.Concat(self.t, sterm(o)))

    def __radd__(self, o):
        return StrSym(z3.Concat(sterm(o), self.t))


def is_strsym(x):
    return isinstance(x, Sym) and z3.is_string(x.t)


def is_name(x):
    return isinstance(x, str) or is_strsym(x)


def sterm(x):
    if isinstance(x, str):
        return z3.StringVal(x)
    if is_strsym(x):
        return x.t
    raise OutOfSubset(f"{type(x).__name__} used as a name")


def as_name(x):
    if is_strsym(x) and not isinstance(x, StrSym):
        return StrSym(x.t)
    return x


def note_name(ctx, sym, excluded, no_suffixes=(), distinct=()):
    """Record (python level) facts that were ASSUMED about a fresh symbolic name, so that key comparisons they decide
    need no solver call:  excluded(c) -> the name is not the concrete string c;  the name has none of `no_suffixes`;
    it differs from the names in `distinct`."""
    tbl = ctx.ghost.setdefault("name_tbl", {})
    tbl[sym.t.get_id()] = (excluded, tuple(no_suffixes), {sterm(d).get_id() if not isinstance(d, str) else d for d in distinct})


def _split(x):
    """name -> (base term id | None, concrete suffix / whole string)"""
    if isinstance(x, str):
        return None, x
    t = x.t
    if z3.is_app(t) and t.decl().kind() == z3.Z3_OP_SEQ_CONCAT and t.num_args() == 2 and z3.is_string_value(t.arg(1)) and z3.is_const(t.arg(0)):
        return t.arg(0).get_id(), t.arg(1).as_string()
    if z3.is_const(t) and not z3.is_string_value(t):
        return t.get_id(), ""
    return "?", ""


def quick_neq(a, b):
    """True when the recorded name facts already decide a != b (sound: the same facts are in the path condition)."""
    tbl = cur().ghost.get("name_tbl")
    if not tbl:
        return False
    (ia, sa), (ib, sb) = _split(a), _split(b)
    if ia == "?" or ib == "?":
        return False
    if ia is None and ib is None:
        return sa != sb
    if ia is None or ib is None:
        (i, sfx), c = ((ib, sb), sa) if ia is None else ((ia, sa), sb)
        if sfx and not c.endswith(sfx):
            return True
        c0 = c[: len(c) - len(sfx)] if sfx else c
        info = tbl.get(i)
        return bool(info and (info[0](c0) or c0 in info[2]))
    if ia == ib:
        return sa != sb
    fa, fb = tbl.get(ia), tbl.get(ib)
    if sa == sb:
        return bool(fa and ib in fa[2] or fb and ia in fb[2])
    # x + sa  vs  y + sb with different suffixes: decided when one side is a bare name that cannot carry the other's suffix
    if sa == "" and fa and any(sb.endswith(n) for n in fa[1]):
        return True
    if sb == "" and fb and any(sa.endswith(n) for n in fb[1]):
        return True
    return False


def keq(a, b):
    """Key equality as a python bool; forks the path when undetermined."""
    if isinstance(a, str) and isinstance(b, str):
        return a == b
    if not (is_name(a) and is_name(b)):
        return a is b
    ta, tb = sterm(a), sterm(b)
    if ta.eq(tb):
        return True
    if quick_neq(a, b):
        return False
    return cur().branch(ta == tb)


def name_eq_term(a, b):
    if isinstance(a, str) and isinstance(b, str):
        return z3.BoolVal(a == b)
    return sterm(a) == sterm(b)


def show(k):
    return k if isinstance(k, str) else f"<{k.t}>"


class SMap:
    """Insertion-ordered map with str / symbolic-string keys."""

    _pyvc_value = True

    def __init__(self, items=()):
        self.entries = [(as_name(k), v) for k, v in items]

    def find(self, k):
        for i, (kk, _) in enumerate(self.entries):
            if keq(kk, k):
                return i
        return None

    def __contains__(self, k):
        return self.find(k) is not None

    def __getitem__(self, k):
        i = self.find(k)
        if i is None:
            raise KeyError(show(k))
        return self.entries[i][1]

    def get(self, k, default=None):
        i = self.find(k)
        return default if i is None else self.entries[i][1]

    def __setitem__(self, k, v):
        i = self.find(k)
        if i is None:
            self.entries.append((as_name(k), v))
        else:
            self.entries[i] = (self.entries[i][0], v)

    def __delitem__(self, k):
        i = self.find(k)
        if i is None:
            raise KeyError(show(k))
        del self.entries[i]

    def pop(self, k, *default):
        i = self.find(k)
        if i is None:
            if default:
                return default[0]
            raise KeyError(show(k))
        return self.entries.pop(i)[1]

    def items(self):
        return list(self.entries)

    def keys(self):
        return [k for k, _ in self.entries]

    def values(self):
        return [v for _, v in self.entries]

    def __iter__(self):
        return iter(self.keys())

    def __len__(self):
        return len(self.entries)

    def copy(self):
        return SMap(self.entries)

    def __repr__(self):
        return "SMap{" + ", ".join(show(k) for k in self.keys()) + "}"


# ------------------------------------------------------------------------------------------------
# JSON (zarr attributes)
# ------------------------------------------------------------------------------------------------


class JsonNames:
    """JSON list holding the elements of an abstract name set / type-name list (see SymSet / ATypes)."""

    _pyvc_value = True

    def __init__(self, of, what):
        self.of = of
        self.what = what

    def __bool__(self):
        return self.of.nonempty()


def to_json(v):
    """What json.dumps + json.loads make of a value (A6).  Raises TypeError for non-JSON values."""
    if v is None or isinstance(v, (bool, int, float, str)):
        return v
    if isinstance(v, Sym):
        return as_name(v)
    if isinstance(v, (list, tuple)):
        return [to_json(x) for x in v]
    if isinstance(v, dict):
        out = {}
        for k, x in v.items():
            if not isinstance(k, (str, int, float, bool)) and k is not None and not is_strsym(k):
                raise TypeError(f"keys must be str, int, float, bool or None, not {type(k).__name__}")
            kk = k if is_name(k) else ("true" if k is True else "false" if k is False else "null" if k is None else str(k))
            out[kk] = to_json(x)
        return out
    if isinstance(v, JsonNames):
        return v
    try:
        import numpy as np

        if isinstance(v, (np.integer, np.floating, np.bool_)):
            raise TypeError(f"Object of type {type(v).__name__} is not JSON serializable")
    except ImportError:
        pass
    kind = v.kind if isinstance(v, Kind) else type(v).__name__
    raise TypeError(f"Object of type {kind} is not JSON serializable")


def json_copy(v):
    if isinstance(v, list):
        return [json_copy(x) for x in v]
    if isinstance(v, dict):
        return {k: json_copy(x) for k, x in v.items()}
    return v


class AAttrs:
    """zarr `.attrs` of a group or array."""

    _pyvc_value = True

    def __init__(self, owner=None):
        self.m = SMap()
        self.owner = owner

    def _log(self, k):
        if self.owner is not None:
            self.owner.log.append(("attr", k))

    def __setitem__(self, k, v):
        if not is_name(k):
            raise TypeError("attribute keys must be strings")
        self.m[k] = to_json(v)
        self._log(k)

    def __getitem__(self, k):
        return json_copy(self.m[k])

    def get(self, k, default=None):
        i = self.m.find(k)
        return default if i is None else json_copy(self.m.entries[i][1])

    def __contains__(self, k):
        return k in self.m

    def __iter__(self):
        return iter(self.m.keys())

    def keys(self):
        return self.m.keys()

    def items(self):
        return [(k, json_copy(v)) for k, v in self.m.items()]

    def __len__(self):
        return len(self.m)

    def __repr__(self):
        return f"AAttrs{self.m!r}"


# ------------------------------------------------------------------------------------------------
# bytes, buffers, dtypes, arrays
# ------------------------------------------------------------------------------------------------


class ABytes:
    """Opaque byte string: `tok` identifies the content, `length` is an int or symbolic int."""

    _pyvc_value = True

    def __init__(self, tok, length):
        self.tok = tok
        self.length = length

    def __bool__(self):
        if isinstance(self.length, int):
            return self.length > 0
        return cur().branch(lift(self.length) > 0)

    def __repr__(self):
        return f"ABytes({self.tok!r})"


class ABuffer:
    """io.BytesIO"""

    _pyvc_value = True

    def __init__(self, content=None):
        self.content = content if content is not None else ABytes(("empty",), 0)
        self.pos_at_start = True

    def seek(self, pos, *a):
        self.pos_at_start = pos == 0
        return pos

    def read(self, *a):
        if not self.pos_at_start:
            return ABytes(("empty",), 0)
        self.pos_at_start = False
        return self.content

    def getvalue(self):
        return self.content

    def write(self, b):
        self.content = b
        self.pos_at_start = False


class DType:
    """Opaque dtype token (concrete name when known)."""

    _pyvc_value = True
    _n = [0]

    def __init__(self, name=None):
        DType._n[0] += 1
        self.name = name
        self.id = DType._n[0]

    def __repr__(self):
        return f"DType({self.name or '#' + str(self.id)})"

    def __str__(self):
        return self.name or f"<dtype#{self.id}>"


def dtype_same(a, b):
    if a is b:
        return True
    na = a.name if isinstance(a, DType) else a
    nb = b.name if isinstance(b, DType) else b
    if na is None or nb is None:
        return False
    try:
        import numpy as np

        return np.dtype(na) == np.dtype(nb)
    except Exception:
        return na == nb


_TOK = [0]


def fresh_tok(tag):
    _TOK[0] += 1
    return (tag, _TOK[0])


def shape_numel_zero_term(shape):
    ts = [lift(d) == 0 for d in shape]
    return z3.Or(*ts) if ts else z3.BoolVal(False)


def shape_eq_term(a, b):
    if len(a) != len(b):
        return z3.BoolVal(False)
    ts = [lift(x) == lift(y) for x, y in zip(a, b)]
    return z3.And(*ts) if ts else z3.BoolVal(True)


def mk_ndarray(dtype, shape, data, rep=None):
    import numpy as np

    return Kind("ndarray", rep=rep if rep is not None else _rep("ndarray"), dtype=dtype, shape=tuple(shape), data=data)


def data_norm(d):
    """('asarray0', ('item', d)) == d : reading a stored scalar back as a 0-d array gives the original contents."""
    while isinstance(d, tuple) and len(d) == 2 and d[0] == "asarray0" and isinstance(d[1], tuple) and d[1][0] == "item":
        d = d[1][1]
    return d


class AArray:
    """zarr.Array"""

    _pyvc_value = True

    def __init__(self, shape, dtype, compressors, path=""):
        self.shape = tuple(shape)
        self.dtype = dtype
        self.compressors = compressors
        self.data = None  # never written: fill value
        self.attrs = AAttrs()
        self.src = None  # ghost: the value a contract-ed writer stored (see contracts)
        self.prov = None  # ghost: provenance of a concretely written entry (the value the real writer was given)
        self.path = path

    @property
    def ndim(self):
        return len(self.shape)

    def __setitem__(self, key, value):
        if key == () or key is Ellipsis:
            if self.ndim != 0 and key == ():
                raise IndexError("scalar store into an n-d array")
            if isinstance(value, Kind) and value.kind == "ndarray":
                if value.payload["shape"] != ():
                    raise ValueError("could not broadcast input array")
                self.data = value.payload["data"]
            else:
                self.data = ("asarray0", scalar_tok(value))
            return
        if isinstance(key, slice) and key == slice(None):
            if self.ndim == 0:
                raise IndexError("too many indices for array; expected 0, got 1")
            if not (isinstance(value, Kind) and value.kind == "ndarray"):
                raise OutOfSubset("array store of a non-array value")
            ok = shape_eq_term(self.shape, value.payload["shape"])
            if not V.cur().branch(ok):
                raise ValueError("could not broadcast input array")
            self.data = value.payload["data"]
            return
        raise OutOfSubset(f"zarr array store with key {key!r}")

    def _full(self):
        if self.src is not None:
            raise OutOfSubset("direct read of an array written through a contract (use the reader's contract)")
        data = self.data if self.data is not None else fresh_tok("fill")
        return mk_ndarray(self.dtype, self.shape, data_norm(data))

    def __getitem__(self, key):
        if isinstance(key, slice) and key == slice(None):
            if self.ndim == 0:
                raise IndexError("too many indices for array; expected 0, got 1")
            if self.src is not None:
                return self.src_view()
            return self._full()
        if key == () or key is Ellipsis:
            if self.src is not None:
                return self.src_view()
            if self.ndim == 0:
                d = self.data if self.data is not None else fresh_tok("fill")
                return Kind("npscalar0", rep=_rep("npfloat"), dtype=self.dtype, data=data_norm(d))
            return self._full()
        raise OutOfSubset(f"zarr array read with key {key!r}")

    def src_view(self):
        s = self.src if self.src is not None else self.prov
        if isinstance(s, ABytes):
            return mk_ndarray("uint8", (s.length,), ("bytes", s.tok))
        return mk_ndarray(s.payload["dtype"], s.payload["shape"], s.payload["data"], rep=s.payload["rep"])


def scalar_tok(v):
    if isinstance(v, Kind) and "tok" in v.payload:
        return v.payload["tok"]
    if isinstance(v, Kind) and v.kind == "npscalar0":
        return ("item", v.payload["data"])
    return ("value", v)


class AGroup:
    """zarr.Group"""

    _pyvc_value = True

    def __init__(self, path="", name=None):
        self.attrs = AAttrs(self)
        self.arrays = SMap()
        self.groups = SMap()
        self.path = path
        self.log = []  # write log: ('attr'|'array'|'group', key)
        self.enc = None  # ghost: what a contract-ed writer encoded into this group

    def require_group(self, name):
        if name in self.groups:
            return self.groups[name]
        if name in self.arrays:
            raise TypeError("Incompatible object (AsyncArray) already exists")
        g = AGroup(path=(self.path + "/" if self.path else "") + show(name))
        self.groups[name] = g
        self.log.append(("group", name))
        return g

    def create_group(self, name, **kw):
        if name in self.groups or name in self.arrays:
            raise ValueError("A group / array exists at that path")
        return self.require_group(name)

    def create_array(self, name=None, shape=None, dtype=None, compressors=None, **kw):
        if kw:
            raise OutOfSubset(f"create_array keyword(s) {sorted(kw)}")
        if name is None or shape is None or dtype is None:
            raise TypeError("create_array needs name, shape and dtype")
        if name in self.arrays or name in self.groups:
            raise ValueError("An array exists in store at that path")  # zarr.errors.ContainsArrayError is a ValueError
        if isinstance(shape, list):
            shape = tuple(shape)
        if not isinstance(shape, tuple):
            shape = (shape,)
        a = AArray(shape, dtype, compressors, path=(self.path + "/" if self.path else "") + show(name))
        self.arrays[name] = a
        self.log.append(("array", name))
        return a

    def __contains__(self, name):
        return name in self.arrays or name in self.groups

    def __getitem__(self, name):
        if name in self.arrays:
            return self.arrays[name]
        if name in self.groups:
            return self.groups[name]
        raise KeyError(show(name))

    def array_keys(self):
        return self.arrays.keys()

    def group_keys(self):
        return self.groups.keys()

    def keys(self):
        return self.arrays.keys() + self.groups.keys()

    def __repr__(self):
        return f"AGroup({self.path!r} attrs={self.attrs.m!r} arrays={self.arrays!r} groups={self.groups!r})"


# ------------------------------------------------------------------------------------------------
# abstract name sets / type sets (skip lists)
# ------------------------------------------------------------------------------------------------


class SymSet:
    """Finite set of strings given by a membership predicate  mem: z3 String term -> z3 Bool.

    Iteration (the serializer only iterates to call hasattr/delattr per element) enumerates every name in
    `universe()` that the path decides to be a member, then ONE generic further member distinct from all of them
    (iterations are independent of each other in the code under contract; stated in TRUSTED)."""

    _pyvc_value = True

    def __init__(self, mem, universe=None, label="S"):
        self.mem = mem
        self.universe = universe or (lambda: [])
        self.label = label

    def has(self, name):
        return Sym(self.mem(sterm(name)))

    def __contains__(self, name):
        if not is_name(name):
            return False
        return cur().branch(self.mem(sterm(name)))

    def __or__(self, o):
        return SymSet(lambda t, a=self, b=o: z3.Or(set_mem(a, t), set_mem(b, t)),
                      universe=lambda a=self, b=o: list(a.universe()) + [x for x in _universe_of(b)], label=f"({self.label}|{set_label(o)})")

    __ror__ = __or__

    # set algebra with another name set (SymSet or python set / list of names): membership is the boolean combination.
    # The iteration universe stays that of the operand(s): every candidate is re-decided against the new predicate on iteration.
    def __and__(self, o):
        if not isinstance(o, (SymSet, set, frozenset)):
            return NotImplemented
        return SymSet(lambda t, a=self, b=o: z3.And(set_mem(a, t), set_mem(b, t)),
                      universe=lambda a=self, b=o: list(a.universe()) + [x for x in _universe_of(b) if is_name(x)], label=f"({self.label}&{set_label(o)})")

    __rand__ = __and__

    def __sub__(self, o):
        if not isinstance(o, (SymSet, set, frozenset)):
            return NotImplemented
        return SymSet(lambda t, a=self, b=o: z3.And(set_mem(a, t), z3.Not(set_mem(b, t))), universe=self.universe, label=f"({self.label}-{set_label(o)})")

    def __rsub__(self, o):
        if not isinstance(o, (set, frozenset)):
            return NotImplemented
        return SymSet(lambda t, a=o, b=self: z3.And(set_mem(a, t), z3.Not(set_mem(b, t))), universe=lambda a=o: [x for x in a if is_name(x)],
                      label=f"({set_label(o)}-{self.label})")

    def intersection(self, *others):
        r = self
        for o in others:
            r = r & (o if isinstance(o, SymSet) else set(o))
        return r

    def union(self, *others):
        r = self
        for o in others:
            r = r | o
        return r

    def difference(self, *others):
        r = self
        for o in others:
            r = r - (o if isinstance(o, SymSet) else set(o))
        return r

    def copy(self):
        return SymSet(self.mem, self.universe, self.label)

    def nonempty(self):
        return cur().branch(z3.Bool(cur().fresh_name(self.label + "_nonempty")))

    def __iter__(self):
        ctx = cur()
        seen = []
        for c in self.universe():
            if any(keq(c, s) for s in seen):
                continue
            if ctx.branch(self.mem(sterm(c))):
                seen.append(c)
                yield c
        g = StrSym(z3.String(ctx.fresh_name(self.label + "_other")))
        uni = list(self.universe())
        cond = z3.And(self.mem(g.t), *[z3.Not(name_eq_term(g, c)) for c in uni])
        if ctx.branch(cond):
            note_name(ctx, g, lambda c, _u=uni: c in [x for x in _u if isinstance(x, str)], (), uni)
            yield g

    def __repr__(self):
        return f"SymSet({self.label})"


def _universe_of(s):
    if isinstance(s, SymSet):
        return s.universe()
    return list(s)


def set_label(s):
    return s.label if isinstance(s, SymSet) else "{" + ",".join(show(x) for x in s) + "}"


def set_mem(s, t):
    """Membership of the string term `t` in a SymSet or a python set/list/tuple of names, as a z3 Bool."""
    if isinstance(s, SymSet):
        return s.mem(t)
    if isinstance(s, JsonNames):
        return set_mem(s.of, t)
    terms = [t == sterm(x) for x in s if is_name(x)]
    return z3.Or(*terms) if terms else z3.BoolVal(False)


def fresh_symset(ctx, label, universe=None):
    f = z3.Function(ctx.fresh_name(label), z3.StringSort(), z3.BoolSort())
    return SymSet(lambda t, _f=f: _f(t), universe=universe, label=label)


def empty_symset():
    return SymSet(lambda t: z3.BoolVal(False), label="{}")


class ATypes:
    """Abstract tuple of types (skip_types): `match(v)` = isinstance(v, types), `exact(v)` = type(v) in types."""

    _pyvc_value = True

    def __init__(self, ctx, label="T", empty=False):
        self.label = label
        self.empty = empty
        self.f_match = z3.Function(ctx.fresh_name(label + "_isinstance"), z3.StringSort(), z3.BoolSort())
        self.f_exact = z3.Function(ctx.fresh_name(label + "_exact"), z3.StringSort(), z3.BoolSort())

    def match(self, v):
        if self.empty:
            return z3.BoolVal(False)
        return self.f_match(z3.StringVal(type_token(v)))

    def exact(self, v_or_type):
        if self.empty:
            return z3.BoolVal(False)
        tk = z3.StringVal(type_token(v_or_type))
        cur().assume(z3.Implies(self.f_exact(tk), self.f_match(tk)))
        return self.f_exact(tk)

    def nonempty(self):
        return not self.empty

    def __len__(self):
        if self.empty:
            return 0
        raise OutOfSubset("len of an abstract type tuple")

    def __iter__(self):
        if self.empty:
            return iter(())
        raise OutOfSubset("iteration over an abstract type tuple")

    def __repr__(self):
        return f"ATypes({self.label}{' empty' if self.empty else ''})"


def type_token(v):
    """Name of the exact python type of a value (or of a type)."""
    if isinstance(v, type):
        return f"{v.__module__}.{v.__qualname__}"
    if isinstance(v, Kind):
        return type_token(type(v.payload["rep"]))
    if isinstance(v, Obj):
        return type_token(v.cls)
    if isinstance(v, Sym):
        return "builtins." + ("bool" if v.is_bool else "int" if v.is_int else "float" if v.is_real else "str")
    return type_token(type(v))


# ------------------------------------------------------------------------------------------------
# kinds and their representatives (A7)
# ------------------------------------------------------------------------------------------------

_REPS = {}
KIND_FACTS = {}
_TMPDIRS = []


def _cleanup():
    for d in _TMPDIRS:
        shutil.rmtree(d, ignore_errors=True)


atexit.register(_cleanup)


def _rep(kind):
    if kind in _REPS:
        return _REPS[kind]
    import logging
    import pathlib

    import numpy as np
    import torch

    if kind in ("module", "optimizer", "scheduler"):
        lin = torch.nn.Linear(1, 1)
        opt = torch.optim.SGD(lin.parameters(), lr=0.1)
        _REPS["module"], _REPS["optimizer"] = lin, opt
        _REPS["scheduler"] = torch.optim.lr_scheduler.StepLR(opt, 1)
    elif kind == "tensor":
        _REPS[kind] = torch.ones(2)
    elif kind == "tensor_grad":
        _REPS[kind] = torch.ones(2, requires_grad=True)
    elif kind == "tensor_nonleaf":
        _REPS[kind] = torch.ones(2, requires_grad=True) * 3 + 1  # result of a differentiable op: requires_grad, grad_fn is not None
    elif kind == "parameter":
        _REPS[kind] = torch.nn.Parameter(torch.ones(2))
    elif kind == "tlogger":
        from torch.utils.tensorboard import SummaryWriter

        d = tempfile.mkdtemp(prefix="pyvc_tb_")
        _TMPDIRS.append(d)
        w = SummaryWriter(log_dir=d)
        w.close()
        _REPS[kind] = w
    elif kind == "pylogger":
        _REPS[kind] = logging.getLogger("pyvc.representative")
    elif kind == "ndarray":
        _REPS[kind] = np.zeros(2)
    elif kind == "npint":
        _REPS[kind] = np.int64(1)
    elif kind == "npfloat":
        _REPS[kind] = np.float32(1)
    elif kind == "npbool":
        _REPS[kind] = np.bool_(True)
    elif kind == "npcomplex":
        _REPS[kind] = np.complex64(1)
    elif kind == "path":
        _REPS[kind] = pathlib.Path("a")
    elif kind.startswith("rng:"):
        _REPS[kind] = np.random.Generator(getattr(np.random, kind[4:])(0))
    elif kind == "torchgen":
        _REPS[kind] = torch.Generator()
    elif kind == "other":
        _REPS[kind] = b"x"
    elif kind == "pycomplex":
        _REPS[kind] = 1j
    else:
        raise OutOfSubset(f"no representative for kind {kind}")
    return _REPS[kind]


SYM_REPS = {"bool": True, "int": 0, "float": 0.0, "str": ""}


def rep_of(x):
    """Real representative used for kind facts."""
    if isinstance(x, Kind):
        return x.payload["rep"]
    if isinstance(x, Sym):
        return SYM_REPS["bool" if x.is_bool else "int" if x.is_int else "float" if x.is_real else "str"]
    raise OutOfSubset(f"no representative for {type(x).__name__}")


def kind_name(x):
    if isinstance(x, Kind):
        return x.kind
    if isinstance(x, Sym):
        return "py" + ("bool" if x.is_bool else "int" if x.is_int else "float" if x.is_real else "str")
    if isinstance(x, Obj):
        return "obj:" + x.cls.__name__
    return type(x).__name__


def mk_kind(kind, **payload):
    return Kind(kind, rep=_rep(kind), **payload)


# attributes answered from the representative (kind constants; they never reach the decoded value)
REP_ATTRS = {
    "tensor": {"shape", "dtype", "device"},
    "parameter": {"shape", "dtype", "device"},
    "tlogger": {"log_dir", "comment", "max_queue", "flush_secs", "filename_suffix"},
    "pylogger": {"name", "level"},
    "module": {"_non_persistent_buffers_set", "_buffers"},
}


class GradFn:
    """stands for the autograd node of a non-leaf tensor (only its None-ness is observable)"""

    _pyvc_value = True


def tensor_rep(rg, leaf=True):
    return _rep("tensor_nonleaf" if not leaf else "tensor_grad" if rg else "tensor")


def kind_getattr(interp, k, name):
    p = k.payload
    rep = p["rep"]
    if name == "__class__":
        return type(rep)
    kd = k.kind
    if kd in ("tensor", "parameter"):
        # autograd state of a tensor: requires_grad flag and leaf-ness are part of the abstract value
        rg = p.get("rg", bool(rep.requires_grad))
        leaf = p.get("leaf", True)
        if name == "requires_grad":
            return rg
        if name == "is_leaf":
            return leaf
        if name == "grad_fn":
            return None if leaf else GradFn()
        if name == "detach":
            # same values / dtype, cut from the graph: requires_grad False, no grad_fn, plain Tensor
            return lambda _k=k: Kind("tensor", rep=tensor_rep(False), tok=_k.payload.get("tok"), rg=False, leaf=True)
        if name == "requires_grad_":
            def requires_grad_(flag=True, _k=k):
                if not _k.payload.get("leaf", True) and not flag:
                    raise RuntimeError("you can only change requires_grad flags of leaf variables")
                _k.payload["rg"] = bool(flag)
                if _k.kind == "tensor":
                    _k.payload["rep"] = tensor_rep(bool(flag), _k.payload.get("leaf", True))
                return _k
            return requires_grad_
    if kd == "ndarray":
        if name == "ndim":
            return len(p["shape"])
        if name == "shape":
            return p["shape"]
        if name == "dtype":
            return p["dtype"]
        if name == "size":
            r = 1
            for d in p["shape"]:
                r = r * d
            return r
        if name == "item":
            def item(_k=k):
                pp = _k.payload
                if pp["shape"] != () and not all(isinstance(d, int) and d == 1 for d in pp["shape"]):
                    raise ValueError("can only convert an array of size 1 to a Python scalar")
                return Kind("pyscalar", rep=0.0, tok=("item", pp["data"]))
            return item
        if name == "tobytes":
            def tobytes(_k=k):
                pp = _k.payload
                d = pp["data"]
                if isinstance(d, tuple) and d and d[0] == "bytes":
                    return ABytes(d[1], pp["shape"][0])
                n = 1
                for x in pp["shape"]:
                    n = n * x
                return ABytes(("raw", id(pp["dtype"]), d), fresh_len(n))
            return tobytes
        if name == "tolist":
            def tolist(_k=k):
                pp = _k.payload
                d = pp["data"]
                if isinstance(d, tuple) and d and d[0] == "seq":
                    return list(d[1])
                raise OutOfSubset("tolist() of an opaque array")
            return tolist
    if kd == "path":
        if name == "expanduser":
            def expanduser(_k=k):
                # a leading '~' / '~user' component is replaced by a home directory of the running process (unspecified; an unknown user
                # raises RuntimeError); any other path is returned unchanged
                ctx = cur()
                pt = sterm(_k.payload["p"])
                tilde = z3.PrefixOf(z3.StringVal("~"), pt)
                if ctx.branch(tilde):
                    if ctx.branch(z3.Bool(ctx.fresh_name("unknown_user"))):
                        raise RuntimeError("Could not determine home directory.")
                    h = StrSym(z3.String(ctx.fresh_name("expanded_home_path")))
                    return Kind("path", rep=_k.payload["rep"], p=h)
                return _k
            return expanduser
    if kd in ("npint", "npfloat", "npbool", "npcomplex"):
        if name == "item":
            def item(_k=k):
                if _k.kind == "npcomplex":
                    return Kind("pycomplex", rep=1j, tok=("item-of", id(_k)))  # python complex with the scalar's value
                return _k.payload["v"]
            return item
        if name == "dtype":
            return DType(str(rep.dtype))
    if kd.startswith("rng:"):
        if name == "bit_generator":
            return Kind("bitgen", rep=rep.bit_generator)
    if kd == "bitgen":
        if name == "state":
            return rep.state
    if kd == "pylogger" and name == "setLevel":
        return lambda level: None
    if kd == "module":
        # the representative is a leaf module (no children): its module tree is itself; a rebound buffer-set attribute is kept on the abstract value
        if name == "modules":
            return lambda _k=k: [_k]
        if name == "_non_persistent_buffers_set" and "npbs" in p:
            return p["npbs"]
    if name in REP_ATTRS.get(kd, ()):
        return getattr(rep, name)
    if name in ("__module__",):
        return getattr(rep, name)
    if not hasattr(rep, name):
        raise RaiseSig(AttributeError(f"{type(rep).__name__!r} object has no attribute {name!r}"))
    raise OutOfSubset(f"attribute {name!r} of a value of kind {kd}")


def fresh_len(n):
    if isinstance(n, int):
        return n
    return n


def record_fact(x, what, arg, val):
    KIND_FACTS[(kind_name(x), what, arg)] = bool(val)
    return val


def _tname(t):
    if isinstance(t, tuple):
        return "(" + ",".join(_tname(x) for x in t) + ")"
    return getattr(t, "__name__", repr(t))


# ------------------------------------------------------------------------------------------------
# ghost file system (whole-tree granularity)
# ------------------------------------------------------------------------------------------------


class FSNode:
    def __init__(self, kind, tree=None, ok=True, initial=False):
        self.kind = kind  # 'dir' | 'zip' | 'file'
        self.tree = tree  # AGroup stored below a directory / inside a zip (None: no zarr content)
        self.ok = ok      # zip: entries were archived under their path relative to the zipped directory
        self.initial = initial  # existed before the code under contract ran


class GhostFS:
    """Paths are names (str / StrSym).  One node per path that the code under contract can touch.

    lazy=True: the initial state is arbitrary - the first query of an unknown path decides (forks) whether it exists
    and whether it is a directory; the decisions are recorded in `decisions` [(path, exists term, isdir term)]."""

    def __init__(self, lazy=False):
        self.nodes = SMap()
        self.ntmp = 0
        self.events = []
        self.lazy = lazy
        self.decisions = []

    def node(self, p):
        if isinstance(p, Kind) and p.kind == "path":
            p = p.payload["p"]
        i = self.nodes.find(p)
        if i is not None:
            return self.nodes.entries[i][1]
        if not self.lazy:
            return None
        ctx = cur()
        e = z3.Bool(ctx.fresh_name("fs_exists"))
        d = z3.Bool(ctx.fresh_name("fs_isdir"))
        self.decisions.append((p, e, d))
        if not ctx.branch(e):
            self.nodes[p] = None
            return None
        n = FSNode("dir" if ctx.branch(d) else "file", initial=True)
        self.nodes[p] = n
        return n

    def live(self):
        return [(k, n) for k, n in self.nodes.items() if n is not None]


def fs_of(ctx):
    fs = ctx.ghost.get("fs")
    if fs is None:
        fs = ctx.ghost["fs"] = GhostFS()
    return fs


def _pstr(p):
    return p.payload["p"] if isinstance(p, Kind) and p.kind == "path" else p


class AStore:
    _pyvc_value = True

    def __init__(self, path):
        self.path = _pstr(p) if (p := path) is not None else None


class ATempDir:
    _pyvc_value = True

    def __init__(self, fs):
        fs.ntmp += 1
        self.name = f"/ghost-tmp/{fs.ntmp}"
        self.fs = fs
        fs.nodes[self.name] = FSNode("dir")
        fs.events.append(("mkdtemp", self.name))

    def cleanup(self):
        self.fs.nodes[self.name] = None
        self.fs.events.append(("rmtemp", self.name))


class WholeTree:
    """Stands for the list of all files below `root` (os.walk granularity of the ghost file system)."""

    _pyvc_value = True

    def __init__(self, root, joined=False, rel_to=None):
        self.root = root
        self.joined = joined
        self.rel_to = rel_to


class AZip:
    _pyvc_value = True

    def __init__(self, fs, path, mode):
        self.fs, self.path, self.mode = fs, path, mode
        self.tree = None
        self.ok = True
        self.nwrites = 0

    def write(self, filename, arcname=None, **kw):
        if self.mode != "w":
            raise ValueError("write() requires mode 'w'")
        if not isinstance(filename, WholeTree) or not filename.joined:
            raise OutOfSubset("ZipFile.write of something that is not a walked file path")
        n = self.fs.node(filename.root)
        if n is None or n.kind != "dir":
            raise FileNotFoundError(show(filename.root))
        self.tree = n.tree
        self.nwrites += 1
        # entries land where extractall() will look for them only if archived relative to the walked root
        self.ok = isinstance(arcname, WholeTree) and arcname.rel_to is not None and keq(arcname.rel_to, filename.root) and keq(arcname.root, filename.root)

    def extractall(self, dest, *a, **kw):
        if self.mode != "r":
            raise ValueError("extractall() requires mode 'r'")
        n = self.fs.node(self.path)
        self.fs.nodes[_pstr(dest)] = FSNode("dir", tree=n.tree if n.ok else None)
        self.fs.events.append(("extract", dest))


# ------------------------------------------------------------------------------------------------
# install
# ------------------------------------------------------------------------------------------------


def install(reg):
    import gzip

    import dill
    import numpy as np
    import torch

    M = reg.models

    # ---- strings
    def attr_str(interp, base, name):
        if is_strsym(base):
            if name == "__class__":
                return str
            b = as_name(base)
            if hasattr(StrSym, name) and not name.startswith("__"):
                return getattr(b, name)
            raise OutOfSubset(f"str method {name} on a symbolic string")
        return NotImplemented

    reg.attr_models[StrSym] = attr_str
    prev_sym_attr = reg.attr_models.get(Sym)

    def attr_sym(interp, base, name):
        if is_strsym(base):
            return attr_str(interp, base, name)
        if name == "__class__":
            return bool if base.is_bool else int if base.is_int else float
        return prev_sym_attr(interp, base, name) if prev_sym_attr else NotImplemented

    reg.attr_models[Sym] = attr_sym

    def cmp_str(interp, op, a, b):
        import ast as _ast

        if is_strsym(a) or is_strsym(b):
            if op not in (_ast.Eq, _ast.NotEq):
                raise OutOfSubset("ordering comparison of symbolic strings")
            if is_name(a) and is_name(b):
                t = sterm(a) == sterm(b)
                return Sym(t if op is _ast.Eq else z3.Not(t))
            return op is _ast.NotEq
        return NotImplemented

    reg.cmp_models[Sym] = cmp_str
    reg.cmp_models[StrSym] = cmp_str

    def m_str(interp, x=""):
        if is_strsym(x):
            return as_name(x)
        if isinstance(x, Kind):
            if x.kind == "path":
                return as_name(x.payload["p"])
            raise OutOfSubset(f"str() of a value of kind {x.kind}")
        if isinstance(x, Sym) and x.is_bool:
            return StrSym(z3.If(x.t, z3.StringVal("True"), z3.StringVal("False")))
        if isinstance(x, Sym) and x.is_int:
            return StrSym(z3.If(x.t >= 0, z3.IntToStr(x.t), z3.Concat(z3.StringVal("-"), z3.IntToStr(-x.t))))
        if isinstance(x, Sym):
            raise OutOfSubset("str() of a symbolic float")
        if contains_sym(x):
            return "<str of symbolic value>"
        return interp.native(str, x)

    M[str] = m_str

    # ---- kind facts
    def isinstance_model(interp, x, t):
        if isinstance(t, ATypes):
            if t.empty:
                return False
            return Sym(t.match(x))
        if isinstance(x, Kind):
            if isinstance(t, tuple) and any(isinstance(e, ATypes) for e in t):
                raise OutOfSubset("mixed abstract/concrete type tuple")
            return record_fact(x, "isinstance", _tname(t), isinstance(x.payload["rep"], t))
        if isinstance(x, (AGroup, AArray, ABytes, SymSet, JsonNames, WholeTree)):
            return False if t is not object else True
        return NotImplemented

    reg.isinstance_model = isinstance_model

    def hasattr_model(interp, x, name):
        if isinstance(x, (Kind, Sym)):
            if not isinstance(name, str):
                raise OutOfSubset("hasattr with a symbolic name on a kind-abstract value")
            return record_fact(x, "hasattr", name, hasattr(rep_of(x), name))
        raise OutOfSubset(f"hasattr on {type(x).__name__}")

    reg.hasattr_model = hasattr_model

    def m_hasattr(interp, x, name):
        if isinstance(x, Obj):
            return obj_hasattr(interp, x, name)
        if isinstance(x, (Sym, Kind)):
            return hasattr_model(interp, x, name)
        if not isinstance(name, str):
            if isinstance(x, type):
                # class-level attribute with a symbolic name: by the name precondition (not a class attribute name) -> False
                return False
            raise OutOfSubset("hasattr with symbolic name on a native object")
        return hasattr(x, name)

    M[hasattr] = m_hasattr

    def m_type(interp, x, *rest):
        if rest:
            return interp.native(type, x, *rest)
        if isinstance(x, Obj):
            return x.cls
        if isinstance(x, Kind):
            if x.kind == "loaded":
                of = x.payload["enc"].value
                return of.cls if isinstance(of, Obj) else type(of)
            return type(x.payload["rep"])
        if isinstance(x, Sym):
            return bool if x.is_bool else int if x.is_int else float if x.is_real else str
        return type(x)

    M[type] = m_type

    def contains_types(interp, types, item):
        if types.empty:
            return False
        return Sym(types.exact(item))

    reg.contains_models[ATypes] = contains_types
    reg.contains_models[SymSet] = lambda interp, s, item: s.has(item) if is_name(item) else False

    reg.attr_models[Kind] = kind_getattr

    def kind_setattr(interp, k, name, v):
        if k.kind == "module" and name == "_non_persistent_buffers_set":
            k.payload["npbs"] = v
            return None
        raise OutOfSubset(f"assignment to attribute {name!r} of a value of kind {k.kind}")

    reg.setattr_models.setdefault(Kind, kind_setattr)
    # torch: Module.modules() walks the REGISTERED submodules (_modules); an abstract object whose attributes were set through __dict__ has none
    def m_module_getattr(interp, self_, name):
        # torch: Module.__init__ creates empty _parameters / _buffers / _modules dicts; __getattr__ looks a missing name up in them
        if isinstance(self_, Obj) and isinstance(name, str):
            if name in ("_parameters", "_buffers", "_modules"):
                return {}
            raise RaiseSig(AttributeError(f"'{self_.cls.__name__}' object has no attribute '{name}'"))
        raise OutOfSubset("torch.nn.Module.__getattr__ on an abstract value")

    M[torch.nn.Module.__getattr__] = m_module_getattr
    M[torch.nn.Module.modules] = lambda interp, self_: [self_] if isinstance(self_, (Obj, Kind)) else list(torch.nn.Module.modules(self_))

    def set_native(interp, base, key, v):
        try:
            base[key] = v
        except (OutOfSubset, RaiseSig, PathEnd):
            raise
        except Exception as e:  # library exceptions are paths
            raise RaiseSig(e)

    for _t in (AAttrs, AArray, SMap, dict):
        reg.setitem_models[_t] = set_native
    reg.method_models[(list, "append")] = lambda interp, l, x: l.append(x)

    # ---- abstract AutoSerialize objects: fields are an SMap
    def obj_attr(interp, o, name):
        if name == "__class__":
            return o.cls
        if name == "__dict__":
            return o.fields
        if not isinstance(name, str):
            i = o.fields.find(name)
            if i is None:
                raise RaiseSig(AttributeError(show(name)))
            return o.fields.entries[i][1]
        return NotImplemented

    reg.attr_models[Obj] = obj_attr

    def obj_hasattr(interp, o, name):
        if isinstance(o.fields, SMap):
            if name in o.fields:
                return True
            if not isinstance(name, str):
                return False  # name precondition: symbolic names are not class-level attribute names
            return hasattr(o.cls, name)
        try:
            interp.getattr(o, name)
            return True
        except RaiseSig as r:
            if isinstance(r.exc, AttributeError):
                return False
            raise

    def m_setattr(interp, x, name, v):
        if isinstance(x, Obj) and isinstance(x.fields, SMap):
            x.fields[name] = v
            return None
        interp.setattr(x, name, v)

    M[setattr] = m_setattr

    def m_delattr(interp, x, name):
        if isinstance(x, Obj):
            if name in x.fields:
                del x.fields[name]
                return None
            raise RaiseSig(AttributeError(show(name)))
        return interp.native(delattr, x, name)

    M[delattr] = m_delattr

    def m_getattr(interp, x, name, *default):
        try:
            if isinstance(x, Obj) and not isinstance(name, str):
                return obj_attr(interp, x, name)
            return interp.getattr(x, name)
        except RaiseSig as r:
            if default and isinstance(r.exc, AttributeError):
                return default[0]
            raise

    M[getattr] = m_getattr

    def m_dir(interp, x):
        if isinstance(x, Obj):
            return sorted(dir(x.cls)) + list(x.fields.keys())
        return interp.native(dir, x)

    M[dir] = m_dir

    def m_new(interp, cls, *a, **k):
        if isinstance(cls, type) and (cls.__module__ or "").startswith(("contracts", reg.repo_prefix)):
            o = Obj(cls)
            object.__setattr__(o, "fields", SMap())
            return o
        return interp.native(object.__new__, cls, *a, **k)

    M[object.__new__] = m_new

    reg.method_models[(set, "add")] = lambda interp, s, x: s.add(x)
    reg.ctor_models[set] = lambda interp, *a: set(*a) if not (a and isinstance(a[0], (JsonNames, SymSet))) else (a[0].of if isinstance(a[0], JsonNames) else a[0])

    def m_list(interp, xs=()):
        if isinstance(xs, SymSet):
            return JsonNames(xs, "names")
        if isinstance(xs, (AAttrs, SMap)):
            return list(xs.keys())
        if isinstance(xs, (list, tuple, set, frozenset, dict)):
            return list(xs)
        return prev_list(interp, xs)

    prev_list = M[list]
    M[list] = m_list

    def m_len(interp, x):
        if isinstance(x, (list, tuple, dict, set, frozenset, str, SMap, AAttrs)):
            return len(x)
        return prev_len(interp, x)

    prev_len = M[len]
    M[len] = m_len

    prev_int = M[int]

    def m_int(interp, x=0, *rest):
        if isinstance(x, Kind):
            raise OutOfSubset(f"int() of a value of kind {x.kind}")
        return prev_int(interp, x, *rest)

    M[int] = m_int

    prev_bool = M[bool]

    def m_bool(interp, x=False):
        if isinstance(x, Kind):
            raise OutOfSubset(f"bool() of a value of kind {x.kind}")
        return prev_bool(interp, x)

    M[bool] = m_bool

    # ---- bytes / pickles
    reg.ctor_models[io.BytesIO] = lambda interp, *a: ABuffer(a[0] if a else None)

    def m_torch_save(interp, value, buf, *a, **k):
        if not isinstance(buf, ABuffer):
            raise OutOfSubset("torch.save into something that is not a BytesIO")
        n = interp.ctx.fresh("torch_pickle_len", "int")
        interp.ctx.assume(n.t >= 1)
        buf.content = ABytes(("torch", value), n)
        buf.pos_at_start = False
        return None

    M[torch.save] = m_torch_save

    def m_torch_load(interp, buf, *a, map_location=None, weights_only=None, **k):
        c = buf.content if isinstance(buf, ABuffer) else None
        if not isinstance(buf, ABuffer) or not buf.pos_at_start:
            raise RaiseSig(EOFError("torch.load from an exhausted / foreign buffer"))
        if isinstance(c, ABytes) and isinstance(c.tok, tuple) and c.tok and c.tok[0] == "torch":
            if weights_only is not False:
                raise RaiseSig(RuntimeError("torch.load(weights_only=True) rejects arbitrary pickles"))
            v = c.tok[1]
            if isinstance(v, Kind) and v.kind in ("tensor", "parameter"):
                # a fresh tensor object: values, dtype, class and requires_grad are pickled; the autograd graph (grad_fn) is not,
                # so a non-leaf tensor comes back as a leaf with the same requires_grad flag
                rg = v.payload.get("rg", bool(v.payload["rep"].requires_grad))
                return Kind(v.kind, rep=tensor_rep(rg) if v.kind == "tensor" else v.payload["rep"], tok=v.payload.get("tok"), rg=rg, leaf=True)
            return v
        raise RaiseSig(RuntimeError("torch.load: not a torch pickle"))

    M[torch.load] = m_torch_load

    def m_dill_dumps(interp, v, *a, **k):
        n = interp.ctx.fresh("dill_len", "int")
        interp.ctx.assume(n.t >= 1)
        return ABytes(("dill", v), n)

    M[dill.dumps] = m_dill_dumps

    def m_dill_loads(interp, b, *a, **k):
        if isinstance(b, ABytes) and isinstance(b.tok, tuple) and b.tok and b.tok[0] == "dill":
            return b.tok[1]
        raise RaiseSig(dill.UnpicklingError("not a dill pickle"))

    M[dill.loads] = m_dill_loads

    def m_gzip_compress(interp, b, *a, **k):
        n = interp.ctx.fresh("gzip_len", "int")
        interp.ctx.assume(n.t >= 1)
        return ABytes(("gzip", b), n)

    M[gzip.compress] = m_gzip_compress

    def m_gzip_decompress(interp, b, *a, **k):
        if isinstance(b, ABytes) and isinstance(b.tok, tuple) and b.tok and b.tok[0] == "gzip":
            return b.tok[1]
        raise RaiseSig(gzip.BadGzipFile("Not a gzipped file"))

    M[gzip.decompress] = m_gzip_decompress

    # ---- numpy
    def m_frombuffer(interp, b, dtype=None, **k):
        if not isinstance(b, ABytes):
            raise OutOfSubset("np.frombuffer of a non-abstract buffer")
        if dtype not in ("uint8", np.uint8):
            raise OutOfSubset("np.frombuffer with a dtype other than uint8")
        return mk_ndarray("uint8", (b.length,), ("bytes", b.tok))

    M[np.frombuffer] = m_frombuffer

    def m_empty(interp, shape, dtype=None, **k):
        if isinstance(shape, (int, Sym)):
            shape = (shape,)
        return mk_ndarray(dtype, tuple(shape), fresh_tok("uninitialised"))

    M[np.empty] = m_empty

    def _filled(tag, prev):
        def h(interp, shape, dtype=None, *a, **k):
            if not contains_sym(shape) and not isinstance(dtype, DType):
                return prev(interp, shape, dtype, *a, **k) if prev is not None else interp.native(getattr(np, tag), shape, dtype, *a, **k)
            if isinstance(shape, (int, Sym)):
                shape = (shape,)
            # numpy default dtype is float64
            return mk_ndarray(dtype if dtype is not None else DType("float64"), tuple(shape), (tag, tuple(id(d) for d in shape)))
        return h

    for _tag in ("zeros", "ones"):
        M[getattr(np, _tag)] = _filled(_tag, M.get(getattr(np, _tag)))

    prev_asarray = M.get(np.asarray)

    def m_asarray(interp, x, dtype=None, **k):
        if isinstance(x, Kind) and x.kind == "ndarray":
            return x
        if isinstance(x, Kind) and x.kind == "npscalar0":
            return mk_ndarray(x.payload["dtype"], (), x.payload["data"])
        if isinstance(x, Kind) and x.kind in ("npint", "npfloat", "npbool", "npcomplex"):
            # 0-d array holding the numpy scalar's value
            return mk_ndarray(DType(str(x.payload["rep"].dtype)), (), ("np0", id(x)))
        if isinstance(x, (list, tuple)) and all(is_numeric_value(v) for v in x):
            if dtype is None:
                # numpy finds the common dtype: every element keeps its numeric value (A1/A2)
                return mk_ndarray(DType(promoted_dtype(x)), (len(x),), ("seq", tuple(numeric_of(v) for v in x)))
            # an explicit dtype CASTS every element (int: truncation, bool: != 0, narrower float: rounding)
            return mk_ndarray(DType(getattr(dtype, "__name__", str(dtype))), (len(x),), ("seq", tuple(cast_numeric(interp.ctx, v, dtype) for v in x)))
        if dtype is not None and isinstance(dtype, type):
            raise OutOfSubset("np.asarray(value, dtype=<type>) of a non-sequence abstract value")
        if prev_asarray is not None and not isinstance(x, (Kind, list, tuple)):
            return prev_asarray(interp, x, dtype=dtype, **k)
        raise OutOfSubset("np.asarray of a non-numeric abstract value")

    M[np.asarray] = m_asarray
    M[np.array] = m_asarray
    M[np.asanyarray] = m_asarray

    def _atleast(nd, what):
        """numpy: ascontiguousarray / asfortranarray / require(..) / atleast_1d return an array with ndim >= 1 (atleast_2d/3d: >= 2/3):
        a 0-d input comes back with shape (1,)*nd holding the same single element; an input that already has enough dimensions keeps
        dtype, shape and contents (memory layout is not part of the abstract array)."""
        def h(interp, x, dtype=None, **k):
            if k and set(k) - {"like"}:
                raise OutOfSubset(f"{what} keyword(s) {sorted(k)}")
            a = m_asarray(interp, x, dtype=dtype) if not (isinstance(x, Kind) and x.kind == "ndarray" and dtype is None) else x
            if not (isinstance(a, Kind) and a.kind == "ndarray"):
                return interp.native(getattr(np, what), x) if dtype is None else interp.native(getattr(np, what), x, dtype)
            p = a.payload
            shape = tuple(p["shape"])
            if len(shape) >= nd:
                return mk_ndarray(p["dtype"], shape, p["data"], rep=p["rep"])
            if what in ("atleast_2d", "atleast_3d") and len(shape) >= 1:
                raise OutOfSubset(f"{what} of an abstract array with 0 < ndim < {nd}")
            return mk_ndarray(p["dtype"], (1,) * nd, p["data"])
        return h

    M[np.ascontiguousarray] = _atleast(1, "ascontiguousarray")
    M[np.asfortranarray] = _atleast(1, "asfortranarray")
    _al1, _al2, _al3 = _atleast(1, "atleast_1d"), _atleast(2, "atleast_2d"), _atleast(3, "atleast_3d")
    M[np.atleast_1d] = lambda interp, x: _al1(interp, x)
    M[np.atleast_2d] = lambda interp, x: _al2(interp, x)
    M[np.atleast_3d] = lambda interp, x: _al3(interp, x)

    def m_from_numpy(interp, x):
        if isinstance(x, Kind) and x.kind == "ndarray":
            return Kind("tensor", rep=_rep("tensor"), tok=("from_numpy", x.payload["data"]))
        return interp.native(torch.from_numpy, x)

    M[torch.from_numpy] = m_from_numpy

    # ---- pathlib / logging / tensorboard
    import logging
    import pathlib

    def c_path(interp, *a):
        if len(a) == 1 and is_strsym(a[0]):
            return Kind("path", rep=_rep("path"), p=as_name(a[0]))
        if len(a) >= 1 and any(x is None or isinstance(x, (list, tuple, dict, set)) or (isinstance(x, Sym) and not is_strsym(x)) for x in a):
            # pathlib: every component must be a str or an os.PathLike object
            raise RaiseSig(TypeError("argument should be a str or an os.PathLike object where __fspath__ returns a str"))
        if contains_sym(a):
            raise OutOfSubset("Path() of abstract components")
        return interp.native(pathlib.Path, *a)

    reg.ctor_models[pathlib.Path] = c_path

    def m_getlogger(interp, name=None):
        return Kind("pylogger", rep=_rep("pylogger"), made_by="logging.getLogger", name=name)

    M[logging.getLogger] = m_getlogger

    try:
        from torch.utils.tensorboard import SummaryWriter

        def c_sw(interp, *a, **k):
            return Kind("tlogger", rep=_rep("tlogger"), made_by="SummaryWriter", args=k)

        reg.ctor_models[SummaryWriter] = c_sw
    except Exception:  # tensorboard not installed: the branch raises ImportError natively
        pass

    # ---- os / shutil / tempfile / zipfile / zarr on the ghost file system
    import zipfile

    import zarr
    from zarr.storage import LocalStore

    def fs(interp):
        return fs_of(interp.ctx)

    def m_exists(interp, p):
        return fs(interp).node(p) is not None

    def m_isdir(interp, p):
        n = fs(interp).node(p)
        return n is not None and n.kind == "dir"

    M[os.path.exists] = m_exists
    M[os.path.lexists] = m_exists  # this ghost file system has no symbolic links (C08's has): lexists == exists
    M[os.path.isdir] = m_isdir

    def m_rmtree(interp, p, *a, **k):
        f = fs(interp)
        n = f.node(p)
        if n is None or n.kind != "dir":
            raise RaiseSig(NotADirectoryError(show(p)))
        f.nodes[p] = None
        f.events.append(("rmtree", p))

    def m_remove(interp, p):
        f = fs(interp)
        n = f.node(p)
        if n is None:
            raise RaiseSig(FileNotFoundError(show(p)))
        if n.kind == "dir":
            raise RaiseSig(IsADirectoryError(show(p)))
        f.nodes[p] = None
        f.events.append(("remove", p))

    M[shutil.rmtree] = m_rmtree
    M[os.remove] = m_remove

    def m_makedirs(interp, p, exist_ok=False, **k):
        f = fs(interp)
        n = f.node(p)
        if n is not None:
            if n.kind != "dir" or not exist_ok:
                raise RaiseSig(FileExistsError(show(p)))
            return None
        f.nodes[_pstr(p)] = FSNode("dir")
        f.events.append(("makedirs", p))

    M[os.makedirs] = m_makedirs

    def m_splitext(interp, p):
        if isinstance(p, str):
            return os.path.splitext(p)
        ctx = interp.ctx
        root = StrSym(z3.String(ctx.fresh_name("splitext_root")))
        ext = StrSym(z3.String(ctx.fresh_name("splitext_ext")))
        t = sterm(p)
        ctx.assume(t == z3.Concat(root.t, ext.t))
        # ext is empty or starts with '.' and contains no further '.' or '/'
        ctx.assume(z3.Or(z3.Length(ext.t) == 0,
                         z3.And(z3.PrefixOf(z3.StringVal("."), ext.t), z3.Not(z3.Contains(z3.SubString(ext.t, 1, z3.Length(ext.t)), z3.StringVal("."))),
                                z3.Not(z3.Contains(ext.t, z3.StringVal("/"))))))
        # a path ending in ".zip" has extension ".zip"
        ctx.assume(z3.Implies(z3.SuffixOf(z3.StringVal(".zip"), t), ext.t == z3.StringVal(".zip")))
        # a path without any '.' has no extension
        ctx.assume(z3.Implies(z3.Not(z3.Contains(t, z3.StringVal("."))), z3.Length(ext.t) == 0))
        ctx.ghost.setdefault("splitext", []).append((p, root, ext))
        return (root, ext)

    M[os.path.splitext] = m_splitext

    reg.ctor_models[LocalStore] = lambda interp, p, **k: AStore(p)

    def m_zarr_group(interp, store=None, overwrite=False, **k):
        if not isinstance(store, AStore):
            raise OutOfSubset("zarr.group on a non-abstract store")
        f = fs(interp)
        n = f.node(store.path)
        if n is None or n.kind != "dir":
            raise RaiseSig(FileNotFoundError(show(store.path)))
        if overwrite or n.tree is None:
            n.tree = AGroup()
            f.events.append(("zarr.group:new", store.path))
        return n.tree

    M[zarr.group] = m_zarr_group
    M[zarr.open_group] = m_zarr_group

    reg.ctor_models[tempfile.TemporaryDirectory] = lambda interp, *a, **k: ATempDir(fs(interp))

    def with_tmp(interp, cm, phase):
        if phase == "enter":
            return cm.name
        cm.cleanup()

    reg.with_models[ATempDir] = with_tmp

    def c_zip(interp, path, mode="r", **k):
        f = fs(interp)
        path = _pstr(path)
        if mode == "r":
            n = f.node(path)
            if n is None:
                raise RaiseSig(FileNotFoundError(show(path)))
            if n.kind != "zip":
                raise RaiseSig(zipfile.BadZipFile("File is not a zip file") if n.kind == "file" else IsADirectoryError(show(path)))
        elif mode == "w":
            n = f.node(path)
            if n is not None and n.kind == "dir":
                raise RaiseSig(IsADirectoryError(show(path)))
            f.nodes[path] = FSNode("zip", tree=None, ok=True)  # created (truncated) on open
            f.events.append(("zip:create", path))
        else:
            raise OutOfSubset(f"ZipFile mode {mode!r}")
        return AZip(f, path, mode)

    reg.ctor_models[zipfile.ZipFile] = c_zip

    def with_zip(interp, cm, phase):
        if phase == "enter":
            return cm
        if cm.mode == "w":
            cm.fs.nodes[cm.path] = FSNode("zip", tree=cm.tree, ok=cm.ok)
            cm.fs.events.append(("zip:close", cm.path))

    reg.with_models[AZip] = with_zip

    def m_walk(interp, top, **k):
        n = fs(interp).node(top)
        if n is None or n.kind != "dir":
            return []
        return [(top, [], [WholeTree(top)])]

    M[os.walk] = m_walk

    prev_join = os.path.join

    def m_join(interp, a, *rest):
        if len(rest) == 1 and isinstance(rest[0], WholeTree):
            w = rest[0]
            if not keq(a, w.root):
                raise OutOfSubset("os.path.join of a walked file name with a foreign directory")
            return WholeTree(w.root, joined=True)
        if contains_sym((a, rest)):
            raise OutOfSubset("os.path.join of symbolic components")
        return prev_join(a, *rest)

    M[os.path.join] = m_join

    def m_relpath(interp, p, start=None):
        if isinstance(p, WholeTree) and p.joined:
            return WholeTree(p.root, joined=True, rel_to=start)
        raise OutOfSubset("os.path.relpath of a non-walked path")

    M[os.path.relpath] = m_relpath

    return reg


# ------------------------------------------------------------------------------------------------
# numeric scalars (all-numeric sequences)
# ------------------------------------------------------------------------------------------------


_ROUND = {}


def cast_numeric(ctx, v, T):
    """numpy's cast of one numeric scalar to the scalar type T (python bool/int/float or a numpy scalar type)."""
    import numpy as np

    src = v
    v = numeric_of(v)
    t = lift(v)
    if z3.is_bool(t):
        t_num = z3.If(t, z3.IntVal(1), z3.IntVal(0))
    else:
        t_num = t
    if not isinstance(T, type):
        raise OutOfSubset(f"np.asarray with dtype={T!r}")
    if T is bool or issubclass(T, np.bool_):
        return Sym(t if z3.is_bool(t) else t_num != 0)
    if T is int or issubclass(T, np.integer):
        if z3.is_int(t_num):
            return Sym(t_num)
        return Sym(z3.If(t_num >= 0, z3.ToInt(t_num), -z3.ToInt(-t_num)))  # truncation toward zero
    if T is float or T is np.float64:
        return Sym(z3.ToReal(t_num) if z3.is_int(t_num) else t_num)
    if issubclass(T, np.floating):
        # narrower float: values already of that precision (a numpy scalar of type T) or integral stay, others are ROUNDED (unspecified, A1)
        if isinstance(src, Kind) and type(src.payload["rep"]) is T:
            return Sym(t_num)
        if z3.is_int(t_num):
            return Sym(z3.ToReal(t_num))
        f = _ROUND.setdefault(T.__name__, z3.Function("round_to_" + T.__name__, z3.RealSort(), z3.RealSort()))
        return Sym(f(t_num))
    raise OutOfSubset(f"np.asarray with dtype={T.__name__}")


def is_numeric_value(v):
    if isinstance(v, Sym):
        return not z3.is_string(v.t)
    if isinstance(v, Kind):
        return v.kind in ("npint", "npfloat", "npbool")
    return isinstance(v, (int, float)) and not isinstance(v, str)


def numeric_of(v):
    if isinstance(v, Kind):
        return v.payload["v"]
    return v


def promoted_dtype(xs):
    ks = set()
    for v in xs:
        if isinstance(v, Kind):
            ks.add({"npint": "int", "npfloat": "float", "npbool": "bool"}[v.kind])
        elif isinstance(v, Sym):
            ks.add("bool" if v.is_bool else "int" if v.is_int else "float")
        elif isinstance(v, bool):
            ks.add("bool")
        elif isinstance(v, int):
            ks.add("int")
        else:
            ks.add("float")
    return "float64" if "float" in ks else "int64" if "int" in ks else "bool"
