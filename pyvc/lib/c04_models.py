"""C04 - dependence / linearity / mask-provenance TYPING domain for tensor code (TRUSTED typing rules, A6).

An abstract tensor `TT` replaces a torch tensor while the REAL AST of quantem's direct-ptychography code is interpreted by
pyvc.interp.  Nothing in this file knows quantem: it states, per torch operation, how four tags propagate.

  shape : tuple of abstract dimensions
            ("one",)             size 1 (broadcasts)
            ("c", n)             constant size n
            ("det", ax)          detector grid axis ax
            ("scan", ax, m)      scan grid axis ax, m-fold Fourier tiled (m int or z3 Int term)
            ("rows", sp)         one row per bright-field pixel of `sp`:
                                   Space(mask)  - all pixels of `mask` in row-major (torch.nonzero) order
                                   Batch(space) - the pixels of the CURRENT batch of a batcher over `space`
  dep   : 'G' global (no row axis; independent of the batch partition)
          'B' exactly one row axis, row r is a function of BF pixel r (and of globals) only
          'R' partial row sum over the current batch (additive over rows)
          'A' accumulator inside a pass: G + sum of R over the batches seen so far
          'T' untypable (poison; carries the reasons in .why)
  lin   : 'C' does not depend on the vBF data, 'L' linear (homogeneous) in it, 'N' anything else
  mk    : dependence on the MASK AS A WHOLE (beyond the identity of the row's own pixel):
          'free' none, 'AF' additive mask functional (sum over all rows of a 'free' per-row quantity),
          'free/AF' a free quantity divided by an additive functional, 'M' anything else
  kind  : 'val' numbers | 'mask' boolean detector mask (ref = Mask) | 'maskvec' a mask restricted to the rows of another
          (ref = Mask) | 'pos' integer positions into the rows of ref = Space | 'coord' pixel coordinate along detector axis ref
Typing errors never raise: they produce a poisoned value and an entry in the journal, so that the contract's obligations
(stable names) fail and name the offending statement.
"""
from __future__ import annotations

import math
import operator

import numpy as np
import torch
import z3

from .. import values as V
from ..values import Kind, Sym, SymArr, Obj, lift, OutOfSubset
from ..interp import GhostGen

ONE = ("one",)


# ------------------------------------------------------------------------------------------------ identities
class Mask:
    def __init__(self, name, sub_of=None):
        self.name = name
        self.sub_of = sub_of  # Mask of which this one is declared a sub-mask (precondition of the caller)

    def within(self, other):
        m = self
        while m is not None:
            if m is other:
                return True
            m = m.sub_of
        return False

    def __repr__(self):
        return f"mask:{self.name}"


class Space:
    """Row space: the pixels of `mask` in row-major order; `count` is a z3 Int (their number)."""

    _tab = {}

    def __init__(self, mask, count):
        self.mask = mask
        self.count = count

    def __repr__(self):
        return f"rows({self.mask.name})"


class Batch:
    """Rows of the current batch yielded by a batcher over `space`."""

    def __init__(self, space):
        self.space = space

    def __repr__(self):
        return f"batch-of-{self.space!r}"


def journal():
    g = V.cur().ghost
    j = g.get("c04")
    if j is None:
        j = g["c04"] = dict(untypable=[], writes=[], accs=[], prov=[], reads=[], spaces={}, stale=[])  # noqa
    return j


def _line():
    it = V.cur().ghost.get("interp")
    return getattr(it, "cur_line", None)


def note(cat, ok, msg):
    journal()[cat].append((bool(ok), f"line {_line()}: {msg}"))


def space_of(mask, ctx=None):
    """The unique Space of a Mask on this path (count = fresh Int >= 1: masks are non-empty by precondition)."""
    j = journal()
    sp = j["spaces"].get(id(mask))
    if sp is None:
        c = V.cur()
        n = c.fresh(f"num_bf_{mask.name}", "int")
        c.assume(n.t >= 1)
        sp = Space(mask, n)
        j["spaces"][id(mask)] = sp
    return sp


def space_with_count(n):
    """Space whose pixel count is (syntactically, after simplification) the integer n, or None."""
    if not isinstance(n, Sym) or not z3.is_int(n.t):
        return None
    t = n.t
    for sp in journal()["spaces"].values():
        if sp.count.t.eq(t):
            return sp
    if z3.is_const(t):
        return None
    t = z3.simplify(t)
    for sp in journal()["spaces"].values():
        if sp.count.t.eq(t):
            return sp
    return None


# ------------------------------------------------------------------------------------------------ dims
def _norm_mult(m):
    if isinstance(m, Sym):
        m = m.t
    if isinstance(m, int):
        return m
    m = z3.simplify(m)
    if z3.is_int_value(m):
        return m.as_long()
    return m


def scan_dim(ax, m=1):
    return ("scan", ax, _norm_mult(m))


def dim_eq(a, b):
    if a[0] != b[0]:
        return False
    if a[0] == "scan":
        if a[1] != b[1]:
            return False
        ma, mb = a[2], b[2]
        if isinstance(ma, int) and isinstance(mb, int):
            return ma == mb
        t = lift(ma) == lift(mb)
        return z3.is_true(z3.simplify(t)) or V.cur().entails(t)
    if a[0] == "rows":
        x, y = a[1], b[1]
        if type(x) is not type(y):
            return False
        if isinstance(x, Space):
            return x.mask is y.mask
        return x is y or x.space.mask is y.space.mask
    return a == b


def scale_dim(d, k):
    if d[0] == "scan":
        m = d[2]
        k = k.t if isinstance(k, Sym) else k
        return scan_dim(d[1], m * k if isinstance(m, int) and isinstance(k, int) else lift(m) * lift(k))
    if d[0] in ("one", "c"):
        n = 1 if d[0] == "one" else d[1]
        if isinstance(k, int):
            return ("c", n * k) if n * k != 1 else ONE
    return None


def dim_str(d):
    if d[0] == "scan":
        return f"scan{d[1]}x{d[2]}"
    if d[0] == "rows":
        return repr(d[1])
    if d[0] == "det":
        return f"det{d[1]}"
    return "1" if d[0] == "one" else str(d[1])


class DimInt(Kind):
    """An integer that is the size of an abstract dimension (entries of tensor.shape, gpts, scan_gpts)."""

    _pyvc_value = True

    def __init__(self, dim):
        Kind.__init__(self, "dimint")
        self.dim = dim

    def __repr__(self):
        return f"|{dim_str(self.dim)}|"


def as_dim(x):
    """Dimension denoted by a size argument (DimInt, int, or the z3 count of a row space)."""
    if isinstance(x, DimInt):
        return x.dim
    if isinstance(x, (int, np.integer)) and not isinstance(x, bool):
        return ONE if int(x) == 1 else ("c", int(x))
    if isinstance(x, Sym):
        lv = x.literal()
        if lv is not None:
            return as_dim(int(lv))
        sp = space_with_count(x)
        if sp is not None:
            return ("rows", sp)
    return None


# ------------------------------------------------------------------------------------------------ the abstract tensor
_LIN_ORDER = {"C": 0, "L": 1, "N": 2}


def lin_join(a, b):
    return a if _LIN_ORDER[a] >= _LIN_ORDER[b] else b


class TT(Kind):
    _pyvc_value = True

    def __init__(self, shape=(), dep="G", lin="C", mk="free", kind="val", ref=None, zero=False, why=(), buf=None, af=None):
        Kind.__init__(self, "tensor")
        self.af = af  # Mask over whose rows the additive functional (mk 'AF' / 'free/AF') sums
        self.shape_ = tuple(shape)
        self.dep = dep
        self.lin = lin
        self.mk = mk
        self.tkind = kind
        self.ref = ref
        self.zero = zero
        self.why = list(why)
        self.buf = buf  # row-buffer state (torch.empty with a row axis): dict(space, state, elem)

    # ---- helpers
    def __repr__(self):
        s = ",".join(dim_str(d) for d in self.shape_)
        extra = "" if self.tkind == "val" else f" {self.tkind}->{self.ref!r}"
        return f"TT[{s}] {self.dep}/{self.lin}/{self.mk}{extra}" + (f" !{self.why[:1]}" if self.dep == "T" else "")

    def clone(self, **kw):
        d = dict(shape=self.shape_, dep=self.dep, lin=self.lin, mk=self.mk, kind=self.tkind, ref=self.ref, zero=self.zero, why=self.why, af=self.af)
        d.update(kw)
        return TT(**d)

    @property
    def rows_axes(self):
        return [i for i, d in enumerate(self.shape_) if d[0] == "rows"]

    def row_dim(self):
        r = self.rows_axes
        return self.shape_[r[0]] if len(r) == 1 else None

    def _use(self):
        """Value read of this tensor as a whole: a row buffer must be completely written."""
        if self.buf is not None:
            if self.buf["state"] != "full":
                return poison(f"row buffer used as a whole while its rows are {self.buf['state']!r}", cat="writes")
            lin, mk = self.buf["elem"][:2]
            return TT(self.shape_, "B", lin, mk, af=self.buf.get("af"))
        return self

    # ---- python protocol used by the interpreted code
    @property
    def shape(self):
        return tuple(DimInt(d) for d in self.shape_)

    @property
    def ndim(self):
        return len(self.shape_)

    @property
    def real(self):
        return unary(self, "real", linear=True)

    @property
    def imag(self):
        return unary(self, "imag", linear=True)

    @property
    def device(self):
        return "cpu"

    @property
    def dtype(self):
        return torch.float32

    def numel(self):
        if len(self.shape_) == 1 and self.shape_[0][0] == "rows" and isinstance(self.shape_[0][1], Space):
            return self.shape_[0][1].count
        return untypable("numel() of a tensor that is not a full row vector", self)

    def __len__(self):
        raise TypeError("len() of an abstract tensor")

    def size(self, d=None):
        return self.shape if d is None else self.shape[d]

    def conj(self):
        return unary(self, "conj", linear=True)

    def abs(self):
        return unary(self, "abs")

    def square(self):
        return unary(self, "square")

    def sqrt(self):
        return unary(self, "sqrt")

    def exp(self):
        return unary(self, "exp")

    def sign(self):
        return unary(self, "sign")

    def clip(self, *a, **k):
        return unary(self, "clip", others=list(a) + list(k.values()))

    clamp = clip

    def clamp_min(self, *a, **k):
        return unary(self, "clamp_min", others=list(a) + list(k.values()))

    def clamp_max(self, *a, **k):
        return unary(self, "clamp_max", others=list(a) + list(k.values()))

    def to(self, *a, **k):
        return unary(self, "to", linear=True)

    def float(self):
        return unary(self, "float", linear=True)

    def clone_(self):
        return unary(self, "clone", linear=True)

    def detach(self):
        return unary(self, "detach", linear=True)

    def contiguous(self):
        return unary(self, "contiguous", linear=True)

    def cpu(self):
        return unary(self, "cpu", linear=True)

    def bool(self):
        return unary(self, "bool")

    def __neg__(self):
        return unary(self, "neg", linear=True)

    def __pos__(self):
        return self

    def __invert__(self):
        return unary(self, "not")

    def sum(self, dim=None, keepdim=False, **kw):
        return reduce_(self, "sum", kw.get("axis", dim), keepdim)

    def mean(self, dim=None, keepdim=False, **kw):
        return reduce_(self, "mean", kw.get("axis", dim), keepdim)

    def max(self, dim=None, keepdim=False):
        return reduce_(self, "max", dim, keepdim)

    def min(self, dim=None, keepdim=False):
        return reduce_(self, "min", dim, keepdim)

    def amax(self, dim=None, keepdim=False):
        return reduce_(self, "max", dim, keepdim)

    def unsqueeze(self, d):
        x = self._use()
        n = len(x.shape_) + 1
        d = d % n
        return x.clone(shape=x.shape_[:d] + (ONE,) + x.shape_[d:])

    def view(self, *sizes):
        return view_(self, sizes)

    reshape = view

    def broadcast_to(self, *sizes):
        if len(sizes) == 1 and isinstance(sizes[0], (tuple, list)):
            sizes = tuple(sizes[0])
        x = self._use()
        dims = [as_dim(s) for s in sizes]
        if any(d is None for d in dims):
            return untypable("broadcast_to with a size that is not an abstract dimension", x)
        sh = broadcast_shapes(x.shape_, tuple(dims))
        if sh is None or not all(dim_eq(a, b) for a, b in zip(sh, dims)):
            return poison(f"broadcast_to {[dim_str(d) for d in dims]} from shape {[dim_str(d) for d in x.shape_]}", x)
        return x.clone(shape=tuple(dims))

    expand = broadcast_to

    def __getitem__(self, key):
        return getitem(self, key)

    def __setitem__(self, key, value):
        setitem(self, key, value)

    def __iter__(self):
        raise TypeError("iteration over an abstract tensor")

    _INPLACE = {"mul_": operator.mul, "div_": operator.truediv, "add_": operator.add, "sub_": operator.sub}

    def __getattr__(self, name):
        """Tensor methods without a typing rule: the call is recorded as untypable (never an AttributeError of the checker)."""
        if name.startswith("_"):
            raise AttributeError(name)
        if name in TT._INPLACE:
            def inplace(other, *a, **k):
                r = binary(TT._INPLACE[name], self, other)
                if self.buf is not None:
                    r = poison(f"in-place {name} on a row buffer", self, cat="writes")
                self.__dict__.update({k2: v for k2, v in r.__dict__.items() if k2 != "buf"})
                return self
            return inplace

        def no_rule(*a, **k):
            return untypable(f"tensor method .{name}()", self)
        return no_rule

    def __bool__(self):
        raise OutOfSubset("truth value of an abstract tensor")


class Stale(TT):
    """A value that must not influence the result (state left over from an earlier call): every use is recorded."""

    def __init__(self, msg):
        TT.__init__(self, (), "T", "N", "M", why=[msg])
        self.msg = msg

    def touch(self, how):
        note("stale", False, f"{how}: {self.msg}")

    @property
    def shape(self):
        self.touch("shape read")
        return ()

    @property
    def ndim(self):
        self.touch("ndim read")
        return 0

    def _use(self):
        self.touch("value read")
        return self

    def numel(self):
        self.touch("numel read")
        return 0

    def __getitem__(self, key):
        self.touch("indexed")
        return self


def scalar(lin="C", mk="free", zero=False):
    return TT((), "G", lin, mk, zero=zero)


def poison(msg, *srcs, cat="untypable", record=True):
    why = []
    for s in srcs:
        if isinstance(s, TT) and s.dep == "T":
            why.extend(s.why)
    fresh = not why
    why = why or [msg]
    if record and fresh:
        note(cat, False, msg)
    shape = ()
    for s in srcs:
        if isinstance(s, TT):
            shape = s.shape_
            break
    return TT(shape, "T", "N", "M", why=why)


def untypable(msg, *srcs):
    return poison("no typing rule: " + msg, *srcs)


def lift_operand(x):
    """Operand of a tensor operation as TT (python / numpy / z3 scalars are global constants)."""
    if isinstance(x, TT):
        return x._use()
    if isinstance(x, (bool, int, float, complex, np.number)):
        try:
            z = (x == 0)
        except Exception:
            z = False
        return scalar(zero=bool(z))
    if isinstance(x, Sym):
        lv = x.literal()
        if lv is None:
            sp = space_with_count(x)
            if sp is not None:  # the number of pixels of a mask = sum over its rows of 1
                return TT((), "G", "C", "AF", af=sp.mask)
        return scalar(zero=(lv == 0) if lv is not None else False)
    if isinstance(x, DimInt):
        return scalar()
    if isinstance(x, torch.Tensor) and x.ndim == 0:
        return scalar(zero=bool(x == 0))
    return None


def broadcast_shapes(a, b):
    n = max(len(a), len(b))
    a = (ONE,) * (n - len(a)) + tuple(a)
    b = (ONE,) * (n - len(b)) + tuple(b)
    out = []
    for x, y in zip(a, b):
        if x == ONE:
            out.append(y)
        elif y == ONE:
            out.append(x)
        elif dim_eq(x, y):
            out.append(x)
        else:
            return None
    return tuple(out)


_MK_LINEAR = {("free", "free"): "free", ("free/AF", "free"): "free/AF", ("free", "free/AF"): "free/AF"}


def mk_mul(a, b, div=False):
    if a == "free" and b == "free":
        return "free"
    if div:
        if a == "free" and b == "AF":
            return "free/AF"
        if a == "free/AF" and b == "free":
            return "free/AF"
        if a == "AF" and b == "free":
            return "AF"
        return "M"
    if {a, b} == {"free", "free/AF"}:
        return "free/AF"
    if {a, b} == {"free", "AF"}:
        return "AF"
    return "M"


def mk_add(a, b):
    if a == b and a in ("free", "free/AF", "AF"):
        return a
    return "M"


def binary(op, a, b):
    """Elementwise a (op) b with broadcasting."""
    name = getattr(op, "__name__", str(op))
    A, B = lift_operand(a), lift_operand(b)
    if A is None or B is None:
        return untypable(f"operand of type {type(a if A is None else b).__name__} in tensor {name}", a, b)
    if A.dep == "T" or B.dep == "T":
        return poison("", A, B)
    if A.tkind != "val" or B.tkind != "val":
        if name in ("and_", "or_", "xor") and A.tkind == B.tkind == "mask":
            return TT(A.shape_, "G", "C", "free", kind="mask", ref=Mask(f"({A.ref.name}{name}{B.ref.name})"))
        return poison(f"arithmetic {name} on an index/mask tensor ({A!r}, {B!r})", A, B)
    sh = broadcast_shapes(A.shape_, B.shape_)
    if sh is None:
        return poison(f"shapes do not broadcast in {name}: {[dim_str(d) for d in A.shape_]} vs {[dim_str(d) for d in B.shape_]}", A, B)
    nrows = sum(1 for d in sh if d[0] == "rows")
    if nrows > 1:
        return poison(f"{name} combines two different row axes (outer product over BF pixels)", A, B)
    add = name in ("add", "sub", "iadd", "isub")
    mul = name in ("mul", "imul")
    div = name in ("truediv", "itruediv")
    # ---- dependence
    deps = {A.dep, B.dep}
    if deps <= {"G", "B"}:
        dep = "B" if nrows else "G"
        if "B" in deps and not nrows:
            return poison("row-dependent value without row axis", A, B)
    elif deps == {"R"} and add:
        dep = "R"
    elif deps == {"R", "G"} and (mul or (div and A.dep == "R")) and not nrows:
        dep = "R"
    elif deps == {"A", "R"} and name in ("add", "iadd") and not nrows:
        dep = "A"
    elif deps == {"A", "G"} and name in ("add", "iadd") and not nrows:
        dep = "A"
    else:
        bad = "partial row sum of the current batch" if "R" in deps else "accumulator of an unfinished pass"
        return poison(f"{bad} used in {name} with a {('/'.join(sorted(deps)))} operand: the result would depend on the batch partition", A, B,
                      cat="accs")
    # ---- linearity
    la, lb = A.lin, B.lin
    if add:
        if la == lb:
            lin = la
        elif "N" in (la, lb):
            lin = "N"
        else:  # L +- C : linear only if the constant is zero
            lin = "L" if (B.zero if lb == "C" else A.zero) else "N"
    elif mul:
        lin = "C" if la == lb == "C" else ("L" if {la, lb} == {"L", "C"} else "N")
    elif div:
        lin = "C" if la == lb == "C" else ("L" if (la, lb) == ("L", "C") else "N")
    elif name in ("pow", "ipow"):
        lin = "C" if la == lb == "C" else "N"
    else:  # comparisons, logical, mod, floordiv ...
        lin = "C" if la == lb == "C" else "N"
    # ---- mask dependence
    if add:
        mk = mk_add(A.mk, B.mk) if not (A.zero or B.zero) else (B.mk if A.zero else A.mk)
    elif mul or div:
        mk = mk_mul(A.mk, B.mk, div=div)
    else:
        mk = "free" if A.mk == B.mk == "free" else "M"
    zero = (mul and (A.zero or B.zero)) or (add and A.zero and B.zero) or (div and A.zero)
    af = A.af if A.af is not None else B.af
    if A.af is not None and B.af is not None and A.af is not B.af:
        mk = "M"  # functionals of two different masks
    if mk in ("free", "M"):
        af = None
    return TT(sh, dep, lin, mk, zero=zero, af=af)


_LINEAR_UNARY = {"real", "imag", "conj", "neg", "to", "float", "clone", "detach", "contiguous", "cpu", "double", "cfloat"}


def unary(x, name, linear=False, others=()):
    x = lift_operand(x)
    if x is None:
        return untypable(f"{name} of a non-tensor")
    if x.dep == "T":
        return poison("", x)
    for o in others:
        if isinstance(o, TT):
            return binary(operator.mod, unary(x, name, linear), o)  # pointwise in both: same rule as a non-linear binary op
    if x.tkind != "val" and name not in ("to", "not", "bool", "clone", "detach", "contiguous", "cpu"):
        return poison(f"{name} of an index/mask tensor", x)
    if x.tkind == "mask" and name == "not":
        return x.clone(ref=Mask(f"~{x.ref.name}"))
    linear = linear or name in _LINEAR_UNARY
    if x.dep in ("R", "A") and not linear:
        return poison(f"non-additive use ({name}) of a partial row sum / unfinished accumulator: depends on the batch partition", x, cat="accs")
    lin = x.lin if linear else ("C" if x.lin == "C" else "N")
    mk = x.mk if (linear or x.mk == "free") else "M"
    return x.clone(lin=lin, mk=mk, zero=x.zero and (linear or name in ("abs", "square", "sqrt", "sign", "sin")))


def _norm_dims(x, dim):
    n = len(x.shape_)
    if dim is None:
        return list(range(n))
    if isinstance(dim, (tuple, list)):
        return sorted({d % n for d in dim})
    return [dim % n]


def reduce_(x, how, dim=None, keepdim=False):
    x = lift_operand(x)
    if x.dep == "T":
        return poison("", x)
    if x.tkind != "val":
        return poison(f"{how} over an index/mask tensor", x)
    if isinstance(dim, TT) or isinstance(dim, Sym):
        return untypable(f"{how} with a non-literal dim", x)
    dims = _norm_dims(x, dim)
    if x.dep == "A":
        return poison(f"{how} of the accumulator of an unfinished pass", x, cat="accs")
    shape = tuple((ONE if keepdim else None) if i in dims else d for i, d in enumerate(x.shape_))
    shape = tuple(d for d in shape if d is not None)
    lin = x.lin if how in ("sum", "mean") else ("C" if x.lin == "C" else "N")
    rows = [i for i in dims if x.shape_[i][0] == "rows"]
    mk = x.mk
    dep = x.dep
    if rows:
        sp = x.shape_[rows[0]][1]
        if isinstance(sp, Batch):
            if how != "sum":
                return poison(f"{how} over the rows of one batch is not additive over batches: depends on the batch partition", x, cat="accs")
            dep = "R"
        else:
            dep = "G"
            mk = "AF" if (how == "sum" and x.mk == "free") else "M"
            return TT(shape, dep, lin, mk, zero=x.zero, af=sp.mask if mk == "AF" else None)
    elif how in ("max", "min") and x.dep == "R":
        return poison(f"{how} of a partial row sum", x, cat="accs")
    return TT(shape, dep, lin, mk, zero=x.zero, af=x.af)


def view_(x, sizes):
    if len(sizes) == 1 and isinstance(sizes[0], (tuple, list)):
        sizes = tuple(sizes[0])
    x = x._use()
    if x.dep == "T":
        return poison("", x)
    core = [d for d in x.shape_ if d != ONE]
    out = []
    it = iter(core)
    for s in sizes:
        if isinstance(s, int) and s == 1:
            out.append(ONE)
        elif isinstance(s, int) and s == -1:
            d = next(it, None)
            if d is None:
                out.append(ONE)
            else:
                out.append(d)
        else:
            d = as_dim(s)
            e = next(it, None)
            if d is None or e is None or not dim_eq(d, e):
                return untypable(f"view/reshape to sizes {sizes} (only insertion of size-1 axes is typed)", x)
            out.append(e)
    if next(it, None) is not None:
        return untypable(f"view/reshape to sizes {sizes} merges axes", x)
    return x.clone(shape=tuple(out))


# ------------------------------------------------------------------------------------------------ indexing
def _is_full_slice(k):
    return isinstance(k, slice) and k.start is None and k.stop is None and k.step is None


def prov(ok, msg):
    note("prov", ok, msg)


def getitem(x, key):
    if x.dep == "T":
        return poison("", x)
    keys = key if isinstance(key, tuple) else (key,)
    adv = [k for k in keys if isinstance(k, TT)]
    if any(k.dep == "T" for k in adv):
        return poison("", *adv)
    # ---- boolean detector mask
    if len(keys) == 1 and isinstance(keys[0], TT) and keys[0].tkind == "mask":
        m = keys[0]
        x = x._use()
        if len(x.shape_) < 2 or not (dim_eq(x.shape_[0], ("det", 0)) and dim_eq(x.shape_[1], ("det", 1))):
            return poison(f"boolean detector mask applied to a tensor of shape {[dim_str(d) for d in x.shape_]}", x, cat="prov")
        sp = space_of(m.ref)
        if x.tkind == "mask":
            prov(True, f"{x.ref!r} restricted to {sp!r}")
            return TT((("rows", sp),), "B", "C", "free", kind="maskvec", ref=x.ref)
        if x.dep != "G":
            return poison("mask selection from a row-dependent tensor", x)
        prov(True, f"detector-grid tensor sampled at the pixels of {m.ref!r}")
        return TT((("rows", sp),) + x.shape_[2:], "B", x.lin, x.mk)
    # ---- (coord_i, coord_j) pair on a detector grid
    if len(keys) == 2 and all(isinstance(k, TT) and k.tkind == "coord" for k in keys):
        ci, cj = keys
        x = x._use()
        ok_grid = len(x.shape_) == 2 and dim_eq(x.shape_[0], ("det", 0)) and dim_eq(x.shape_[1], ("det", 1)) and x.dep == "G"
        ok_axes = (ci.ref, cj.ref) == (0, 1)
        ri, rj = ci.row_dim(), cj.row_dim()
        ok_rows = ri is not None and rj is not None and dim_eq(ri, rj) and len(ci.shape_) == len(cj.shape_) == 1
        if not (ok_grid and ok_axes and ok_rows):
            why = ("not a global detector-grid tensor" if not ok_grid else
                   f"pixel coordinates used on the wrong axes (axis {ci.ref} coordinate on axis 0, axis {cj.ref} coordinate on axis 1)" if not ok_axes
                   else f"row/column coordinates come from different pixel sets ({ci!r} vs {cj!r})")
            return poison("detector grid indexed by pixel coordinates: " + why, x, cat="prov")
        prov(True, f"detector grid sampled at pixel coordinates of {ri[1]!r}")
        return TT((ri,), "B", x.lin, x.mk)
    # ---- integer positions into a row space
    if len(keys) == 1 and isinstance(keys[0], TT) and keys[0].tkind == "pos":
        p = keys[0]
        prow = p.row_dim()
        if prow is None or len(p.shape_) != 1:
            return untypable("position index that is not a vector", x)
        if not x.shape_ or x.shape_[0][0] != "rows":
            return poison(f"BF-pixel positions ({p!r}) index a tensor without row axis {x!r}", x, cat="prov")
        xs = x.shape_[0][1]
        if not (isinstance(xs, Space) and xs.mask is p.ref.mask):
            return poison(f"index-space mismatch: positions enumerate {p.ref!r} but the tensor's rows enumerate {xs!r}", x, cat="prov")
        if x.buf is not None:
            st = x.buf
            cur = st.get("iter")
            ok = st["state"] == "full" or (cur is not None and cur["entry"] == "full" and isinstance(prow[1], Batch) and not cur["written"])
            if not ok:
                return poison(f"read of row-buffer rows while the buffer is {st['state']!r}" + (" (rows already rewritten in this pass)" if cur and cur["written"] else ""), x,
                              cat="writes")
            lin, mk = st["elem"]
            prov(True, f"row buffer over {xs!r} read at {p!r}")
            return TT((prow,) + x.shape_[1:], "B", lin, mk)
        prov(True, f"rows of {xs!r} selected by positions into {p.ref!r}")
        return x.clone(shape=(prow,) + x.shape_[1:])
    if adv:
        return untypable(f"advanced indexing with {adv!r}", x)
    # ---- basic indexing
    x = x._use()
    if x.dep == "T":
        return poison("", x)
    n_real = sum(1 for k in keys if k is not None and k is not Ellipsis)
    out, i = [], 0
    for k in keys:
        if k is Ellipsis:
            take = len(x.shape_) - n_real
            out.extend(x.shape_[i:i + take])
            i += take
        elif k is None:
            out.append(ONE)
        elif _is_full_slice(k):
            out.append(x.shape_[i])
            i += 1
        elif isinstance(k, (int, np.integer)) and not isinstance(k, bool):
            if i >= len(x.shape_):
                return poison("too many indices", x)
            if x.shape_[i][0] == "rows":
                return poison("a single row of a per-pixel tensor selected by a literal position", x, cat="prov")
            i += 1
        else:
            return untypable(f"index {k!r}", x)
    out.extend(x.shape_[i:])
    return x.clone(shape=tuple(out), zero=x.zero)


def setitem(x, key, value):
    v = lift_operand(value)
    keys = key if isinstance(key, tuple) else (key,)
    if v is None:
        x.__dict__.update(untypable(f"assignment of {type(value).__name__} into a tensor", x).__dict__)
        return
    # ---- row buffer write
    if x.buf is not None:
        st = x.buf
        ok, msg = False, ""
        p = keys[0] if len(keys) == 1 and isinstance(keys[0], TT) else None
        if p is None or p.tkind != "pos":
            msg = f"write into the row buffer with index {key!r} (must be the batch's row positions)"
        elif not (p.ref.mask is st["space"].mask):
            msg = f"index-space mismatch: write positions enumerate {p.ref!r}, buffer rows enumerate {st['space']!r}"
        elif v.dep != "B" or v.row_dim() is None or not dim_eq(v.row_dim(), p.row_dim()) or v.rows_axes != [0]:
            msg = f"value written is not row-wise for the written rows: {v!r} at {p!r}" + (f" ({v.why[0]})" if v.dep == "T" and v.why else "")
        elif broadcast_shapes(v.shape_[1:], x.shape_[1:]) is None or not all(dim_eq(a, b) for a, b in zip(broadcast_shapes(v.shape_[1:], x.shape_[1:]), x.shape_[1:])):
            msg = f"shape of written rows {[dim_str(d) for d in v.shape_[1:]]} != buffer {[dim_str(d) for d in x.shape_[1:]]}"
        else:
            ok = True
        cur = st.get("iter")
        if ok and cur is not None and not isinstance(p.row_dim()[1], Batch):
            ok, msg = False, "write inside a pass that is not at the current batch's rows"
        if ok and cur is None and not isinstance(p.row_dim()[1], Space):
            ok, msg = False, "partial write outside a batch pass"
        note("writes", ok, msg or f"rows {p.row_dim()[1]!r} of the buffer over {st['space']!r} <- {v!r}")
        if cur is not None:
            cur["written"] = ok
            cur["elem"] = (v.lin, v.mk) if ok else ("N", "M")
            cur["n_writes"] = cur.get("n_writes", 0) + 1
        elif ok:
            st["state"], st["elem"] = "full", (v.lin, v.mk)
        if not ok:
            st["state"], st["elem"] = "broken", ("N", "M")
        return
    # ---- constant / tensor assignment into part of an ordinary tensor (basic index only)
    if any(isinstance(k, TT) for k in keys):
        x.__dict__.update(untypable(f"assignment through an advanced index into {x!r}", x).__dict__)
        return
    sub = getitem(x, key)
    if sub.dep == "T" or v.dep == "T":
        x.__dict__.update(poison("", sub, v).__dict__)
        return
    if v.dep in ("R", "A") or (v.dep == "B" and x.dep != "B"):
        x.__dict__.update(poison(f"row-dependent / partial value {v!r} stored into {x!r}", x).__dict__)
        return
    if v.dep == "G" and x.dep == "B" and v.lin != "C":
        x.__dict__.update(poison(f"a data-dependent global {v!r} stored into every row of {x!r}: rows no longer depend on their own pixel only", x).__dict__)
        return
    if x.lin == "L" and v.lin == "C" and not v.zero:
        x.lin = "N"  # affine, no longer linear
    elif v.lin != "C":
        x.lin = lin_join(x.lin, v.lin)
    if v.mk != "free":
        x.mk = mk_add(x.mk, v.mk)
    x.zero = x.zero and v.zero


# ------------------------------------------------------------------------------------------------ repetition lists (Fourier tiling)
class RepList:
    """`[x] * n` with a symbolic n."""

    _pyvc_value = True

    def __init__(self, item, count):
        self.item, self.count = item, count


# ------------------------------------------------------------------------------------------------ registration
_BIN_OPS = [operator.add, operator.sub, operator.mul, operator.truediv, operator.pow, operator.mod, operator.floordiv,
            operator.and_, operator.or_, operator.xor, operator.matmul]


def install(reg):
    M = reg.models

    def bin_handler(interp, op, a, b):
        if isinstance(a, (list, tuple, dict, str)) or isinstance(b, (list, tuple, dict, str)) or a is None or b is None:
            return NotImplemented
        if op is operator.matmul:
            return untypable("matmul", a, b)
        return binary(op, a, b)

    for op in _BIN_OPS:
        reg.binop_models[(TT, op)] = bin_handler

    def cmp_handler(interp, t, a, b):
        import ast

        if t in (ast.Eq, ast.NotEq, ast.Lt, ast.LtE, ast.Gt, ast.GtE):
            return binary(operator.mod, a, b)  # pointwise, non-linear
        return NotImplemented

    reg.cmp_models[TT] = cmp_handler

    # ---- abstract dimension sizes
    def dim_bin(interp, op, a, b):
        if op is operator.mul:
            d, k = (a, b) if isinstance(a, DimInt) else (b, a)
            if isinstance(k, (int, Sym)) and not isinstance(k, bool):
                s = scale_dim(d.dim, k)
                if s is not None:
                    return DimInt(s)
        raise OutOfSubset(f"arithmetic {op.__name__} on an abstract dimension size")

    for op in _BIN_OPS:
        reg.binop_models[(DimInt, op)] = dim_bin

    def list_mul(interp, op, a, b):
        lst, k = (a, b) if isinstance(a, list) else (b, a)
        if isinstance(k, Sym) and len(lst) == 1 and isinstance(lst[0], (TT, RepList)):
            return RepList(lst[0], k)
        return NotImplemented

    prev_list_mul = reg.binop_models.get((list, operator.mul))

    def list_mul2(interp, op, a, b):
        r = list_mul(interp, op, a, b)
        if r is NotImplemented and prev_list_mul is not None:
            return prev_list_mul(interp, op, a, b)
        return r

    reg.binop_models[(list, operator.mul)] = list_mul2

    # ---- wrappers: use the abstract rule when a TT is involved, else whatever was registered before
    def has_tt(*xs):
        for x in xs:
            if isinstance(x, (TT, RepList)):
                return True
            if isinstance(x, (list, tuple)) and any(isinstance(e, (TT, RepList)) for e in x):
                return True
        return False

    def wrap(f, rule):
        prev = M.get(f)

        def h(interp, *a, **kw):
            if has_tt(*a, *kw.values()):
                return rule(*a, **kw)
            if prev is not None:
                return prev(interp, *a, **kw)
            return NotImplemented

        M[f] = h

    for name in ("exp", "sin", "cos", "sqrt", "sign", "abs", "square", "log", "tanh", "angle", "sgn"):
        f = getattr(torch, name)
        wrap(f, lambda x, _n=name, **kw: unary(x, _n))
    for name in ("real", "imag", "conj"):
        wrap(getattr(torch, name), lambda x, _n=name: unary(x, _n, linear=True))
    wrap(torch.arctan2, lambda y, x: binary(operator.mod, y, x))
    wrap(torch.atan2, lambda y, x: binary(operator.mod, y, x))
    wrap(torch.clip, lambda x, *a, **kw: unary(x, "clip", others=list(a) + list(kw.values())))
    wrap(torch.clamp, lambda x, *a, **kw: unary(x, "clip", others=list(a) + list(kw.values())))
    wrap(torch.sum, lambda x, dim=None, keepdim=False, **kw: reduce_(x, "sum", dim, keepdim))
    wrap(torch.mean, lambda x, dim=None, keepdim=False, **kw: reduce_(x, "mean", dim, keepdim))
    wrap(torch.ones_like, lambda x, **kw: TT(x._use().shape_, "B" if x.row_dim() else "G", "C", "free"))
    wrap(torch.zeros_like, lambda x, **kw: TT(x._use().shape_, "B" if x.row_dim() else "G", "C", "free", zero=True))
    wrap(torch.as_tensor, lambda x, *a, **kw: x)
    wrap(torch.is_tensor, lambda x: True)

    def shape_of(args):
        if len(args) == 1 and isinstance(args[0], (tuple, list)):
            args = tuple(args[0])
        dims = [as_dim(a) for a in args]
        return None if any(d is None for d in dims) else tuple(dims)

    def is_abstract_shape(*a, **kw):
        flat = a[0] if len(a) == 1 and isinstance(a[0], (tuple, list)) else a
        return any(isinstance(e, DimInt) or (isinstance(e, Sym) and space_with_count(e) is not None) for e in flat)

    def mk_const(f, zero, uninit=False):
        prev = M.get(f)

        def h(interp, *a, **kw):
            if not is_abstract_shape(*a):
                if prev is not None:
                    return prev(interp, *a, **kw)
                return NotImplemented
            sh = shape_of(a)
            if sh is None:
                return untypable(f"torch.{f.__name__} with sizes {a!r}")
            rows = [d for d in sh if d[0] == "rows"]
            if rows:
                if len(rows) != 1 or sh[0][0] != "rows" or not isinstance(sh[0][1], Space):
                    return untypable("row buffer whose row axis is not the leading axis")
                t = TT(sh, "B", "C", "free", zero=zero)
                t.buf = dict(space=sh[0][1], state="none" if uninit else "full", elem=("C", "free"))
                return t
            return TT(sh, "G", "C", "free", zero=zero)

        M[f] = h

    mk_const(torch.zeros, True)
    mk_const(torch.ones, False)
    mk_const(torch.empty, False, uninit=True)

    def r_stack(xs, dim=0):
        xs = [lift_operand(x) for x in xs]
        if any(x is None for x in xs):
            return untypable("stack of non-tensors")
        r = xs[0]
        for x in xs[1:]:
            r = binary(operator.add, r.clone(zero=False), x.clone(zero=False)) if r.dep != "T" else r
            if r.dep != "T" and r.lin == "N" and {y.lin for y in xs} <= {"C", "L"}:
                r.lin = "L"
        if r.dep == "T":
            return poison("", r)
        lins = {x.lin for x in xs}
        r.lin = "N" if "N" in lins else ("L" if "L" in lins else "C")
        n = len(r.shape_) + 1
        d = dim % n
        return r.clone(shape=r.shape_[:d] + (("c", len(xs)) if len(xs) > 1 else ONE,) + r.shape_[d:])

    wrap(torch.stack, r_stack)

    def r_cat(xs, dim=0):
        if isinstance(xs, RepList):
            x = xs.item
            if isinstance(x, RepList):
                return untypable("nested repetition list")
            x = x._use()
            if x.dep == "T":
                return poison("", x)
            d = dim % len(x.shape_)
            nd = scale_dim(x.shape_[d], xs.count)
            if nd is None or x.shape_[d][0] == "rows":
                return poison(f"tiling along axis {dim} of {x!r}", x)
            return x.clone(shape=x.shape_[:d] + (nd,) + x.shape_[d + 1:])
        xs = list(xs)
        if not xs or not all(isinstance(x, TT) for x in xs):
            return untypable("cat of non-tensors")
        x = xs[0]._use()
        if any(y is not xs[0] for y in xs[1:]):
            return untypable("cat of different tensors", *xs)
        if x.dep == "T":
            return poison("", x)
        d = dim % len(x.shape_)
        nd = scale_dim(x.shape_[d], len(xs))
        if nd is None or x.shape_[d][0] == "rows":
            return poison(f"tiling along axis {dim} of {x!r}", x)
        return x.clone(shape=x.shape_[:d] + (nd,) + x.shape_[d + 1:])

    wrap(torch.cat, r_cat)

    def r_einsum(eq, *ops):
        if len(ops) == 1 and isinstance(ops[0], (tuple, list)):
            ops = tuple(ops[0])
        ins, out = eq.replace(" ", "").split("->")
        ins = ins.split(",")
        if len(ins) != len(ops) or len(ops) != 2:
            return untypable(f"einsum {eq!r}")
        lab = {}
        xs = [lift_operand(o) for o in ops]
        if any(x is None for x in xs):
            return untypable("einsum of non-tensors")
        for spec, x in zip(ins, xs):
            if x.dep == "T":
                return poison("", *xs)
            if len(spec) != len(x.shape_):
                return poison(f"einsum {eq!r}: operand rank {len(x.shape_)}", *xs)
            for c, d in zip(spec, x.shape_):
                if c in lab and not dim_eq(lab[c], d):
                    return poison(f"einsum {eq!r}: label {c} has sizes {dim_str(lab[c])} and {dim_str(d)}", *xs)
                lab.setdefault(c, d)
        # as broadcast product over all labels, then sum over the contracted ones
        order = list(dict.fromkeys("".join(ins)))
        def expand(spec, x):
            return x.clone(shape=tuple(lab[c] if c in spec else ONE for c in order))
        prod = binary(operator.mul, expand(ins[0], xs[0]), expand(ins[1], xs[1]))
        if prod.dep == "T":
            return prod
        contracted = [i for i, c in enumerate(order) if c not in out]
        r = reduce_(prod, "sum", tuple(contracted)) if contracted else prod
        if r.dep == "T":
            return r
        kept = [c for c in order if c in out]
        perm = [kept.index(c) for c in out]
        return r.clone(shape=tuple(r.shape_[i] for i in perm))

    wrap(torch.einsum, r_einsum)

    def r_fft2(x, s=None, dim=(-2, -1), norm=None):
        x = lift_operand(x)
        if x.dep == "T":
            return poison("", x)
        n = len(x.shape_)
        dims = [d % n for d in dim]
        if any(x.shape_[d][0] == "rows" for d in dims):
            return poison("Fourier transform along the BF-pixel axis mixes rows", x)
        if x.dep in ("R", "A"):
            return x.clone()  # linear: commutes with the row sum
        return x.clone(zero=x.zero)

    for f in (torch.fft.fft2, torch.fft.ifft2, torch.fft.fftn, torch.fft.ifftn):
        wrap(f, r_fft2)

    def m_fftfreq(interp, n, d=1.0, **kw):
        dm = as_dim(n) if isinstance(n, (DimInt,)) else None
        if dm is None:
            return NotImplemented
        return TT((dm,), "G", "C", "free")

    prev_ff = M.get(torch.fft.fftfreq)

    def m_fftfreq2(interp, n, d=1.0, **kw):
        r = m_fftfreq(interp, n, d, **kw)
        if r is NotImplemented:
            return prev_ff(interp, n, d, **kw) if prev_ff else NotImplemented
        return r

    M[torch.fft.fftfreq] = m_fftfreq2

    def r_nonzero(x, as_tuple=False):
        if not (isinstance(x, TT) and x.tkind == "mask" and as_tuple):
            return untypable("torch.nonzero of something that is not a detector mask (as_tuple=True)", x)
        sp = space_of(x.ref)
        prov(True, f"pixel coordinates of {x.ref!r} in row-major order")
        return (TT((("rows", sp),), "B", "C", "free", kind="coord", ref=0), TT((("rows", sp),), "B", "C", "free", kind="coord", ref=1))

    wrap(torch.nonzero, r_nonzero)

    def r_where(c, a=None, b=None):
        if a is not None or b is not None:
            t = binary(operator.mod, binary(operator.mod, c, a), b)
            return t
        if isinstance(c, TT) and c.tkind == "maskvec":
            host = c.row_dim()[1]  # rows of the host mask
            inner = c.ref
            if inner.within(host.mask):
                sp = space_of(inner)
                prov(True, f"positions of the pixels of {inner!r} within {host!r} (sub-mask: same row-major order)")
            else:
                sp = space_of(Mask(f"{inner.name}&{host.mask.name}"))
                prov(False, f"{inner!r} is not known to be a sub-mask of {host.mask!r}: positions enumerate the intersection only")
            return (TT((("rows", sp),), "B", "C", "free", kind="pos", ref=host),)
        if isinstance(c, TT) and c.tkind == "mask":
            return r_nonzero(c, as_tuple=True)
        return untypable("torch.where(cond) of a non-mask", c)

    wrap(torch.where, r_where)


def batches_of(space):
    """Abstract batch sequence of a batcher over `space` (value of every iteration: the positions of the current batch)."""
    b = Batch(space)
    return TT((("rows", b),), "B", "C", "free", kind="pos", ref=space)


# ------------------------------------------------------------------------------------------------ integer index models (mask cropping)
class NZCoords:
    """One coordinate vector of torch.where(mask) / torch.nonzero(mask, as_tuple=True) of a non-empty 2-D boolean SymArr:
    only its extremes are modelled (min / max), constrained by the contract of `where` (see install_crop)."""

    _pyvc_value = True

    def __init__(self, lo, hi):
        self.lo, self.hi = lo, hi

    def min(self):
        return self.lo

    def max(self):
        return self.hi


def install_crop(reg):
    """torch.fft.fftshift / ifftshift as index maps on symbolic arrays (all axes), written with if-then-else instead of `mod`
    (0 <= i < n and 0 <= n//2 < n, so one wrap suffices) to stay in linear integer arithmetic; torch.where(cond) of a 2-D mask."""
    M = reg.models

    def shift_model(f, sign):
        prev = M.get(f)

        def h(interp, x, dim=None, **kw):
            if not isinstance(x, SymArr):
                return prev(interp, x, dim=dim, **kw) if prev is not None else NotImplemented
            if dim is not None or kw:
                raise OutOfSubset("fftshift with explicit dims on a symbolic array")
            ns = [lift(d) for d in x.shape]

            def src_index(i, n):
                s_ = n / 2
                t = (i - s_) if sign > 0 else (i + s_)       # fftshift: out[i] = in[(i - n//2) mod n]; ifftshift: out[i] = in[(i + n//2) mod n]
                return z3.If(t < 0, t + n, z3.If(t >= n, t - n, t))

            def dst_index(i, n):                              # where in[i] lands
                s_ = n / 2
                t = (i + s_) if sign > 0 else (i - s_)
                return z3.If(t < 0, t + n, z3.If(t >= n, t - n, t))

            xf = x.fn
            out = SymArr(x.shape, lambda *idx: xf(*[src_index(lift(i), n) for i, n in zip(idx, ns)]), x.kind)
            out.reindexed = (x, lambda *idx: [dst_index(lift(i), n) for i, n in zip(idx, ns)])
            return out

        M[f] = h

    shift_model(torch.fft.fftshift, +1)
    shift_model(torch.fft.ifftshift, -1)

    prev_where = M.get(torch.where)

    def m_where(interp, c, a=None, b=None):
        if not (a is None and b is None and isinstance(c, SymArr) and c.ndim == 2):
            return prev_where(interp, c, a, b) if (a is not None or b is not None) else prev_where(interp, c)
        ctx = interp.ctx
        Hn, Wn = lift(c.shape[0]), lift(c.shape[1])
        ylo, yhi, xlo, xhi = (ctx.fresh(n, "int") for n in ("ys_min", "ys_max", "xs_min", "xs_max"))
        ctx.assume(z3.And(0 <= ylo.t, ylo.t <= yhi.t, yhi.t < Hn, 0 <= xlo.t, xlo.t <= xhi.t, xhi.t < Wn))
        i, j = z3.Int("i!nz"), z3.Int("j!nz")
        src = getattr(c, "reindexed", None)
        if src is not None and getattr(src[0], "func", None) is not None:
            # the same statement over the array that c re-indexes (bijective index map): gives the quantifier a pattern
            base, fwd = src
            pi, pj = fwd(i, j)
            body = z3.Implies(z3.And(i >= 0, i < Hn, j >= 0, j < Wn, lift(base.fn(i, j))),
                              z3.And(ylo.t <= pi, pi <= yhi.t, xlo.t <= pj, pj <= xhi.t))
            ctx.assume(z3.ForAll([i, j], body, patterns=[base.func(i, j)]))
        else:
            body = z3.Implies(z3.And(i >= 0, i < Hn, j >= 0, j < Wn, lift(c.fn(i, j))), z3.And(ylo.t <= i, i <= yhi.t, xlo.t <= j, j <= xhi.t))
            ctx.assume(z3.ForAll([i, j], body))
        # the extremes are attained
        for nm, row, col in (("c_lo", ylo.t, None), ("c_hi", yhi.t, None), ("r_lo", None, xlo.t), ("r_hi", None, xhi.t)):
            wv = ctx.fresh("nz_" + nm, "int")
            if col is None:
                ctx.assume(z3.And(wv.t >= 0, wv.t < Wn, lift(c.fn(row, wv.t))))
            else:
                ctx.assume(z3.And(wv.t >= 0, wv.t < Hn, lift(c.fn(wv.t, col))))
        return (NZCoords(ylo, yhi), NZCoords(xlo, xhi))

    M[torch.where] = m_where
