"""TRUSTED contracts of numpy functions on symbolic index arrays (A6).

Index arrays (1-D int arrays used as sets of pattern indices) carry ghost closures
  mem(v)  : z3 Bool  - v occurs in the array
  inv(v)  : z3 Int   - the position of v (meaningful when mem(v)); arrays with `inv` are injective
maintained structurally by arange / permutation / slicing / setdiff1d.
"""
from __future__ import annotations

import numpy as np
import z3

from .. import values as V
from ..values import Sym, SymArr, S, lift, contains_sym, ite, OutOfSubset
from ..interp import RaiseSig


def index_array(shape_n, fn, mem, inv, name=None):
    a = SymArr((shape_n,), fn, "int", name=name)
    a.mem = mem
    a.inv = inv
    a.as_type = np.ndarray
    return a


def fresh_index_array(ctx, base, n=None, assume_injective=True):
    """Arbitrary injective int array of symbolic length n with ghost mem / inv functions."""
    name = ctx.fresh_name(base)
    if n is None:
        n = ctx.fresh(base + "_len", "int")
        ctx.assume(n.t >= 0)
    A = z3.Function(name, z3.IntSort(), z3.IntSort())
    MEM = z3.Function(name + "_mem", z3.IntSort(), z3.BoolSort())
    INV = z3.Function(name + "_inv", z3.IntSort(), z3.IntSort())
    i, v = z3.Int("i!q"), z3.Int("v!q")
    nt = lift(n)
    # A restricted to [0,n) is a bijection onto {v | MEM v} with inverse INV
    ctx.assume(z3.ForAll([i], z3.Implies(z3.And(i >= 0, i < nt), z3.And(MEM(A(i)), INV(A(i)) == i)), patterns=[A(i)]))
    ctx.assume(z3.ForAll([v], z3.Implies(MEM(v), z3.And(INV(v) >= 0, INV(v) < nt, A(INV(v)) == v)), patterns=[MEM(v)]))
    arr = index_array(n, lambda idx: Sym(A(idx)), lambda x: MEM(lift(x)), lambda x: INV(lift(x)), name=name)
    arr.func = A
    return arr


def install(reg):
    M = reg.models

    def m_arange(interp, *a, dtype=None, **kw):
        if not contains_sym(a):
            return interp.native(np.arange, *a, dtype=dtype, **kw)
        if len(a) != 1:
            raise OutOfSubset("np.arange(start, stop) with symbolic bounds")
        n = V.smax(0, a[0])
        nt = lift(n)
        return index_array(n, lambda i: Sym(i), lambda v: z3.And(lift(v) >= 0, lift(v) < nt), lambda v: lift(v), name="arange")

    M[np.arange] = m_arange

    def m_asarray(interp, x, dtype=None, **kw):
        if isinstance(x, SymArr):
            if x.pylist:
                r = x.copy()
                r.pylist = False
                return r
            return x
        if contains_sym(x):
            if isinstance(x, (list, tuple)):
                return V.from_list(x, kind="real", pylist=False)
            return x
        return interp.native(np.asarray, x, dtype=dtype, **kw)

    M[np.asarray] = m_asarray
    M[np.array] = m_asarray

    def m_setdiff1d(interp, a, b, assume_unique=False):
        if not (isinstance(a, SymArr) or isinstance(b, SymArr)):
            return interp.native(np.setdiff1d, a, b, assume_unique=assume_unique)
        if not hasattr(a, "mem") or not hasattr(b, "mem"):
            raise OutOfSubset("setdiff1d on arrays without membership ghosts")
        ctx = interp.ctx
        r = fresh_index_array(ctx, "setdiff")
        v = z3.Int("v!q")
        ctx.assume(z3.ForAll([v], r.mem(v) == z3.And(a.mem(v), z3.Not(b.mem(v)))))
        # sorted ascending (np.unique semantics)
        i, j = z3.Int("i!q"), z3.Int("j!q")
        ctx.assume(z3.ForAll([i, j], z3.Implies(z3.And(0 <= i, i < j, j < lift(r.shape[0])), r.func(i) < r.func(j))))
        return r

    M[np.setdiff1d] = m_setdiff1d

    class SymGenerator:
        """np.random.Generator abstraction: permutation(x) returns x composed with an arbitrary bijection.
        `seed` (term or None) and `draws` identify the generator state: default_rng(s) is a function of s (trusted)."""

        _pyvc_value = True

        def __init__(self, name="rng", seed=None):
            self.name = name
            self.draws = 0
            self.seed = seed
            self.bit_generator = _BitGen(seed)

        def permutation(self, x):
            ctx = V.cur()
            self.draws += 1
            if not isinstance(x, SymArr) and (isinstance(x, Sym) or (isinstance(x, int) and not isinstance(x, bool))):
                # numpy: Generator.permutation(n) permutes np.arange(n); a negative n raises
                if isinstance(x, Sym) and not ctx.entails(lift(x) >= 0):
                    raise OutOfSubset("permutation(n): n not known to be non-negative")
                nt0 = lift(x)
                x = index_array(x, lambda i: Sym(i), lambda v: z3.And(lift(v) >= 0, lift(v) < nt0), lambda v: lift(v), name="arange")
            if not isinstance(x, SymArr):
                raise OutOfSubset("permutation of non-array")
            n = x.shape[0]
            nt = lift(n)
            nm = ctx.fresh_name("sigma")
            SG = z3.Function(nm, z3.IntSort(), z3.IntSort())
            TAU = z3.Function(nm + "_inv", z3.IntSort(), z3.IntSort())
            i = z3.Int("i!q")
            ctx.assume(z3.ForAll([i], z3.Implies(z3.And(i >= 0, i < nt), z3.And(SG(i) >= 0, SG(i) < nt, TAU(SG(i)) == i)), patterns=[SG(i)]))
            ctx.assume(z3.ForAll([i], z3.Implies(z3.And(i >= 0, i < nt), z3.And(TAU(i) >= 0, TAU(i) < nt, SG(TAU(i)) == i)), patterns=[TAU(i)]))
            r = SymArr((n,), lambda idx: x.fn(SG(idx)), x.kind, name="perm")
            r.as_type = np.ndarray
            r.sigma, r.tau, r.source = SG, TAU, x
            if hasattr(x, "mem"):
                r.mem = x.mem
                r.inv = lambda v: TAU(x.inv(v))
            return r

    reg.SymGenerator = SymGenerator

    def m_default_rng(interp, seed=None):
        if seed is None:
            return SymGenerator("rng_unseeded", seed=None)
        if isinstance(seed, SymGenerator):
            return seed
        if contains_sym(seed):
            if interp.truth(S(seed) < 0):
                raise RaiseSig(ValueError("expected non-negative integer"))
            return SymGenerator("rng_seeded", seed=seed)
        return interp.native(np.random.default_rng, seed)

    M[np.random.default_rng] = m_default_rng

    def m_isinstance_gen(interp, x, t):
        return NotImplemented

    old_isinst = getattr(reg, "isinstance_model", None)

    def isinstance_model(interp, x, t):
        if isinstance(x, SymGenerator):
            ts = t if isinstance(t, tuple) else (t,)
            return any(k in (np.random.Generator, object) for k in ts)
        if old_isinst:
            return old_isinst(interp, x, t)
        return NotImplemented

    reg.isinstance_model = isinstance_model


class _SeedSeq:
    _pyvc_value = True

    def __init__(self, seed):
        self.entropy = seed


class _BitGen:
    _pyvc_value = True

    def __init__(self, seed):
        self._seed_seq = _SeedSeq(seed)


def slice_index_array(arr, key):
    """Slicing that maintains mem / inv ghosts for index arrays: [:m] and [::k]."""
    r = SymArr.__getitem__(arr, key)
    if not (isinstance(key, slice) and hasattr(arr, "mem") and isinstance(r, SymArr)):
        return r
    lo, hi, step, ln = SymArr._slice_bounds(key, arr.shape[0])
    lo_t, ln_t = lift(lo), lift(ln)

    sym_step = V.is_z3(step)

    def mem(v, _a=arr):
        p = _a.inv(v) - lo_t
        c = [_a.mem(v), p >= 0, p < ln_t * step]
        if sym_step or step != 1:
            c.append(p % step == 0)
        return z3.And(*c)

    def inv(v, _a=arr):
        p = _a.inv(v) - lo_t
        return p / step if (sym_step or step != 1) else p

    r.mem, r.inv = mem, inv
    r.as_type = np.ndarray
    return r
