"""TRUSTED models used by C06 (A6 numpy ndarray operations on index-function arrays, A5 DFT axioms).

Every model states the *library's* contract, nothing about quantem:

* builtins: ``dict(pairs)``, ``slice(a, b)``, ``list.append/extend`` with symbolic payloads (plain data constructors);
* ``ndarray.reshape`` in C order when every old axis is kept or split into two new axes (a, b) with a*b = old length:
  ``new[.., i, j, ..] = old[.., i*b + j, ..]``  (the size condition is emitted as a proof obligation, not assumed);
* ``np.sum(x, axis=axes)`` = iterated Σ over the listed axes (Σ-terms, bodies normalised so that equal summands give equal terms);
  an explicit ``dtype=`` is recorded as a ghost fact "accumulator possibly narrower than the default" (``ctx.ghost['c06_inexact']``);
* ``np.pad(x, widths, mode="constant")``: ``out[i] = x[i - before]`` inside, 0 outside, length ``before + n + after``;
  other modes: the interior only (border values unspecified);
* ``np.floor / np.ceil / np.prod / np.isrealobj`` on scalars / short lists;
* value kinds: ``np.asarray / np.array / ndarray.astype`` with a REAL dtype applied to a COMPLEX array discard the imaginary part
  (result = Re x, real-valued; a ghost step "R-linear only" is logged); real -> complex and same-kind conversions keep the values;
* A5: ``fftn / ifftn`` are uninterpreted linear operators (one fresh function symbol per application, recorded in the
  ghost log ``ctx.ghost['c06_dft']``); ``fftshift`` / ``ifftshift`` are the index maps ``out[i] = in[(i - n//2) mod n]`` /
  ``out[i] = in[(i + n//2) mod n]`` (written with one conditional wrap, valid for 0 <= i < n); ``x.real`` is the
  R-linear idempotent map Re (uninterpreted), the identity on arrays flagged real.

Complex scalars are *abstract elements of an R-vector space* encoded in sort Real: only 0, +, multiplication by real
scalars and Re are ever applied to them, so every equality proved holds componentwise for complex data.
"""
from __future__ import annotations

import operator

import numpy as np
import z3

from .. import values as V
from ..values import Sym, SymArr, S, lift, contains_sym, ite, OutOfSubset
from ..interp import RaiseSig

RE = z3.Function("Re", z3.RealSort(), z3.RealSort())  # real part of an abstract complex scalar


# ------------------------------------------------------------------------------------------------
# Σ-terms with normalised bodies
# ------------------------------------------------------------------------------------------------

_SIG = {}


def _free_consts(t, exclude):
    """Uninterpreted constants (arity 0) occurring in `t`, in order of first occurrence, without `exclude`."""
    out, seen, stack = [], set(), [t]
    ex = exclude.get_id()
    while stack:
        e = stack.pop()
        i = e.get_id()
        if i in seen:
            continue
        seen.add(i)
        if z3.is_app(e):
            if e.num_args() == 0 and e.decl().kind() == z3.Z3_OP_UNINTERPRETED and i != ex:
                out.append(e)
            stack.extend(reversed(e.children()))
    return out


def _ctx_simplify(b):
    """Resolve conditionals whose condition is decided by the current path condition (e.g. the clipping of a slice
    bound that is known to be in range), then re-normalise."""
    ctx = V.cur()
    for _ in range(4):
        ites, seen, stack = [], set(), [b]
        while stack:
            e = stack.pop()
            i = e.get_id()
            if i in seen:
                continue
            seen.add(i)
            if z3.is_app(e):
                if z3.is_app_of(e, z3.Z3_OP_ITE):
                    ites.append(e)
                stack.extend(e.children())
        subs = []
        for e in ites:
            c = e.arg(0)
            if ctx.entails(c):
                subs.append((e, e.arg(1)))
            elif ctx.entails(z3.Not(c)):
                subs.append((e, e.arg(2)))
        if not subs:
            break
        b = z3.simplify(z3.substitute(b, *subs))
    return b


def sigma_n(n, body_fn, level=0):
    """Σ_{t=0}^{n-1} body_fn(t) as the term  Sigma<summand>(n, free variables of the summand).

    The summand is normalised (z3 simplify: canonical polynomial form) with the bound variable named by nesting level; one
    uninterpreted function symbol per distinct normalised summand, applied to the upper limit and the summand's free
    variables.  Equal summands therefore give equal terms (Σ-congruence); different summands give unrelated symbols, so a
    claimed equality of different sums is refuted with a model instead of timing out on array extensionality."""
    t = z3.Int(f"t!sig{level}")
    b = V._num(lift(body_fn(t)))
    if z3.is_int(b):
        b = z3.ToReal(b)
    b = _ctx_simplify(z3.simplify(b))
    fv = sorted(_free_consts(b, t), key=lambda e: e.decl().name())
    key = (b.sexpr(), tuple(e.decl().name() for e in fv))
    f = _SIG.get(key)
    if f is None:
        f = z3.Function(f"Sigma#{len(_SIG)}", z3.IntSort(), *[e.sort() for e in fv], z3.RealSort())
        _SIG[key] = f
    return Sym(f(z3.simplify(lift(n)), *fv))


def sum_axes(arr, axes, expand_upto=0):
    """Iterated Σ over `axes` (ascending), outermost = first axis."""
    nd = arr.ndim
    axes = tuple(sorted(a % nd for a in axes))
    keep = [i for i in range(nd) if i not in axes]

    def fn(*idx):
        outer = {a: idx[p] for p, a in enumerate(keep)}

        def rec(ai, bound):
            if ai == len(axes):
                return arr.fn(*[bound[i] if i in bound else outer[i] for i in range(nd)])
            a = axes[ai]
            n = arr.shape[a]
            ln = V._dim_lit(n)
            if ln is not None and ln <= expand_upto:
                tot = None
                for jv in range(ln):
                    term = S(rec(ai + 1, dict(bound, **{a: z3.IntVal(jv)})))
                    tot = term if tot is None else tot + term
                return tot if tot is not None else 0
            return sigma_n(n, lambda t, _a=a, _ai=ai: rec(_ai + 1, {**bound, _a: t}), level=ai)

        return rec(0, {})

    out = SymArr(tuple(arr.shape[i] for i in keep), fn, arr.kind)
    out.as_type = np.ndarray
    if not out.shape:
        return out.fn()
    return out


# ------------------------------------------------------------------------------------------------
# reshape (C order, split-only)
# ------------------------------------------------------------------------------------------------


def reshape_split(interp, arr, shape):
    ctx = interp.ctx
    if len(shape) == 1 and isinstance(shape[0], (tuple, list)):
        shape = tuple(shape[0])
    shape = tuple(shape)
    old = arr.shape
    plan = []  # per old axis: ('keep', k) | ('split', k)   (k = first new axis)
    k = 0
    for i, L in enumerate(old):
        remaining_old = len(old) - i - 1
        remaining_new = len(shape) - k
        if remaining_new < 1:
            raise OutOfSubset("reshape: fewer new axes than old axes (merge not modelled)")
        can_split = remaining_new - 2 >= remaining_old
        must_split = remaining_new - 1 > 2 * remaining_old
        if not must_split and (not can_split or V.dims_equal(shape[k], L)):
            if not V.dims_equal(shape[k], L):
                ctx.prove(f"np.reshape: axis {i} keeps its length", lift(shape[k]) == lift(L), kind="call-pre")
            plan.append(("keep", k))
            k += 1
        else:
            ctx.prove(f"np.reshape: axis {i} splits exactly (blocks*factor = length)", lift(shape[k]) * lift(shape[k + 1]) == lift(L), kind="call-pre")
            ctx.prove(f"np.reshape: axis {i} split extents non-negative", z3.And(lift(shape[k]) >= 0, lift(shape[k + 1]) >= 0), kind="call-pre")
            plan.append(("split", k))
            k += 2
    if k != len(shape):
        raise OutOfSubset("reshape: new shape is not a keep/split refinement of the old shape")

    def fn(*idx, _plan=tuple(plan), _shape=shape, _src=arr):
        o = []
        for kind, kk in _plan:
            if kind == "keep":
                o.append(idx[kk])
            else:
                o.append(idx[kk] * lift(_shape[kk + 1]) + idx[kk + 1])
        return _src.fn(*o)

    r = SymArr(shape, fn, arr.kind, base=arr.base)
    r.as_type = np.ndarray
    return r


# ------------------------------------------------------------------------------------------------
# DFT ghost log
# ------------------------------------------------------------------------------------------------


def dft_log(ctx):
    return ctx.ghost.setdefault("c06_dft", [])


def step_log(ctx):
    """Ghost list of the data steps that are NOT linear over the complex numbers: ('Re' | 'cast ...', 'R') = R-linear only,
    (..., 'N') = not linear.  (fftn, ifftn, index selection, rotation, zero padding, scaling are C-linear and not listed.)"""
    return ctx.ghost.setdefault("c06_steps", [])


def array_key(fn, nd):
    """Canonical name of an array VALUE: its index function at canonical indices (copies of an array share the key)."""
    idx = [z3.Int(f"i!key{k}") for k in range(nd)]
    return z3.simplify(lift(S(fn(*idx)))).sexpr()


def total_func(fn, nd, axes):
    """A5 ghost: TOT(i) = sum over `axes` of the array with index function `fn` (the indices on `axes` are ignored)."""
    return z3.Function(f"TOT{sorted(set(axes))}[{array_key(fn, nd)}]", *([z3.IntSort()] * nd), z3.RealSort())


def mean_func(func, nd, axes):
    """A5 ghost: MEAN(i) = mean over `axes` of the array given by the z3 function `func`."""
    return z3.Function(f"MEAN{sorted(set(axes))}[{func.name()}]", *([z3.IntSort()] * nd), z3.RealSort())


def _wrap_idx(i, shift, n):
    """(i + shift) mod n for 0 <= i < n and -n <= shift <= n, without a symbolic modulus."""
    j = i + shift
    return z3.If(j < 0, j + n, z3.If(j >= n, j - n, j))


def _axes_tuple(axes, nd):
    if axes is None:
        return tuple(range(nd))
    if isinstance(axes, int):
        axes = (axes,)
    out = []
    for a in axes:
        if isinstance(a, Sym):
            a = a.__index__()
        out.append(int(a))
    return tuple(out)


def _check_axes(axes, nd, what):
    for a in axes:
        if a < -nd or a >= nd:
            raise RaiseSig(IndexError(f"{what}: axis {a} out of bounds for array of dimension {nd}"))
    return tuple(a % nd for a in axes)


def install(reg):
    M = reg.models

    # ---------------------------------------------------------------- builtins with symbolic payloads
    reg.ctor_models[dict] = lambda interp, *a, **k: dict(*[list(x) if not isinstance(x, dict) else x for x in a], **k)
    reg.ctor_models[slice] = lambda interp, *a: slice(*a)

    def l_append(interp, lst, x):
        lst.append(x)

    def l_extend(interp, lst, xs):
        lst.extend(list(xs))

    reg.method_models[(list, "append")] = l_append
    reg.method_models[(list, "extend")] = l_extend

    # ---------------------------------------------------------------- `a if c else b` with pure integer arithmetic on both sides
    import ast as _ast

    def _pure_arith(n):
        """Names, integer literals, + - * and // % by a non-zero integer literal: cannot raise, has no effect."""
        if isinstance(n, _ast.Name):
            return True
        if isinstance(n, _ast.Constant):
            return isinstance(n.value, int) and not isinstance(n.value, bool)
        if isinstance(n, _ast.UnaryOp) and isinstance(n.op, (_ast.USub, _ast.UAdd)):
            return _pure_arith(n.operand)
        if isinstance(n, _ast.BinOp):
            if isinstance(n.op, (_ast.Add, _ast.Sub, _ast.Mult)):
                return _pure_arith(n.left) and _pure_arith(n.right)
            if isinstance(n.op, (_ast.FloorDiv, _ast.Mod)):
                return _pure_arith(n.left) and isinstance(n.right, _ast.Constant) and isinstance(n.right.value, int) and n.right.value not in (0, False, True)
        return False

    def ifexp_model(interp, node, env):
        """`x if c else y` where x, y are pure integer arithmetic and c is undetermined: the value ite(c, x, y) instead of
        two paths (same semantics, no path split)."""
        if not (_pure_arith(node.body) and _pure_arith(node.orelse)):
            return NotImplemented
        c = interp.eval(node.test, env)
        if not (isinstance(c, Sym) and c.is_bool):
            return interp.eval(node.body, env) if interp.truth(c) else interp.eval(node.orelse, env)
        a, b = interp.eval(node.body, env), interp.eval(node.orelse, env)
        if not all(isinstance(v, (int, Sym)) and not isinstance(v, bool) for v in (a, b)):
            return a if interp.truth(c) else b
        return ite(c.t, a, b)

    reg.ifexp_model = ifexp_model

    # ---------------------------------------------------------------- ndarray attributes
    def arr_attr(interp, base, name):
        if base.pylist:
            return NotImplemented
        if name == "reshape":
            return _Bound(lambda *shape: reshape_split(interp, base, shape))
        if name == "real":
            return real_part(base)
        if name == "sum":
            return _Bound(lambda axis=None, **kw: m_sum(interp, base, axis=axis, **kw))
        if name == "astype" and hasattr(base, "is_real"):
            return _Bound(lambda dt, *a, **kw: cast(interp, base, dt, copy=True))
        if name == "dtype" and getattr(base, "is_real", True) is False:
            return "complex"
        return NotImplemented

    reg.attr_models[SymArr] = arr_attr

    def real_part(x, why="Re"):
        if getattr(x, "is_real", False):
            return x
        xf = x.fn  # (numpy: a view of the real parts; the values are those at the time of the read)
        r = SymArr(x.shape, lambda *i: Sym(RE(lift(S(xf(*i))))), x.kind)
        r.as_type = np.ndarray
        r.is_real = True
        r.lin = getattr(x, "lin", None)
        step_log(V.cur()).append((why, "R"))  # R-linear, not C-linear
        return r

    reg.c06_real_part = real_part

    # ---------------------------------------------------------------- value kind (real / complex) under dtype conversions
    def _dtype_kind(dt):
        if dt is None:
            return None
        if dt in (float, int, bool):
            return "real"
        if dt is complex:
            return "complex"
        try:
            k = np.dtype(dt).kind
        except TypeError:
            return None
        return "complex" if k == "c" else "real" if k in "fiub" else None

    def cast(interp, x, dt, copy):
        """numpy: converting a complex array to a real dtype DISCARDS the imaginary part (ComplexWarning only); converting a
        real array to a complex dtype keeps the values (imaginary part 0); same-kind conversions keep the values (A1/A2)."""
        kind = _dtype_kind(dt)
        xreal = getattr(x, "is_real", True)
        if kind == "real" and not xreal:
            return real_part(x, why=f"cast of a complex array to a real dtype")
        r = SymArr.astype(x, dt) if (copy and dt is not None) else (x.copy() if copy else x)
        if r is not x:
            r.as_type = getattr(x, "as_type", np.ndarray)
        if hasattr(x, "is_real") or kind == "complex":
            if kind == "complex" and xreal and r is x:
                r = x.copy()
                r.as_type = getattr(x, "as_type", np.ndarray)
            r.is_real = False if kind == "complex" else xreal
        return r

    for _f, _copy in ((np.asarray, False), (np.array, True), (np.ascontiguousarray, False), (np.asanyarray, False)):
        def _h(interp, x, *a, _prev=M.get(_f), _copy=_copy, _f=_f, **kw):
            dt = kw.get("dtype", a[0] if a else None)
            if isinstance(x, SymArr) and not x.pylist and hasattr(x, "is_real") and (dt is not None or _copy):
                return cast(interp, x, dt, copy=_copy and kw.get("copy", True) is not False)
            if _prev is not None:
                return _prev(interp, x, *a, **kw)
            return interp.native(_f, x, *a, **kw)
        M[_f] = _h

    # ---------------------------------------------------------------- numpy scalar helpers
    def m_floor(interp, x):
        if isinstance(x, Sym):
            t = V._num(x.t)
            return Sym(z3.ToReal(t)) if z3.is_int(t) else Sym(z3.ToReal(z3.ToInt(t)))
        return interp.native(np.floor, x)

    def m_ceil(interp, x):
        if isinstance(x, Sym):
            t = V._num(x.t)
            return Sym(z3.ToReal(t)) if z3.is_int(t) else Sym(z3.ToReal(-z3.ToInt(-t)))
        return interp.native(np.ceil, x)

    M[np.floor] = m_floor
    M[np.ceil] = m_ceil

    def m_prod(interp, xs, **kw):
        if isinstance(xs, (list, tuple)) and contains_sym(xs):
            r = 1
            for x in xs:
                r = r * x
            return r
        return interp.native(np.prod, xs, **kw)

    M[np.prod] = m_prod

    def m_isrealobj(interp, x):
        if isinstance(x, SymArr):
            return bool(getattr(x, "is_real", True))
        return interp.native(np.isrealobj, x)

    M[np.isrealobj] = m_isrealobj

    def m_isscalar(interp, x):
        if isinstance(x, Sym):
            return True
        if isinstance(x, (SymArr, V.Obj)):
            return False
        return interp.native(np.isscalar, x)

    M[np.isscalar] = m_isscalar

    # isinstance(x, int | float): a union type is the tuple of its members
    import types as _types

    prev_isinstance = getattr(reg, "isinstance_model", None)

    def isinstance_model(interp, x, t):
        if isinstance(t, _types.UnionType):
            return M[isinstance](interp, x, tuple(t.__args__))
        if prev_isinstance is not None:
            return prev_isinstance(interp, x, t)
        return NotImplemented

    reg.isinstance_model = isinstance_model

    # ---------------------------------------------------------------- np.sum
    def m_sum(interp, x, axis=None, **kw):
        if not isinstance(x, SymArr):
            return interp.native(np.sum, x, axis=axis, **kw)
        extra = {k: v for k, v in kw.items() if v is not None and k not in ("keepdims", "dtype")}
        if extra or kw.get("keepdims"):
            raise OutOfSubset(f"np.sum with {sorted(kw)} on a symbolic array")
        if kw.get("dtype") is not None:
            # numpy: without dtype= integer input narrower than the platform integer is accumulated in the platform integer;
            # with dtype= the accumulator (and result) has exactly that type.  The element type of the input is arbitrary here
            # (any of the property's dtypes), so the sum is exact (A2) only for the default accumulator: record the ghost fact.
            interp.ctx.ghost.setdefault("c06_inexact", []).append("np.sum(dtype=...) accumulates in the given dtype, which may be narrower than the default accumulator")
        axes = _axes_tuple(axis, x.ndim)
        axes = _check_axes(axes, x.ndim, "np.sum")
        if len(set(axes)) != len(axes):
            raise RaiseSig(ValueError("duplicate value in 'axis'"))
        r = sum_axes(x, axes)
        if isinstance(r, SymArr):
            r.is_real = getattr(x, "is_real", True)
        return r

    M[np.sum] = m_sum

    # ---------------------------------------------------------------- np.pad
    def m_pad(interp, x, pad_width, mode="constant", **kw):
        if not isinstance(x, SymArr):
            if contains_sym(pad_width):
                raise OutOfSubset("np.pad of a concrete array with symbolic widths")
            return interp.native(np.pad, x, pad_width, mode=mode, **kw)
        nd = x.ndim
        pw = pad_width
        if isinstance(pw, (int, Sym)):
            pw = [(pw, pw)] * nd
        pw = list(pw)
        if len(pw) == 2 and not isinstance(pw[0], (tuple, list)):
            pw = [tuple(pw)] * nd
        if len(pw) == 1 and nd > 1:
            pw = [tuple(pw[0])] * nd
        if len(pw) != nd:
            raise RaiseSig(ValueError("operands could not be broadcast together (pad_width)"))
        pw = [tuple(p) for p in pw]
        for b, a in pw:
            if contains_sym((b, a)):
                if interp.truth(S(b) < 0) or interp.truth(S(a) < 0):
                    raise RaiseSig(ValueError("index can't contain negative values"))
            elif b < 0 or a < 0:
                raise RaiseSig(ValueError("index can't contain negative values"))
        cval = kw.get("constant_values", 0)
        if mode != "constant" or not isinstance(cval, (int, float)):
            border_name = interp.ctx.fresh_name("padborder")
            BF = z3.Function(border_name, *([z3.IntSort()] * nd), z3.RealSort())
            border = lambda *i: Sym(BF(*i))  # unspecified border values
        else:
            border = lambda *i: cval
        shape = tuple(b + n + a for (b, a), n in zip(pw, x.shape))

        def fn(*idx, _x=x, _pw=tuple(pw)):
            inside = []
            src = []
            for i, (b, a), n in zip(idx, _pw, _x.shape):
                inside.append(z3.And(i >= lift(b), i < lift(b) + lift(n)))
                src.append(i - lift(b))
            return ite(z3.And(*inside), _x.fn(*src), border(*idx))

        r = SymArr(shape, fn, x.kind)
        r.as_type = np.ndarray
        r.is_real = getattr(x, "is_real", True)
        r.lin = getattr(x, "lin", None) if (mode == "constant" and cval == 0) else None
        if mode == "constant" and not (isinstance(cval, (int, float)) and cval == 0):
            step_log(interp.ctx).append(("np.pad with a non-zero constant", "N"))
        return r

    M[np.pad] = m_pad

    # ---------------------------------------------------------------- A5: DFT
    def _fresh_like(ctx, x, base):
        name = ctx.fresh_name(base)
        nd = x.ndim
        f = z3.Function(name, *([z3.IntSort()] * nd), z3.RealSort())
        r = SymArr(x.shape, lambda *i, _f=f: Sym(_f(*i)), "real", name=name)
        r.func = f
        r.as_type = np.ndarray
        return r

    def m_fftn(interp, x, s=None, axes=None, norm=None, **kw):
        if not isinstance(x, SymArr):
            return interp.native(np.fft.fftn, x, s=s, axes=axes, norm=norm, **kw)
        if s is not None or norm not in (None, "backward"):
            raise OutOfSubset("fftn with s= / non-default norm")
        ax = _check_axes(_axes_tuple(axes, x.ndim), x.ndim, "fftn")
        r = _fresh_like(interp.ctx, x, "FFT")
        r.is_real = False
        r.lin = getattr(x, "lin", None)
        dft_log(interp.ctx).append(dict(op="fftn", src=x, src_fn=x.fn, axes=ax, raw_axes=_axes_tuple(axes, x.ndim), out=r, out_func=r.func))
        return r

    def m_ifftn(interp, x, s=None, axes=None, norm=None, **kw):
        if not isinstance(x, SymArr):
            return interp.native(np.fft.ifftn, x, s=s, axes=axes, norm=norm, **kw)
        if s is not None or norm not in (None, "backward"):
            raise OutOfSubset("ifftn with s= / non-default norm")
        ax = _check_axes(_axes_tuple(axes, x.ndim), x.ndim, "ifftn")
        r = _fresh_like(interp.ctx, x, "IFFT")
        r.is_real = False
        r.lin = getattr(x, "lin", None)
        dft_log(interp.ctx).append(dict(op="ifftn", src=x, src_fn=x.fn, axes=ax, raw_axes=_axes_tuple(axes, x.ndim), out=r, out_func=r.func))
        return r

    M[np.fft.fftn] = m_fftn
    M[np.fft.ifftn] = m_ifftn

    def _shift(sign):
        def h(interp, x, axes=None):
            if not isinstance(x, SymArr):
                return interp.native(np.fft.fftshift if sign > 0 else np.fft.ifftshift, x, axes=axes)
            ax = _check_axes(_axes_tuple(axes, x.ndim), x.ndim, "fftshift")

            def fn(*idx, _x=x, _ax=ax):
                idx = list(idx)
                for a in set(_ax):
                    n = lift(_x.shape[a])
                    h2 = n / 2
                    mult = sum(1 for q in _ax if q == a)
                    for _ in range(mult):
                        # fftshift: out[i] = in[(i - n//2) mod n];  ifftshift: out[i] = in[(i + n//2) mod n]
                        idx[a] = _wrap_idx(idx[a], -h2 if sign > 0 else h2, n)
                return _x.fn(*idx)

            r = SymArr(x.shape, fn, x.kind, base=None)
            r.as_type = np.ndarray
            r.is_real = getattr(x, "is_real", True)
            r.lin = getattr(x, "lin", None)
            return r
        return h

    M[np.fft.fftshift] = _shift(+1)
    M[np.fft.ifftshift] = _shift(-1)


class _Bound:
    """A modelled bound method of a symbolic ndarray."""

    _sym_ok = True

    def __init__(self, f):
        self.f = f
        self.__module__ = "pyvc.lib.c06_models"

    def __call__(self, *a, **k):
        return self.f(*a, **k)
