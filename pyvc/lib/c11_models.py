"""TRUSTED models of the numpy / stdlib calls made by quantem's ragged `Vector` (property C11).

Cell arrays are `SymArr` index functions with `as_type = np.ndarray`: shape (rows, cols) with symbolic rows.
Every model states the library's documented behaviour only (nothing about quantem):

  np.zeros / np.ones / np.full(shape[, v])   constant array of that shape (new object); np.zeros_like / ones_like / empty_like(a): same shape as a; reversed(list) = the list backwards
  np.empty(shape)            array of that shape, arbitrary contents (new object)
  np.hstack([a, b, ...])     2-D: column-wise concatenation, equal row counts required (ValueError otherwise), new object
  np.vstack([a, b, ...])     2-D: row-wise concatenation, equal column counts required (ValueError otherwise), new object
  np.concatenate(xs, axis=0) 1-D / 2-D row-wise concatenation, new object
  a[:, j] = v                in-place column store; v is a scalar, a length-1 or a length-rows 1-D array (ValueError otherwise);
                             the right-hand side is read BEFORE the store (numpy copies on assignment)
  a[:, [j0, j1, ..]]         advanced indexing returns a NEW array (copy), a[:, j] / a[lo:hi] basic indexing returns a VIEW
  copy.deepcopy(x)           nested lists are rebuilt, arrays are copied (new objects, equal contents; an object occurring twice is rebuilt once), None stays None
  copy.copy(x)               list / dict: NEW outer container, the SAME element objects; ndarray: new array with copied data; None stays None
  id(x)                      object identity as an integer (distinct live objects have distinct ids)
  a.astype(dt) / a.dtype     (arrays with a tracked storage dtype) new array of dtype dt (None = float64); values converted by cast_fn
  np.asarray(obj)            obj.__array__() for an object implementing the array protocol
  set(xs) (only its len)     number of distinct elements
  list.index(x)              position of the first element equal to x, ValueError if absent

Copies are *frozen*: their index function is evaluated eagerly to a term over fresh bound variables, so that later
in-place updates of the source are not visible through the copy (and vice versa).
"""
from __future__ import annotations

import copy as _copy

import numpy as np
import z3

from .. import values as V
from ..values import Sym, SymArr, S, lift, contains_sym, ite, OutOfSubset
from ..interp import RaiseSig

_FRZ = [0]


# ---- storage dtype (ghost) -------------------------------------------------------------------------------------------
# A1 keeps VALUES mathematical; the dtype of an array is a ghost tag `np_dtype` (a real numpy dtype, or None = not tracked).
# Result dtypes follow numpy (np.result_type; np.zeros / empty default float64; astype(None) = float64).  A cast between two
# different dtypes is the identity on values only where it is value-preserving for EVERY element; otherwise it is an
# uninterpreted function of the element (int64 -> float64 rounds above 2**53, complex -> float drops the imaginary part,
# float -> int truncates, float64 -> float32 rounds): nothing but congruence is known about it.
VALUE_PRESERVING = {("float32", "float64"), ("float32", "complex64"), ("float32", "complex128"), ("float64", "complex128"), ("complex64", "complex128"),
                    ("int8", "int16"), ("int8", "int32"), ("int8", "int64"), ("int16", "int32"), ("int16", "int64"), ("int32", "int64"),
                    ("int8", "float32"), ("int16", "float32"), ("int8", "float64"), ("int16", "float64"), ("int32", "float64"),
                    ("int32", "complex128"), ("bool", "int64"), ("bool", "float64")}


def np_dtype(arr):
    return getattr(arr, "np_dtype", None)


def tag(arr, dt):
    arr.np_dtype = None if dt is None else np.dtype(dt)
    return arr


def result_dtype(arrs):
    dts = [np_dtype(a) for a in arrs]
    if any(d is None for d in dts) or not dts:
        return None
    return np.result_type(*dts)


def cast_fn(fn, src, dst):
    """Index function of an array converted from dtype `src` to dtype `dst`."""
    if src is None or dst is None or src == dst or (src.name, dst.name) in VALUE_PRESERVING:
        return fn
    f = z3.Function(f"cast_{src.name}_to_{dst.name}", z3.RealSort(), z3.RealSort())

    def g(*idx):
        t = lift(fn(*idx))
        if z3.is_bool(t):
            t = z3.If(t, z3.RealVal(1), z3.RealVal(0))
        if z3.is_int(t):
            t = z3.ToReal(t)
        return Sym(f(t))

    return g


def ndarray(shape, fn, kind="real", name=None, dtype=None):
    a = SymArr(tuple(shape), fn, kind, name=name)
    a.as_type = np.ndarray
    if dtype is not None:
        tag(a, dtype)
    return a


def is_nd(x):
    return isinstance(x, SymArr) and not x.pylist


def frozen_fn(arr):
    """Index function of `arr` as of NOW (eager snapshot through a term with placeholder variables)."""
    _FRZ[0] += 1
    vs = [z3.Int(f"frz!{_FRZ[0]}!{d}") for d in range(arr.ndim)]
    val = arr.fn(*vs)
    if val is None or isinstance(val, (SymArr, list, tuple, dict, str)):
        raise OutOfSubset("freeze of an array with structured elements")
    t = lift(val)

    def fn(*idx, _t=t, _vs=vs):
        if not _vs:
            return Sym(_t)
        return Sym(z3.substitute(_t, *[(v, lift(i)) for v, i in zip(_vs, idx)]))

    return fn


def freeze(arr, name=None):
    """New array object with the current contents of `arr` (a copy)."""
    r = ndarray(arr.shape, frozen_fn(arr), arr.kind, name=name or arr.name, dtype=np_dtype(arr))
    return r


def fresh_cell(ctx, name, cols, ndim=2, rows=None, dtype=None):
    """Arbitrary real array: `rows` x `cols` (ndim 2), or 1-D of length rows, or 3-D rows x cols x extra."""
    if rows is None:
        rows = ctx.fresh(name + "_rows", "int")
        ctx.assume(rows.t >= 0)
    if ndim == 1:
        shape = (rows,)
    elif ndim == 2:
        shape = (rows, cols)
    else:
        extra = ctx.fresh(name + "_extra", "int")
        ctx.assume(extra.t >= 0)
        shape = (rows, cols, extra)
    a = ctx.fresh_arr(name, shape, "real")
    a.as_type = np.ndarray
    if dtype is not None:
        tag(a, dtype)
    return a


def _prefix(lengths):
    offs = [0]
    for n in lengths:
        offs.append(offs[-1] + n)
    return offs


def concat_rows(arrs):
    """Row-wise concatenation of 1-D or 2-D arrays with equal trailing shape (caller checked)."""
    rdt = result_dtype(arrs)
    fns = [cast_fn(frozen_fn(a), np_dtype(a), rdt) for a in arrs]
    offs = _prefix([a.shape[0] for a in arrs])
    nd = arrs[0].ndim

    def fn(*idx):
        i = idx[0]
        r = fns[-1](i - lift(offs[len(arrs) - 1]), *idx[1:])
        for q in range(len(arrs) - 2, -1, -1):
            r = ite(i < lift(offs[q + 1]), fns[q](i - lift(offs[q]), *idx[1:]), r)
        return r

    shape = (offs[-1],) + tuple(arrs[0].shape[1:])
    return ndarray(shape, fn, arrs[0].kind, dtype=rdt)


def install(reg):
    M = reg.models

    def _shape_of(a):
        if isinstance(a, (tuple, list)):
            return tuple(a)
        return (a,)

    def m_zeros(interp, shape, dtype=None, **kw):
        shape = _shape_of(shape)
        if not contains_sym(shape):
            return interp.native(np.zeros, shape, dtype=dtype, **kw)
        for d in shape:
            if contains_sym(d) and interp.truth(S(d) < 0):
                raise RaiseSig(ValueError("negative dimensions are not allowed"))
        return ndarray(shape, lambda *i: 0.0, "real", dtype=dtype or "float64")

    M[np.zeros] = m_zeros

    def m_ones(interp, shape, dtype=None, **kw):
        shape = _shape_of(shape)
        if not contains_sym(shape):
            return interp.native(np.ones, shape, dtype=dtype, **kw)
        return ndarray(shape, lambda *i: 1.0, "real", dtype=dtype or "float64")

    M[np.ones] = m_ones

    def m_full(interp, shape, fill_value, dtype=None, **kw):
        shape = _shape_of(shape)
        if not contains_sym((shape, fill_value)):
            return interp.native(np.full, shape, fill_value, dtype=dtype, **kw)
        return ndarray(shape, lambda *i: fill_value, "real")

    M[np.full] = m_full

    def _like(f, val):
        def h(interp, x, dtype=None, **kw):
            if not isinstance(x, SymArr):
                return interp.native(f, x, dtype=dtype, **kw)
            dt = dtype if dtype is not None else np_dtype(x)
            if val is None:
                a = interp.ctx.fresh_arr("np_empty_like", x.shape, "real")
                a.as_type = np.ndarray
                return tag(a, dt)
            return ndarray(x.shape, lambda *i: val, "real", dtype=dt)
        return h

    M[np.zeros_like] = _like(np.zeros_like, 0.0)
    M[np.ones_like] = _like(np.ones_like, 1.0)
    M[np.empty_like] = _like(np.empty_like, None)

    def c_reversed(interp, xs):
        vals = interp.iter_values(xs)
        if vals is None:
            raise OutOfSubset("reversed() of a symbolic-length sequence")
        return list(reversed(vals))

    reg.ctor_models[reversed] = c_reversed

    def m_empty(interp, shape, dtype=None, **kw):
        shape = _shape_of(shape)
        if not contains_sym(shape):
            return interp.native(np.empty, shape, dtype=dtype, **kw)
        a = interp.ctx.fresh_arr("np_empty", shape, "real")
        a.as_type = np.ndarray
        return tag(a, dtype or "float64")

    M[np.empty] = m_empty

    def _as_list(interp, xs):
        vals = interp.iter_values(xs)
        if vals is None:
            raise OutOfSubset("stack/concatenate over a symbolic-length sequence of arrays")
        return list(vals)

    def _lift_nd(x):
        """real numpy arrays that meet symbolic ones are lifted to index functions."""
        if isinstance(x, SymArr):
            return x
        if isinstance(x, np.ndarray):
            data = x.tolist()

            def fn(*idx, _d=data):
                raise OutOfSubset("concrete ndarray mixed with symbolic arrays")

            if x.size == 0:
                return ndarray(x.shape, lambda *i: 0.0, "real", dtype=x.dtype)
            raise OutOfSubset("concrete non-empty ndarray mixed with symbolic arrays")
        raise OutOfSubset(f"array-like {type(x).__name__} in stack/concatenate")

    def m_hstack(interp, xs):
        xs = _as_list(interp, xs)
        if not any(isinstance(x, SymArr) for x in xs):
            return interp.native(np.hstack, xs)
        xs = [_lift_nd(x) for x in xs]
        if any(x.ndim != 2 for x in xs):
            raise OutOfSubset("np.hstack of non-2-D symbolic arrays")
        rows = xs[0].shape[0]
        for x in xs[1:]:
            if not V.dims_equal(rows, x.shape[0]):
                if interp.truth(S(rows) != S(x.shape[0])):
                    raise RaiseSig(ValueError("all the input array dimensions except for the concatenation axis must match exactly"))
        rdt = result_dtype(xs)
        fns = [cast_fn(frozen_fn(x), np_dtype(x), rdt) for x in xs]
        offs = _prefix([x.shape[1] for x in xs])

        def fn(i, j):
            r = fns[-1](i, j - lift(offs[len(xs) - 1]))
            for q in range(len(xs) - 2, -1, -1):
                r = ite(j < lift(offs[q + 1]), fns[q](i, j - lift(offs[q])), r)
            return r

        return ndarray((rows, offs[-1]), fn, xs[0].kind, dtype=rdt)

    M[np.hstack] = m_hstack

    def m_vstack(interp, xs):
        xs = _as_list(interp, xs)
        if not any(isinstance(x, SymArr) for x in xs):
            return interp.native(np.vstack, xs)
        xs = [_lift_nd(x) for x in xs]
        if any(x.ndim != 2 for x in xs):
            raise OutOfSubset("np.vstack of non-2-D symbolic arrays")
        cols = xs[0].shape[1]
        for x in xs[1:]:
            if not V.dims_equal(cols, x.shape[1]):
                if interp.truth(S(cols) != S(x.shape[1])):
                    raise RaiseSig(ValueError("all the input array dimensions except for the concatenation axis must match exactly"))
        return concat_rows(xs)

    M[np.vstack] = m_vstack

    def m_concatenate(interp, xs, axis=0, **kw):
        xs = _as_list(interp, xs)
        if not any(isinstance(x, SymArr) for x in xs):
            return interp.native(np.concatenate, xs, axis=axis, **kw)
        xs = [_lift_nd(x) for x in xs]
        if axis != 0:
            raise OutOfSubset("np.concatenate along axis != 0 on symbolic arrays")
        nd = xs[0].ndim
        if any(x.ndim != nd for x in xs):
            raise RaiseSig(ValueError("all the input arrays must have same number of dimensions"))
        for x in xs[1:]:
            for a, b in zip(xs[0].shape[1:], x.shape[1:]):
                if not V.dims_equal(a, b):
                    if interp.truth(S(a) != S(b)):
                        raise RaiseSig(ValueError("all the input array dimensions except for the concatenation axis must match exactly"))
        return concat_rows(xs)

    M[np.concatenate] = m_concatenate

    # ---- copy.deepcopy / copy.copy: EXACT identity semantics -------------------------------------------------
    # deepcopy(x): every mutable object reachable from x is rebuilt ONCE (the memo keeps the sharing structure of the source:
    # an object that occurs twice in x occurs twice - as ONE new object - in the result); immutable atoms stay themselves.
    # copy(x): a NEW outermost container holding the VERY SAME element objects (list / dict / tuple is itself); for an ndarray
    # a new array with a copy of the data (ndarray.__copy__); None and other immutable atoms stay themselves.
    def deep(x, memo=None):
        memo = {} if memo is None else memo
        if isinstance(x, (list, dict, SymArr, np.ndarray)) and id(x) in memo:
            return memo[id(x)][0]
        if isinstance(x, list):
            r = []
            memo[id(x)] = (r, x)
            r.extend(deep(e, memo) for e in x)
            return r
        if isinstance(x, tuple):
            return tuple(deep(e, memo) for e in x)
        if isinstance(x, dict):
            r = {}
            memo[id(x)] = (r, x)
            r.update({k: deep(v, memo) for k, v in x.items()})
            return r
        if isinstance(x, SymArr):
            r = freeze(x)
            r.pylist = x.pylist
            memo[id(x)] = (r, x)
            return r
        if isinstance(x, Sym) or x is None or isinstance(x, (int, float, str, bool)):
            return x
        if isinstance(x, np.ndarray):
            r = x.copy()
            memo[id(x)] = (r, x)
            return r
        raise OutOfSubset(f"deepcopy of {type(x).__name__}")

    def m_deepcopy(interp, x, memo=None):
        if not contains_sym(x):
            return interp.native(_copy.deepcopy, x)
        return deep(x)

    M[_copy.deepcopy] = m_deepcopy

    def m_copy(interp, x):
        if isinstance(x, SymArr):
            if x.pylist:
                vals = interp.iter_values(x)
                if vals is None:
                    raise OutOfSubset("copy.copy of a symbolic-length list")
                return list(vals)
            return freeze(x)  # ndarray.__copy__: new array object, copied data
        if isinstance(x, list):
            return list(x)  # new list, the same element objects
        if isinstance(x, dict):
            return dict(x)
        if isinstance(x, (tuple, Sym)) or x is None or isinstance(x, (int, float, str, bool)):
            return x
        if isinstance(x, np.ndarray):
            return x.copy()
        raise OutOfSubset(f"copy.copy of {type(x).__name__}")

    M[_copy.copy] = m_copy

    # ---- id(x): an integer that identifies the OBJECT for as long as it is alive (two live objects never have the same id).
    # Abstract arrays / lists are real python objects inside the interpreter (TRUSTED: identity = allocation identity), so the
    # interpreter-level id has exactly this contract; the objects a program asks the id of are kept alive for the rest of the path.
    import builtins as _bi

    def m_id(interp, x):
        interp.ctx.ghost.setdefault("id_keepalive", []).append(x)
        return id(x)

    M[_bi.id] = m_id

    # ---- set(xs): only len() is supported on the result -----------------------------------------
    def c_set(interp, xs=()):
        vals = interp.iter_values(xs)
        if vals is None:
            raise OutOfSubset("set() of a symbolic-length iterable")
        if not contains_sym(vals):
            return interp.native(set, vals)
        n = 0
        for i, x in enumerate(vals):
            eqs = []
            dup = False
            for y in vals[:i]:
                r = interp.compare(_EQ, x, y)
                if r is True:
                    dup = True
                    break
                if r is False:
                    continue
                eqs.append(lift(r))
            if dup:
                continue
            if eqs:
                n = n + Sym(z3.If(z3.Or(*eqs), z3.IntVal(0), z3.IntVal(1)))
            else:
                n = n + 1
        r = SymArr((n,), lambda i: (_ for _ in ()).throw(OutOfSubset("elements of a symbolic set")), "obj", pylist=True, name="set")
        r.is_set = True
        return r

    import ast as _ast

    _EQ = _ast.Eq()
    reg.ctor_models[set] = c_set

    # ---- list.index with a symbolic needle / symbolic elements: fork on the first match -----------
    def m_index(interp, lst, x, *rest):
        if rest or not contains_sym((lst, x)):
            return interp.native(lst.index, x, *rest)
        for j, e in enumerate(lst):
            r = interp.compare(_EQ, e, x)
            if interp.truth(r):
                return j
        raise RaiseSig(ValueError("value is not in list"))

    reg.method_models[(list, "index")] = m_index

    # ---- python containers merely STORE symbolic values: the real list methods are used -----------
    def _store(name):
        def h(interp, lst, *a):
            a = [interp.iter_values(x) if isinstance(x, SymArr) and name == "extend" else x for x in a]
            return interp.native(getattr(lst, name), *a)
        return h

    for _n in ("append", "extend", "insert"):
        reg.method_models[(list, _n)] = _store(_n)

    # ---- item protocol on symbolic ndarrays ------------------------------------------------------
    prev_get = reg.getitem_models.get(SymArr)

    def gi(interp, base, key):
        if prev_get is not None:
            r = prev_get(interp, base, key)
            if r is not NotImplemented:
                return r
        if not is_nd(base):
            return NotImplemented
        k = key if isinstance(key, tuple) else (key,)
        adv = any(isinstance(e, list) or (isinstance(e, SymArr) and e.ndim >= 1) or isinstance(e, np.ndarray) for e in k)
        if not adv:
            if np_dtype(base) is None:
                return NotImplemented
            r = SymArr.__getitem__(base, key)  # basic indexing (a view); the dtype tag travels with it
            return tag(r, np_dtype(base)) if isinstance(r, SymArr) else r
        k2 = []
        for ax, e in enumerate(k):
            if isinstance(e, np.ndarray):
                e = e.tolist()
            if isinstance(e, list):
                n = base.shape[ax] if ax < base.ndim else 0
                for q in e:
                    if contains_sym((q, n)):
                        if interp.truth(Sym(z3.Or(lift(q) < -lift(n), lift(q) >= lift(n)))):
                            raise RaiseSig(IndexError("index out of bounds"))
                    elif q < -n or q >= n:
                        raise RaiseSig(IndexError("index out of bounds"))
                e = [q if contains_sym((q, n)) or q >= 0 else q + n for q in e]
            k2.append(e)
        r = SymArr.__getitem__(base, tuple(k2))
        if isinstance(r, SymArr):
            r = tag(freeze(r), np_dtype(base))  # advanced indexing copies
        return r

    reg.getitem_models[SymArr] = gi

    def si(interp, base, key, value):
        if not is_nd(base):
            return NotImplemented
        if not (isinstance(key, tuple) and len(key) == 2 and base.ndim == 2 and isinstance(key[0], slice)
                and key[0] == slice(None) and not isinstance(key[1], (slice, list, SymArr, np.ndarray))):
            return NotImplemented
        j = lift(base._norm_index(key[1], base.shape[1]))
        rows = base.shape[0]
        if isinstance(value, np.ndarray):
            if value.size == 0 and value.ndim == 1:
                value = ndarray((0,), lambda i: 0.0)
            else:
                raise OutOfSubset("concrete ndarray stored into a symbolic array")
        if isinstance(value, SymArr) and value.ndim >= 1:
            if value.ndim != 1:
                raise OutOfSubset("column store of a non-1-D array")
            m = value.shape[0]
            vf = cast_fn(frozen_fn(value), np_dtype(value), np_dtype(base))  # the store converts to the destination's dtype
            if V.dims_equal(m, rows):
                col = lambda r: vf(r)
            else:
                if interp.truth(Sym(z3.And(lift(m) != lift(rows), lift(m) != 1))):
                    raise RaiseSig(ValueError("could not broadcast input array into shape (rows,)"))
                col = lambda r: ite(lift(m) == lift(rows), vf(r), vf(z3.IntVal(0)))
        else:
            if isinstance(value, SymArr):
                value = value.fn()
            if not (isinstance(value, (Sym, int, float)) or hasattr(value, "dtype")):
                raise OutOfSubset(f"column store of {type(value).__name__}")
            col = lambda r, _v=value: _v
        old = frozen_fn(base) if base.base is not base else base.fn

        def fn(r, c, _old=old, _col=col, _j=j):
            return ite(c == _j, _col(r), _old(r, c))

        base.fn = fn
        base.writes += 1
        if base.base is not base:
            raise OutOfSubset("column store through a view")
        return True

    reg.setitem_models[SymArr] = si

    # ---- .astype(dtype) / .dtype on arrays whose storage dtype is tracked ---------------------------------------------
    prev_attr = reg.attr_models.get(SymArr)

    def arr_attr(interp, base, name):
        if is_nd(base) and np_dtype(base) is not None:
            if name == "dtype":
                return np_dtype(base)
            if name == "astype":
                def astype(dtype=None, *a, copy=True, **kw):
                    dst = np.dtype("float64") if dtype is None else np.dtype(dtype)  # astype(None): numpy's default dtype, float64
                    return ndarray(base.shape, cast_fn(frozen_fn(base), np_dtype(base), dst), base.kind, dtype=dst)

                astype._sym_ok = True
                return astype
            if name == "copy":
                def copy_(*a, **kw):
                    return freeze(base)

                copy_._sym_ok = True
                return copy_
        if prev_attr is not None:
            return prev_attr(interp, base, name)
        return NotImplemented

    reg.attr_models[SymArr] = arr_attr

    # ---- np.asarray / np.array of an abstract object that implements the array protocol: numpy calls obj.__array__() --------
    prev_asarray = M.get(np.asarray)

    def m_asarray(interp, x, dtype=None, **kw):
        from ..values import Obj

        if isinstance(x, Obj) and hasattr(x.cls, "__array__"):
            r = interp.call(interp.getattr(x, "__array__"), [], {})
            if dtype is not None and isinstance(r, SymArr):
                r = interp.call(interp.getattr(r, "astype"), [dtype], {})
            return r
        if isinstance(x, SymArr) and np_dtype(x) is not None and not x.pylist:
            if dtype is not None and np.dtype(dtype) != np_dtype(x):
                return interp.call(interp.getattr(x, "astype"), [dtype], {})
            return x
        return prev_asarray(interp, x, dtype=dtype, **kw)

    M[np.asarray] = m_asarray
    M[np.array] = m_asarray

    # ---- lst[i] = v with symbolic i and structured elements (arrays / None / sublists): fork on the position -------
    def si_list(interp, base, key, v):
        if not isinstance(key, Sym):
            return NotImplemented
        structured = lambda x: x is None or isinstance(x, (SymArr, list, tuple, dict, str)) or hasattr(x, "fields")
        if not (structured(v) or any(structured(x) for x in base)):
            return NotImplemented
        n = len(base)
        i = SymArr._norm_index(None, key, n)  # IndexError path when out of [-n, n)
        for j in range(n):
            if interp.ctx.branch(lift(i) == j):
                base[j] = v
                return True
        from ..interp import PathEnd

        raise PathEnd("index out of enumerated range")

    reg.setitem_models[list] = si_list
