"""TRUSTED contracts of torch functions on symbolic tensors (A6).  Tensors are SymArr index functions."""
from __future__ import annotations

import math

import torch
import z3

from .. import values as V
from .. import reals
from ..values import Sym, SymArr, S, lift, contains_sym, ite, OutOfSubset, elementwise
from ..interp import RaiseSig


def tensor(shape, fn, kind="real"):
    a = SymArr(tuple(shape), fn, kind)
    a.as_type = torch.Tensor
    return a


def install(reg):
    M = reg.models

    def _shape_args(a):
        if len(a) == 1 and isinstance(a[0], (tuple, list)):
            return tuple(a[0])
        return tuple(a)

    def m_arange(interp, *a, **kw):
        if not contains_sym(a):
            return interp.native(torch.arange, *a, **kw)
        if len(a) != 1:
            raise OutOfSubset("torch.arange(start, stop) with symbolic bounds")
        # torch.arange(n) with n < 0 raises RuntimeError (numpy returns an empty array) (engine self-test: t_arange_symbolic)
        if isinstance(a[0], Sym) and a[0].is_int and interp.ctx.branch(a[0].t < 0):
            raise RaiseSig(RuntimeError("upper bound and lower bound inconsistent with step sign"))
        return tensor((V.smax(0, a[0]),), lambda i: Sym(i), "int")

    M[torch.arange] = m_arange

    def _const(val, kind_default):
        def h(interp, *a, dtype=None, device=None, **kw):
            shape = _shape_args(a)
            if not contains_sym(shape):
                f = torch.zeros if val == 0 else torch.ones
                return interp.native(f, *a, dtype=dtype, device=device, **kw)
            # a negative extent raises RuntimeError in torch (engine self-test: t_zeros_ones_symbolic)
            for d_ in shape:
                if isinstance(d_, Sym) and d_.is_int and interp.ctx.branch(d_.t < 0):
                    raise RaiseSig(RuntimeError("Trying to create tensor with negative dimension"))
            int_dtypes = (torch.int8, torch.uint8, torch.int16, torch.int32, torch.int64, torch.long, torch.int, torch.short)
            kind = "int" if dtype in int_dtypes else "bool" if dtype is torch.bool else kind_default
            v = (False if val == 0 else True) if kind == "bool" else (val if kind == "int" else float(val))
            r = tensor(shape, lambda *i: v, kind)
            # the requested dtype is recorded (None = torch's default float32): the engine computes with mathematical integers /
            # reals (A1, A2), so whether the dtype can HOLD the values the code stores is for a contract clause to state
            r.requested_dtype = dtype
            return r
        return h

    M[torch.zeros] = _const(0, "real")
    M[torch.ones] = _const(1, "real")

    def m_zeros_like(interp, x, **kw):
        if isinstance(x, SymArr):
            return tensor(x.shape, lambda *i: 0 if x.kind == "int" else 0.0, x.kind)
        return interp.native(torch.zeros_like, x, **kw)

    M[torch.zeros_like] = m_zeros_like

    def m_full_like(interp, x, val, **kw):
        if isinstance(x, SymArr):
            return tensor(x.shape, lambda *i: val, x.kind)
        return interp.native(torch.full_like, x, val, **kw)

    M[torch.full_like] = m_full_like

    def m_where(interp, c, a=None, b=None):
        if a is None:
            raise OutOfSubset("torch.where(cond) (nonzero form)")
        if not contains_sym((c, a, b)):
            return interp.native(torch.where, c, a, b)
        if not any(isinstance(x, SymArr) for x in (c, a, b)):
            return ite(c, a, b)
        return elementwise(lambda cc, x, y: ite(cc, x, y), c, a, b, kind=getattr(a, "kind", getattr(b, "kind", "real")))

    M[torch.where] = m_where

    def m_roll(interp, x, shifts, dims=None):
        if not isinstance(x, SymArr):
            return interp.native(torch.roll, x, shifts, dims)
        if isinstance(shifts, (tuple, list)) or isinstance(dims, (tuple, list)):
            r = x
            for s, d in zip(shifts, dims):
                r = m_roll(interp, r, s, d)
            return r
        if dims is None:
            raise OutOfSubset("torch.roll without dims")
        d = dims % x.ndim
        n = lift(x.shape[d])
        sh = lift(shifts)

        small = isinstance(shifts, int) and abs(shifts) <= 1

        def fn(*idx, _xf=x.fn, _d=d):
            idx = list(idx)
            # out[i] = in[(i - shift) mod n]   (n > 0 on any inhabited index)
            if small:
                # |shift| <= 1 <= n: the modulus is a single conditional wrap (keeps obligations linear)
                j = idx[_d] - shifts
                idx[_d] = z3.If(j >= n, j - n, z3.If(j < 0, j + n, j))
            else:
                idx[_d] = V.py_mod(idx[_d] - sh, n)
            return _xf(*idx)

        return tensor(x.shape, fn, x.kind)

    M[torch.roll] = m_roll

    def m_stack(interp, xs, dim=0):
        xs = list(xs)
        if not any(isinstance(x, SymArr) for x in xs):
            return interp.native(torch.stack, xs, dim=dim)
        base = xs[0]
        d = dim % (base.ndim + 1)

        def fn(*idx, _xs=[x.fn for x in xs], _d=d):
            idx = list(idx)
            j = idx.pop(_d)
            jl = V.simp(lift(j))
            if z3.is_int_value(jl) and 0 <= jl.as_long() < len(_xs):
                return _xs[jl.as_long()](*idx)  # concrete position along the stacked axis: select directly
            r = _xs[-1](*idx)
            for q in range(len(_xs) - 2, -1, -1):
                r = ite(j == q, _xs[q](*idx), r)
            return r

        shape = list(base.shape)
        shape.insert(d, len(xs))
        return tensor(shape, fn, "real")

    M[torch.stack] = m_stack

    def m_cat(interp, xs, dim=0):
        xs = list(xs)
        if not any(isinstance(x, SymArr) for x in xs):
            return interp.native(torch.cat, xs, dim=dim)
        base = xs[0]
        d = dim % base.ndim
        fns = [x.fn for x in xs]
        sizes = [x.shape[d] for x in xs]
        total = sizes[0]
        for z in sizes[1:]:
            total = total + z

        def fn(*idx, _d=d):
            idx = list(idx)
            i = idx[_d]
            # piecewise along the concatenation axis
            offs = [z3.IntVal(0)]
            for z in sizes[:-1]:
                offs.append(offs[-1] + lift(z))
            sub = list(idx)
            sub[_d] = i - offs[-1]
            r = fns[-1](*sub)
            for q in range(len(xs) - 2, -1, -1):
                sub = list(idx)
                sub[_d] = i - offs[q]
                r = ite(i < offs[q + 1], fns[q](*sub), r)
            return r

        shape = list(base.shape)
        shape[d] = total
        return tensor(shape, fn, base.kind)

    M[torch.cat] = m_cat

    for name in ("cos", "sin", "exp", "log", "sqrt", "sinh"):
        f = getattr(torch, name)

        def h(interp, x, _n=name, _f=f, **kw):
            if isinstance(x, SymArr):
                return elementwise(lambda e: reals.app(_n, e), x)
            if isinstance(x, Sym):
                return reals.app(_n, x)
            return interp.native(_f, x, **kw)

        M[f] = h

    def m_abs(interp, x):
        if isinstance(x, (Sym, SymArr)):
            return abs(x)
        return interp.native(torch.abs, x)

    M[torch.abs] = m_abs

    def m_sum(interp, x, dim=None, keepdim=False, **kw):
        if isinstance(x, SymArr):
            return x.sum(dim=dim, keepdim=keepdim)
        return interp.native(torch.sum, x, dim=dim, keepdim=keepdim) if dim is not None else interp.native(torch.sum, x)

    M[torch.sum] = m_sum

    def m_clamp(interp, x, min=None, max=None):
        def cl(e):
            r = e
            if min is not None:
                r = V.smax(r, min)
            if max is not None:
                r = V.smin(r, max)
            return r
        if isinstance(x, SymArr):
            return elementwise(cl, x)
        if isinstance(x, Sym):
            return cl(x)
        return interp.native(torch.clamp, x, min=min, max=max)

    M[torch.clamp] = m_clamp

    def m_is_tensor(interp, x):
        return isinstance(x, SymArr) and getattr(x, "as_type", None) is torch.Tensor or torch.is_tensor(x)

    M[torch.is_tensor] = m_is_tensor
