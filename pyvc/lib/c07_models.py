"""TRUSTED models (A5/A6) of the torch / numpy / scipy functions used by quantem.tomography.radon.radon and by
scikit-image's `_get_fourier_filter` (the reference source that is interpreted next to the port).

Each model states the *library's* contract on index-function tensors; nothing here knows about quantem.

* `Tensor` - SymArr with the torch/numpy view API (unsqueeze / squeeze / expand / view / flatten / transpose / clamp / long ...).
  A tensor obtained by merging axes (`flatten`, `view(B, -1, 2)`) remembers the un-merged tensor (`un`), so that the
  inverse `view` is the identity on the index function (C-order ravel/unravel are inverse bijections: trusted) instead
  of a non-linear div/mod expression.
* slice / strided / boolean-mask assignment as a functional update with a broadcast (shape) obligation.
* `grid_sample` - ONLY mode='bilinear', padding_mode='zeros', align_corners=True are modelled; the three keywords are
  call-site obligations.  out[b,ch,i,j] = bilinear interpolation with zeros outside of input[b,ch] at the pixel coordinates
  x = (g0+1)/2*(W-1), y = (g1+1)/2*(H-1)   (align_corners=True un-normalisation).
* fft / ifft (torch.fft, scipy.fft) - A5: uninterpreted linear operators, one fresh function symbol per application, logged in
  ctx.ghost['c07_fft']; fftfreq / fftshift are index maps; window functions by their textbook formulas.
* `2 ** ceil(log2(x))` = the smallest power of two >= x (for 1 <= x <= 2^31; A1: float32 rounding of log2 ignored).
"""
from __future__ import annotations

import operator

import numpy as np
import torch
import torch.nn.functional as F
import z3

from .. import values as V
from .. import reals
from ..values import Sym, SymArr, S, lift, contains_sym, ite, OutOfSubset, elementwise, _dim_lit, dims_equal
from ..interp import RaiseSig


# --------------------------------------------------------------------------------------------------------------
# Tensor
# --------------------------------------------------------------------------------------------------------------

def _prod(ds):
    r = 1
    for d in ds:
        r = r * d
    return r


def as_int_term(t):
    """Integer-sorted term equal to the real term `t`, if `t` is (after simplification) built from integer numerals,
    ToReal(int terms), + and *; None otherwise."""
    t = z3.simplify(t)

    def conv(e):
        if z3.is_int(e):
            return e
        if z3.is_rational_value(e):
            return z3.IntVal(e.numerator_as_long()) if e.denominator_as_long() == 1 else None
        if z3.is_app(e):
            k = e.decl().kind()
            if k == z3.Z3_OP_TO_REAL:
                return e.arg(0)
            if k in (z3.Z3_OP_ADD, z3.Z3_OP_MUL, z3.Z3_OP_SUB, z3.Z3_OP_UMINUS):
                cs = [conv(c) for c in e.children()]
                if any(c is None for c in cs):
                    return None
                if k == z3.Z3_OP_ADD:
                    return z3.Sum(cs)
                if k == z3.Z3_OP_SUB:
                    r = cs[0]
                    for c in cs[1:]:
                        r = r - c
                    return r
                if k == z3.Z3_OP_UMINUS:
                    return -cs[0]
                return z3.Product(cs)
        return None

    return conv(t)


def _is_neg1(d):
    return (not isinstance(d, Sym)) and d == -1


class Tensor(SymArr):
    as_type = torch.Tensor

    def __init__(self, shape, fn, kind="real", un=None, int_fn=None):
        super().__init__(shape, fn, kind)
        self.un = un  # (un-merged Tensor, axis, number of merged axes) or None
        self.int_fn = int_fn  # for floor()-ed real tensors: the integer-sorted element function

    # -- wrapping
    @staticmethod
    def of(a, un=None):
        if isinstance(a, Tensor):
            return a
        if isinstance(a, SymArr):
            t = Tensor(a.shape, a.fn, a.kind, un=un)
            for k in ("func", "name"):
                if hasattr(a, k):
                    setattr(t, k, getattr(a, k))
            return t
        return a

    def copy(self):
        return Tensor(self.shape, self.fn, self.kind, un=self.un, int_fn=self.int_fn)

    clone = copy

    def __repr__(self):
        return f"Tensor(shape={self.shape} kind={self.kind})"

    # -- elementwise (keeps the un-merged twin when both operands share the merge structure)
    def _ew(self, other, f, swap=False):
        g = (lambda a, b: f(b, a)) if swap else f
        r = Tensor.of(elementwise(g, self, other))
        if self.un is not None:
            u, ax, m = self.un
            if not isinstance(other, SymArr):
                r.un = (Tensor.of(elementwise(g, u, other)), ax, m)
            elif isinstance(other, Tensor) and other.un is not None and other.un[1:] == (ax, m) and other.ndim == self.ndim:
                r.un = (Tensor.of(elementwise(g, u, other.un[0])), ax, m)
        return r

    def __neg__(self):
        return self._ew(0, lambda a, b: -S(a))

    def __abs__(self):
        return self._ew(0, lambda a, b: abs(S(a)))

    def __invert__(self):
        return self._ew(0, lambda a, b: ~S(a))

    def __getitem__(self, key):
        r = SymArr.__getitem__(self, key)
        return Tensor.of(r)

    def sum(self, axis=None, dim=None, keepdim=False, keepdims=False):
        return Tensor.of(SymArr.sum(self, axis=axis, dim=dim, keepdim=keepdim, keepdims=keepdims))

    # -- dtype views
    def float(self):
        return self

    def long(self):
        # NB: `kind` is informational only (elementwise results inherit it from their first operand): decide by sort
        if self.int_fn is not None:
            return Tensor(self.shape, self.int_fn, "int", un=None if self.un is None else (self.un[0].long(), self.un[1], self.un[2]))

        def trunc(e):
            t = V._num(lift(e))
            if z3.is_int(t):
                return Sym(t)
            return Sym(z3.If(t >= 0, z3.ToInt(t), -z3.ToInt(-t)))

        r = self._ew(0, lambda a, b: trunc(a))
        r.kind = "int"
        return r

    def clamp(self, min=None, max=None):
        def cl(e, _):
            r = e
            if min is not None:
                r = V.smax(r, min)
            if max is not None:
                r = V.smin(r, max)
            return r

        r = self._ew(0, cl)
        r.kind = self.kind
        return r

    # -- shape manipulation
    def _axis(self, d, extra=0):
        n = self.ndim + extra
        d = int(d)
        if d < -n or d >= n:
            raise RaiseSig(IndexError("Dimension out of range"))
        return d % n

    def unsqueeze(self, d):
        d = self._axis(d, 1)
        src = self
        shape = self.shape[:d] + (1,) + self.shape[d:]
        return Tensor(shape, lambda *i: src.fn(*(i[:d] + i[d + 1:])), self.kind)

    def squeeze(self, d=None):
        if d is None:
            axes = [k for k, s in enumerate(self.shape) if _dim_lit(s) == 1]
            if any(_dim_lit(s) is None for s in self.shape):
                raise OutOfSubset("squeeze() without dim on a tensor with symbolic extents")
        else:
            d = self._axis(d)
            s = self.shape[d]
            if _dim_lit(s) == 1 or (_dim_lit(s) is None and V.cur().entails(lift(s) == 1)):
                axes = [d]
            elif _dim_lit(s) is not None or V.cur().entails(lift(s) != 1):
                axes = []
            else:
                axes = [d] if V.cur().branch(lift(s) == 1) else []
        if not axes:
            return self
        src = self
        keep = [k for k in range(self.ndim) if k not in axes]

        def fn(*i):
            full = [z3.IntVal(0)] * src.ndim
            for p, k in enumerate(keep):
                full[k] = i[p]
            return src.fn(*full)

        return Tensor(tuple(self.shape[k] for k in keep), fn, self.kind)

    def expand(self, *sizes):
        if len(sizes) == 1 and isinstance(sizes[0], (tuple, list)):
            sizes = tuple(sizes[0])
        if len(sizes) != self.ndim:
            raise OutOfSubset("expand() that adds dimensions")
        shape, bc = [], []
        for s, d in zip(sizes, self.shape):
            if _is_neg1(s):
                shape.append(d)
                bc.append(False)
            elif _dim_lit(d) == 1:
                shape.append(s)
                bc.append(True)
            else:
                if not dims_equal(s, d):
                    raise RaiseSig(RuntimeError("expanded size must match the existing size at non-singleton dimension"))
                shape.append(d)
                bc.append(False)
        src = self
        return Tensor(tuple(shape), lambda *i: src.fn(*[z3.IntVal(0) if b else x for x, b in zip(i, bc)]), self.kind)

    def transpose(self, a, b):
        a, b = self._axis(a), self._axis(b)
        perm = list(range(self.ndim))
        perm[a], perm[b] = perm[b], perm[a]
        src = self

        def fn(*i):
            full = [None] * src.ndim
            for p, k in enumerate(perm):
                full[k] = i[p]
            return src.fn(*full)

        return Tensor(tuple(self.shape[k] for k in perm), fn, self.kind)

    def flip(self, *dims):
        """torch.Tensor.flip: out[.., i, ..] = self[.., n-1-i, ..] along each listed axis (exact index map)."""
        if len(dims) == 1 and isinstance(dims[0], (tuple, list)):
            dims = tuple(dims[0])
        axes = sorted({self._axis(d) for d in dims})
        src = self

        def fn(*i):
            i = list(i)
            for ax in axes:
                i[ax] = lift(S(src.shape[ax])) - 1 - i[ax]
            return src.fn(*i)

        return Tensor(self.shape, fn, self.kind)

    def flatten(self):
        return self.view(-1)

    ravel = flatten

    def view(self, *shape):
        if len(shape) == 1 and isinstance(shape[0], (tuple, list)):
            shape = tuple(shape[0])
        shape = list(shape)

        def matches(target, actual):
            if len(target) != len(actual):
                return False
            return all(_is_neg1(t) or dims_equal(t, a) for t, a in zip(target, actual))

        # leading 1s are an unsqueeze
        lead = 0
        while lead < len(shape) and not _is_neg1(shape[lead]) and _dim_lit(shape[lead]) == 1 and len(shape) - lead > 1:
            lead += 1
        for k in range(lead, -1, -1):
            tgt = shape[k:]
            # (a) the inverse of an earlier merge
            if self.un is not None and matches(tgt, self.un[0].shape):
                r = self.un[0]
                for _ in range(k):
                    r = r.unsqueeze(0)
                return r if k else r.copy()
            # (b) same shape
            if matches(tgt, self.shape):
                r = self
                for _ in range(k):
                    r = r.unsqueeze(0)
                return r if k else r.copy()
        # (c) a merge of m >= 2 adjacent axes
        m = self.ndim - len(shape) + 1
        if m >= 2:
            for a in range(len(shape)):
                if matches(shape[:a], self.shape[:a]) and matches(shape[a + 1:], self.shape[a + m:]):
                    merged = _prod(self.shape[a:a + m])
                    if not _is_neg1(shape[a]) and not dims_equal(shape[a], merged):
                        continue
                    new_shape = self.shape[:a] + (merged,) + self.shape[a + m:]
                    src = self
                    dims = self.shape[a:a + m]

                    def fn(*i, _a=a, _m=m, _dims=dims):
                        lin = i[_a]
                        sub = []
                        for d in reversed(_dims[1:]):
                            d = lift(d)
                            sub.append(lin % d)
                            lin = lin / d
                        sub.append(lin)
                        return src.fn(*(list(i[:_a]) + list(reversed(sub)) + list(i[_a + 1:])))

                    return Tensor(new_shape, fn, self.kind, un=(self, a, m))
        r = Tensor.of(SymArr.reshape(self, *shape))
        return r

    reshape = view

    @property
    def dtype(self):
        # `dt`: storage dtype stated by the contract's setup for an INPUT tensor (value kind of the argument); the engine still
        # computes with mathematical numbers (A1/A2) - the tag only feeds dtype-valued arguments / clauses
        dt = self.__dict__.get("dt")
        if dt is not None:
            return dt
        return {"int": torch.int64, "real": torch.float32, "bool": torch.bool}.get(self.kind, torch.float32)


def is_bool_arr(a):
    """`kind` is informational only: decide by the sort of a generic element."""
    try:
        e = a.fn(*[z3.Int(f"i!sort{d}") for d in range(a.ndim)])
        return isinstance(e, bool) or z3.is_bool(lift(e))
    except OutOfSubset:
        return False


def from_nested(x, kind="real"):
    """torch.tensor / np.array of a (nested) list of scalars."""
    if not isinstance(x, (list, tuple)):
        return x
    if x and isinstance(x[0], (list, tuple)):
        rows = [from_nested(r, kind) for r in x]
        n0, n1 = len(rows), rows[0].shape[0]

        def fn(i, j, _rows=rows):
            r = _rows[-1].fn(j)
            for q in range(len(_rows) - 2, -1, -1):
                r = ite(i == q, _rows[q].fn(j), r)
            return r

        return Tensor((n0, n1), fn, kind)
    xs = [e.fn() if isinstance(e, SymArr) and e.ndim == 0 else e for e in x]
    return Tensor.of(V.from_list(xs, kind=kind, pylist=False))


def fresh_tensor(ctx, base, shape, kind="real"):
    return Tensor.of(ctx.fresh_arr(base, shape, kind))


# --------------------------------------------------------------------------------------------------------------
# assignment  a[key] = value   (int / slice with positive step / boolean mask), with the broadcast obligation
# --------------------------------------------------------------------------------------------------------------

def tensor_setitem(interp, base, key, value):
    if not isinstance(key, tuple):
        key = (key,)
    if any(k is Ellipsis or k is None for k in key):
        raise OutOfSubset("Ellipsis / None in tensor assignment")
    if all(not isinstance(k, (slice, SymArr, list)) for k in key) and len(key) == base.ndim:
        SymArr.__setitem__(base, key, value)
        return True
    conds = []   # per axis: callable(idx list) -> z3 bool
    pos = []     # selected axes: callable(idx list) -> position term in the selection
    sel_shape = []
    ax = 0
    for k in key:
        if isinstance(k, slice):
            n = base.shape[ax]
            lo, hi, step, ln = SymArr._slice_bounds(k, n)
            lo_t, hi_t = lift(lo), lift(hi)

            def c(idx, _ax=ax, _lo=lo_t, _hi=hi_t, _st=step):
                t = [idx[_ax] >= _lo, idx[_ax] < _hi]
                if V.is_z3(_st) or _st != 1:
                    t.append((idx[_ax] - _lo) % _st == 0)
                return z3.And(*t)

            def p(idx, _ax=ax, _lo=lo_t, _st=step):
                d = idx[_ax] if (z3.is_int_value(_lo) and _lo.as_long() == 0) else idx[_ax] - _lo
                return d / _st if (V.is_z3(_st) or _st != 1) else d

            conds.append(c)
            pos.append(p)
            sel_shape.append(ln)
            ax += 1
        elif isinstance(k, SymArr) and is_bool_arr(k):
            if not all(dims_equal(a, b) for a, b in zip(k.shape, base.shape[ax:ax + k.ndim])):
                raise RaiseSig(IndexError("boolean mask shape mismatch"))
            conds.append(lambda idx, _ax=ax, _k=k: lift(_k.fn(*idx[_ax:_ax + _k.ndim])))
            if isinstance(value, SymArr) and value.ndim > 0:
                raise OutOfSubset("boolean-mask assignment of an array value")
            ax += k.ndim
        elif isinstance(k, (SymArr, list)):
            raise OutOfSubset("integer-array assignment")
        else:
            i = lift(SymArr._norm_index(base, k, base.shape[ax]))
            conds.append(lambda idx, _ax=ax, _i=i: idx[_ax] == _i)
            ax += 1
    for a in range(ax, base.ndim):
        pos.append(lambda idx, _a=a: idx[_a])
        sel_shape.append(base.shape[a])
    if base.base is not base:
        base.detach_from_base()
    old = base.fn
    w_before = base.writes

    def pre_write(f):
        """The assigned value was computed BEFORE the write (it may read `base` through a slice view, as in
        `a[1:] *= w`): evaluate it against the pre-write state of `base`."""
        def g(*a):
            saved = base.writes
            base.writes = w_before
            try:
                return f(*a)
            finally:
                base.writes = saved
        return g
    if isinstance(value, SymArr) and value.ndim > 0:
        # broadcast obligation (torch / numpy raise otherwise)
        if value.ndim > len(sel_shape):
            raise RaiseSig(RuntimeError("shape mismatch in assignment"))
        off = len(sel_shape) - value.ndim
        for j, d in enumerate(value.shape):
            tgt = sel_shape[off + j]
            if _dim_lit(d) == 1:
                continue
            if not dims_equal(d, tgt):
                if V.cur().branch(z3.Not(lift(d) == lift(tgt))):
                    raise RaiseSig(RuntimeError("shape mismatch: value cannot be broadcast to the indexed region"))
        val = value

        def vfn(idx, _val=val, _off=off):
            ps = [p(idx) for p in pos][_off:]
            sub = [z3.IntVal(0) if _dim_lit(_val.shape[j]) == 1 else ps[j] for j in range(_val.ndim)]
            return pre_write(_val.fn)(*sub)
    else:
        v0 = value.fn() if isinstance(value, SymArr) else value

        def vfn(idx, _v=v0):
            return _v

    def fn(*idx, _old=old):
        idx = list(idx)
        c = z3.And(*[cc(idx) for cc in conds]) if conds else z3.BoolVal(True)
        return ite(c, vfn(idx), _old(*idx))

    base.fn = fn
    base.writes += 1
    return True


# --------------------------------------------------------------------------------------------------------------
# bilinear sampling with zero padding (the element function of grid_sample / skimage warp order=1, constant 0)
# --------------------------------------------------------------------------------------------------------------

def guarded_pixel(pix, H, W, r, c):
    """pix(r, c) inside the H x W image, 0 outside (zero padding)."""
    return z3.If(z3.And(r >= 0, r < lift(H), c >= 0, c < lift(W)), reals._real(pix(r, c)), z3.RealVal(0))


def bilinear_zero(pix, H, W, x, y):
    """Bilinear interpolation at pixel coordinates (x = column, y = row) of the H x W image `pix(r, c)`, zeros outside."""
    x, y = reals._real(x), reals._real(y)
    x0, y0 = z3.ToInt(x), z3.ToInt(y)
    wx, wy = x - z3.ToReal(x0), y - z3.ToReal(y0)

    def P(r, c):
        return guarded_pixel(pix, H, W, r, c)

    return Sym((1 - wy) * ((1 - wx) * P(y0, x0) + wx * P(y0, x0 + 1)) + wy * ((1 - wx) * P(y0 + 1, x0) + wx * P(y0 + 1, x0 + 1)))


# --------------------------------------------------------------------------------------------------------------
# smallest power of two >= x
# --------------------------------------------------------------------------------------------------------------
MAX_LOG2 = 31


def next_pow2(x):
    x = reals._real(x)
    r = z3.IntVal(2 ** MAX_LOG2)
    for e in range(MAX_LOG2 - 1, -1, -1):
        r = z3.If(x <= 2 ** e, z3.IntVal(2 ** e), r)
    return r


class Log2Val:
    _pyvc_value = True

    def __init__(self, x):
        self.x = x


class CeilLog2Val:
    _pyvc_value = True

    def __init__(self, x):
        self.x = x


class ComplexT:
    """Complex tensor as a (re, im) pair of real tensors."""

    _pyvc_value = True

    def __init__(self, re, im, prov=None):
        self.re, self.im, self.prov = re, im, prov
        self.shape = re.shape
        self.ndim = re.ndim


def fft_log(ctx):
    return ctx.ghost.setdefault("c07_fft", [])


def gs_log(ctx):
    return ctx.ghost.setdefault("c07_grid_sample", [])


def rot_log(ctx):
    return ctx.ghost.setdefault("c07_rot90", [])


def rot90_source(km, n0, n1, i, j):
    """torch.rot90(x, k, dims=(d0, d1)) with k = km (mod 4): the (d0, d1)-index of x that output index (i, j) of the (d0, d1)
    plane reads.  n0, n1 = extents of x along d0, d1.  (k=1: x.flip(d1).transpose(d0, d1); k=2: x.flip(d0).flip(d1);
    k=3: x.flip(d0).transpose(d0, d1) - the rotation is about the geometric centre ((n0-1)/2, (n1-1)/2) of the plane.)"""
    n0, n1 = lift(n0), lift(n1)
    return [(i, j), (j, n1 - 1 - i), (n0 - 1 - i, n1 - 1 - j), (n0 - 1 - j, i)][km]


def install(reg):
    M = reg.models
    reg.setitem_models[Tensor] = tensor_setitem

    def _shape_args(a):
        if len(a) == 1 and isinstance(a[0], (tuple, list)):
            return tuple(a[0])
        return tuple(a)

    # ---------------------------------------------------------------- constructors
    def _arange(lib):
        def m_arange(interp, *a, dtype=None, device=None, **kw):
            if not contains_sym(a):
                if 1 <= len(a) <= 3 and all(isinstance(v, int) and not isinstance(v, bool) for v in a) and interp.ctx.ghost.get("c07_arange_as_index_function") \
                        and (len(a) < 3 or a[2] != 0):
                    # arange of integer literals as the index function i -> start + i*step of length len(range(...)) (exact): a loop over
                    # it is then verified by its invariant at an arbitrary position instead of being unrolled (opt-in per contract, via
                    # the ghost flag)
                    rg = range(*a)
                    return Tensor((len(rg),), lambda i, _s=rg.start, _st=rg.step: Sym(_s + _st * lift(i)), "int")
                return interp.native(lib.arange, *a, **({"dtype": dtype} if dtype is not None else {}), **kw)
            if len(a) == 1:
                start, stop, step = 0, a[0], 1
            elif len(a) == 2:
                start, stop, step = a[0], a[1], 1
            else:
                start, stop, step = a
            if isinstance(step, Sym):
                step = step.literal()
            if not isinstance(step, int) or step == 0:
                raise OutOfSubset("arange with a symbolic / zero / non-integer step")
            # length = max(0, ceil((stop - start) / step)); element i = start + i*step (cast to int by truncation for dtype=int)
            s_t = lift(S(start))
            dd = lift(S(stop) - S(start))
            want_int = dtype in (int, torch.int64, torch.long, np.int64) or (dtype is None and z3.is_int(s_t) and z3.is_int(dd))
            if z3.is_int(dd) and z3.is_int(s_t):
                q, u, us = 1, dd, s_t
            else:
                # half-integer bounds such as size/2 + 1: scale to integers so that the VCs stay in linear integer arithmetic
                q = u = us = None
                for qq in (1, 2, 4):
                    u1, u2 = as_int_term(reals._real(dd) * qq), as_int_term(reals._real(s_t) * qq)
                    if u1 is not None and u2 is not None:
                        q, u, us = qq, u1, u2
                        break
            if q is not None:
                den = q * abs(step)
                if step > 0:
                    ln_t = z3.If(u > 0, (u + den - 1) / den if den != 1 else u, z3.IntVal(0))
                else:
                    ln_t = z3.If(u < 0, ((-u) + den - 1) / den if den != 1 else -u, z3.IntVal(0))
                if den == 1 and step > 0 and V.cur().entails(u >= 0):
                    ln_t = z3.simplify(u)
                ln = Sym(ln_t)

                def fn(i, _us=us, _q=q, _st=step):
                    num = _us + _q * _st * i
                    if _q == 1:
                        return Sym(num)
                    if want_int:
                        return Sym(z3.If(num >= 0, num / _q, -((-num) / _q)))
                    return Sym(z3.ToReal(num) / _q)
            else:
                d = reals._real(dd) / step
                ln = Sym(z3.If(d <= 0, z3.IntVal(0), -z3.ToInt(-d)))

                def fn(i, _s=s_t, _st=step):
                    v = reals._real(_s) + z3.ToReal(i) * _st
                    if want_int:
                        v = z3.If(v >= 0, z3.ToInt(v), -z3.ToInt(-v))
                    return Sym(v)

            return Tensor((ln,), fn, "int" if want_int else "real")
        return m_arange

    M[torch.arange] = _arange(torch)
    M[np.arange] = _arange(np)

    _enumerate_default = M.get(enumerate)

    def m_enumerate(interp, xs, start=0):
        # companion of the opt-in above: enumerate() over an index-function tensor stays an index-function iterable
        # (the generic model lists the elements when the length is a literal, which makes the loop an unrolled one)
        if isinstance(xs, Tensor) and interp.ctx.ghost.get("c07_arange_as_index_function"):
            from ..interp import SymEnumerate

            return SymEnumerate(xs, start)
        if _enumerate_default is None:
            raise OutOfSubset("enumerate")
        return _enumerate_default(interp, xs, start)

    M[enumerate] = m_enumerate

    def _zeros(lib):
        def m_zeros(interp, *a, dtype=None, device=None, **kw):
            shape = _shape_args(a)
            if not contains_sym(shape):
                shape = tuple(int(s) for s in shape)
            return Tensor(shape, lambda *i: 0.0, "real")
        return m_zeros

    M[torch.zeros] = _zeros(torch)
    M[np.zeros] = _zeros(np)

    def m_tensor(interp, x, dtype=None, device=None, **kw):
        if not contains_sym(x):
            if isinstance(x, (int, float)):
                return x
            return interp.native(torch.tensor, x, dtype=dtype, **kw)
        if isinstance(x, (Sym,)):
            return x
        return from_nested(x)

    M[torch.tensor] = m_tensor

    def m_meshgrid(interp, *ts, indexing=None):
        if len(ts) == 1 and isinstance(ts[0], (list, tuple)):
            ts = tuple(ts[0])
        if not any(isinstance(t, SymArr) for t in ts):
            return interp.native(torch.meshgrid, *ts, indexing=indexing)
        if indexing != "ij" or len(ts) != 2:
            raise OutOfSubset("meshgrid other than 2 tensors with indexing='ij'")
        a, b = ts
        shape = (a.shape[0], b.shape[0])
        return (Tensor(shape, lambda i, j: a.fn(i), a.kind), Tensor(shape, lambda i, j: b.fn(j), b.kind))

    M[torch.meshgrid] = m_meshgrid

    def m_stack(interp, xs, dim=0):
        xs = list(xs)
        if not any(isinstance(x, SymArr) for x in xs):
            return interp.native(torch.stack, xs, dim=dim)
        base = xs[0]
        d = dim % (base.ndim + 1)

        def fn(*idx, _xs=xs, _d=d):
            idx = list(idx)
            j = idx.pop(_d)
            r = _xs[-1].fn(*idx)
            for q in range(len(_xs) - 2, -1, -1):
                r = ite(j == q, _xs[q].fn(*idx), r)
            return r

        shape = list(base.shape)
        shape.insert(d, len(xs))
        return Tensor(tuple(shape), fn, base.kind)

    M[torch.stack] = m_stack

    def m_cat(interp, xs, dim=0, axis=None):
        xs = list(xs)
        if not any(isinstance(x, SymArr) for x in xs):
            return interp.native(torch.cat, xs, dim=dim)
        if any(x.ndim != 1 for x in xs):
            raise OutOfSubset("cat / concatenate of non-1-D tensors")
        r = xs[0]
        for x in xs[1:]:
            la, a, b = r.shape[0], r, x
            r = Tensor((S(la) + S(b.shape[0]),), (lambda i, _a=a, _b=b, _la=la: ite(i < lift(_la), _a.fn(i), _b.fn(i - lift(_la)))), a.kind)
        return r

    M[torch.cat] = m_cat
    M[np.concatenate] = m_cat

    def m_linspace(lib):
        def h(interp, start, end, steps=None, num=None, endpoint=True, device=None, dtype=None, **kw):
            n = steps if steps is not None else (num if num is not None else 50)
            if not contains_sym((start, end, n)):
                if lib is torch:
                    return interp.native(torch.linspace, start, end, steps=n)
                return interp.native(np.linspace, start, end, n, endpoint=endpoint)
            a, b = reals._real(start), reals._real(end)
            nt = lift(n)
            den = z3.ToReal(nt - 1) if endpoint else z3.ToReal(nt)
            # one sample (endpoint=True): [start]
            return Tensor((n,), lambda i: Sym(z3.If(den == 0, a, a + (b - a) * z3.ToReal(i) / den)), "real")
        return h

    M[torch.linspace] = m_linspace(torch)
    M[np.linspace] = m_linspace(np)

    # ---------------------------------------------------------------- pointwise
    def m_deg2rad(interp, x):
        if isinstance(x, (Sym, SymArr)):
            return x * Sym(V.PI) / 180
        return interp.native(torch.deg2rad, x)

    M[torch.deg2rad] = m_deg2rad

    def _unary(name, f):
        def h(interp, x, **kw):
            if isinstance(x, Tensor):
                return x._ew(0, lambda e, _: reals.app(name, e))
            if isinstance(x, SymArr):
                return Tensor.of(elementwise(lambda e: reals.app(name, e), x))
            if isinstance(x, Sym):
                return reals.app(name, x)
            return interp.native(f, x, **kw)
        return h

    for name in ("cos", "sin", "sqrt"):
        M[getattr(torch, name)] = _unary(name, getattr(torch, name))
        M[getattr(np, name)] = _unary(name, getattr(np, name))

    def m_floor(interp, x):
        if isinstance(x, Tensor):
            r = x._ew(0, lambda e, _: Sym(z3.ToReal(z3.ToInt(reals._real(e)))))
            src = x
            r.int_fn = lambda *i: Sym(z3.ToInt(reals._real(src.fn(*i))))
            if x.un is not None:
                u = x.un[0]
                r.un[0].int_fn = lambda *i: Sym(z3.ToInt(reals._real(u.fn(*i))))
            return r
        if isinstance(x, Sym):
            return Sym(z3.ToReal(z3.ToInt(reals._real(x))))
        return interp.native(torch.floor, x)

    M[torch.floor] = m_floor

    def m_log2(interp, x):
        if isinstance(x, Sym):
            return Log2Val(x)
        return interp.native(torch.log2 if torch.is_tensor(x) else np.log2, x)

    M[torch.log2] = m_log2
    M[np.log2] = m_log2

    def m_ceil(interp, x):
        if isinstance(x, Log2Val):
            return CeilLog2Val(x.x)
        if isinstance(x, Sym):
            return Sym(z3.ToReal(-z3.ToInt(-reals._real(x))))
        return interp.native(torch.ceil if torch.is_tensor(x) else np.ceil, x)

    M[torch.ceil] = m_ceil
    M[np.ceil] = m_ceil

    def pow_model(interp, op, a, b):
        if isinstance(b, CeilLog2Val) and not contains_sym(a) and a == 2:
            # 2 ** ceil(log2(x)) : smallest power of two >= x, for 1 <= x <= 2**31 (call-site obligation)
            x = reals._real(b.x)
            interp.ctx.prove("call 2**ceil(log2(x)): 1 <= x <= 2**31", z3.And(x >= 1, x <= 2 ** MAX_LOG2), kind="call-pre")
            return Sym(next_pow2(x))
        return NotImplemented

    reg.binop_models[(CeilLog2Val, operator.pow)] = pow_model

    # int.bit_length() and 1 << e on symbolic non-negative integers (bounded by 2**MAX_LOG2, call-site obligations)
    def sym_attr(interp, base, name):
        if name == "bit_length" and base.is_int:
            def bit_length():
                x = base.t
                interp.ctx.prove("call int.bit_length: 0 <= x < 2**32", z3.And(x >= 0, x < 2 ** (MAX_LOG2 + 1)), kind="call-pre", assume_after=False)
                r = z3.IntVal(MAX_LOG2 + 1)
                for e in range(MAX_LOG2, -1, -1):
                    r = z3.If(x < 2 ** e, z3.IntVal(e), r)      # smallest e with x < 2**e
                return Sym(r)
            bit_length._sym_ok = True
            return bit_length
        return NotImplemented

    reg.attr_models[Sym] = sym_attr

    def lshift_model(interp, op, a, b):
        if isinstance(b, Sym) and b.is_int and not contains_sym(a) and isinstance(a, int):
            e = b.t
            interp.ctx.prove("call <<: 0 <= shift <= 40", z3.And(e >= 0, e <= 40), kind="call-pre", assume_after=False)
            r = z3.IntVal(a * 2 ** 40)
            for q in range(39, -1, -1):
                r = z3.If(e == q, z3.IntVal(a * 2 ** q), r)
            return Sym(r)
        return NotImplemented

    reg.binop_models[(Sym, operator.lshift)] = lshift_model

    def m_real(interp, x):
        if isinstance(x, ComplexT):
            return x.re
        if isinstance(x, (Sym, SymArr)):
            return x
        return interp.native(torch.real if torch.is_tensor(x) else np.real, x)

    M[torch.real] = m_real
    M[np.real] = m_real

    # ---------------------------------------------------------------- linear algebra / indexing
    def m_matmul(interp, a, b):
        if not (isinstance(a, SymArr) or isinstance(b, SymArr)):
            return interp.native(torch.matmul, a, b)
        if a.ndim != 3 or b.ndim != 3:
            raise OutOfSubset("matmul other than [B,M,K] @ [B,K,Q]")
        K = _dim_lit(a.shape[2])
        if K is None or _dim_lit(b.shape[1]) != K:
            raise OutOfSubset("matmul with symbolic / mismatching inner dimension")
        if not dims_equal(a.shape[0], b.shape[0]):
            raise RaiseSig(RuntimeError("matmul batch mismatch"))

        def mk(src):
            def fn(*i):
                bi, rest, q = i[0], i[1:-1], i[-1]
                tot = None
                for p in range(K):
                    t = S(src.fn(bi, *rest, z3.IntVal(p))) * S(b.fn(bi, z3.IntVal(p), q))
                    tot = t if tot is None else tot + t
                return tot
            return fn

        r = Tensor((a.shape[0], a.shape[1], b.shape[2]), mk(a), "real")
        if isinstance(a, Tensor) and a.un is not None and a.un[1] == 1:
            u, ax, m = a.un
            r.un = (Tensor(u.shape[:-1] + (b.shape[2],), mk(u), "real"), ax, m)
        return r

    M[torch.matmul] = m_matmul

    def m_gather(interp, inp, dim, index):
        if not (isinstance(inp, SymArr) or isinstance(index, SymArr)):
            return interp.native(torch.gather, inp, dim, index)
        if inp.ndim != 2 or index.ndim != 2 or dim not in (1, -1):
            raise OutOfSubset("gather other than 2-D along dim 1")
        n = lift(inp.shape[1])
        b_, l_ = z3.Int("b!g"), z3.Int("l!g")
        v = lift(index.fn(b_, l_))
        # torch raises RuntimeError for an out-of-range index: call-site obligation
        interp.ctx.prove("call torch.gather: index in [0, size)",
                         z3.ForAll([b_, l_], z3.Implies(z3.And(b_ >= 0, b_ < lift(index.shape[0]), l_ >= 0, l_ < lift(index.shape[1])), z3.And(v >= 0, v < n))),
                         kind="call-pre", assume_after=False)
        interp.ctx.ghost.setdefault("c07_gather", []).append(dict(input=inp, index=index))
        r = Tensor(index.shape, lambda bi, li: inp.fn(bi, lift(index.fn(bi, li))), inp.kind)
        if isinstance(index, Tensor) and index.un is not None and index.un[1] == 1:
            u, ax, m = index.un
            r.un = (Tensor(u.shape, lambda bi, *rest: inp.fn(bi, lift(u.fn(bi, *rest))), inp.kind), ax, m)
        return r

    M[torch.gather] = m_gather

    def m_pad(interp, x, pad, mode="constant", value=None):
        if not isinstance(x, SymArr) and not contains_sym(pad):
            return interp.native(F.pad, x, pad, mode=mode, value=value)
        if mode != "constant" or value not in (None, 0, 0.0) or len(pad) != 2:
            raise OutOfSubset("F.pad other than constant zero padding of the last axis")
        lo, hi = pad
        interp.ctx.prove("call F.pad: pad >= 0", z3.And(lift(S(lo)) >= 0, lift(S(hi)) >= 0), kind="call-pre", assume_after=False)
        n = x.shape[-1]
        src = x

        def fn(*i):
            j = i[-1] - lift(S(lo))
            return ite(z3.And(j >= 0, j < lift(n)), src.fn(*i[:-1], j), 0.0)

        r = Tensor(x.shape[:-1] + (S(n) + S(lo) + S(hi),), fn, "real")
        r.pad_of = (x, lo, hi)
        return r

    M[F.pad] = m_pad

    def m_grid_sample(interp, inp, grid, mode="bilinear", padding_mode="zeros", align_corners=None):
        if not (isinstance(inp, SymArr) or isinstance(grid, SymArr)):
            return interp.native(F.grid_sample, inp, grid, mode=mode, padding_mode=padding_mode, align_corners=align_corners)
        ctx = interp.ctx
        # only this configuration is modelled; anything else is a different function
        ctx.prove("call grid_sample: mode='bilinear'", z3.BoolVal(mode == "bilinear"), kind="call-pre")
        ctx.prove("call grid_sample: padding_mode='zeros'", z3.BoolVal(padding_mode == "zeros"), kind="call-pre")
        ctx.prove("call grid_sample: align_corners=True", z3.BoolVal(align_corners is True), kind="call-pre")
        if inp.ndim != 4 or grid.ndim != 4 or _dim_lit(grid.shape[3]) != 2:
            raise RaiseSig(RuntimeError("grid_sample expects [B,C,H,W] input and [B,Ho,Wo,2] grid"))
        if not dims_equal(inp.shape[0], grid.shape[0]):
            raise RaiseSig(RuntimeError("grid_sample batch mismatch"))
        H, W = inp.shape[2], inp.shape[3]

        def xpix(b, i, j):
            return Sym((reals._real(grid.fn(b, i, j, z3.IntVal(0))) + 1) / 2 * z3.ToReal(lift(W) - 1))

        def ypix(b, i, j):
            return Sym((reals._real(grid.fn(b, i, j, z3.IntVal(1))) + 1) / 2 * z3.ToReal(lift(H) - 1))

        def fn(b, ch, i, j):
            return bilinear_zero(lambda r, c: inp.fn(b, ch, r, c), H, W, xpix(b, i, j), ypix(b, i, j))

        out = Tensor((inp.shape[0], inp.shape[1], grid.shape[1], grid.shape[2]), fn, "real")
        gs_log(ctx).append(dict(input=inp, grid=grid, xpix=xpix, ypix=ypix, out=out, mode=mode, padding_mode=padding_mode, align_corners=align_corners))
        return out

    M[F.grid_sample] = m_grid_sample

    def m_rot90(interp, x, k=1, dims=(0, 1)):
        """torch.rot90: an exact index map (no interpolation).  A symbolic k forks on k mod 4."""
        if not isinstance(x, SymArr) and not contains_sym(k):
            return interp.native(torch.rot90, x, k, dims)
        if not isinstance(x, SymArr):
            raise OutOfSubset("rot90 of a concrete tensor with a symbolic k")
        ctx = interp.ctx
        dims = [d.literal() if isinstance(d, Sym) else d for d in dims]
        if len(dims) != 2 or any(not isinstance(d, int) for d in dims):
            raise RaiseSig(RuntimeError("expected total rotation dims == 2"))
        if any(d < -x.ndim or d >= x.ndim for d in dims):
            raise RaiseSig(IndexError("Dimension out of range"))
        d0, d1 = dims[0] % x.ndim, dims[1] % x.ndim
        if d0 == d1:
            raise RaiseSig(RuntimeError("expected rotation dims to be different"))
        kt = lift(S(k))
        if not z3.is_int(kt):
            raise OutOfSubset("rot90 with a non-integer k")
        lit = z3.simplify(kt % 4)   # SMT mod with a positive divisor is Python's %
        if z3.is_int_value(lit):
            km = lit.as_long()
        else:
            km = 3
            for c in (0, 1, 2):
                if ctx.branch(kt % 4 == c):
                    km = c
                    break
        n0, n1 = x.shape[d0], x.shape[d1]
        shape = list(x.shape)
        if km in (1, 3):
            shape[d0], shape[d1] = n1, n0
        src = x

        def source(i, j):
            return rot90_source(km, n0, n1, i, j)

        def fn(*idx):
            idx = list(idx)
            idx[d0], idx[d1] = source(idx[d0], idx[d1])
            return src.fn(*idx)

        out = Tensor(tuple(shape), fn, x.kind)
        rot_log(ctx).append(dict(input=x, k=k, km=km, dims=(d0, d1), out=out, source=source))
        return out

    M[torch.rot90] = m_rot90

    # ---------------------------------------------------------------- constant tensors / reductions used by the callers
    def _like(lib_f, v):
        def h(interp, x, dtype=None, device=None, **kw):
            if not isinstance(x, SymArr):
                return interp.native(lib_f, x, **kw)
            return Tensor(x.shape, lambda *i: v, "real")
        return h

    def m_as_tensor(interp, x, dtype=None, device=None, **kw):
        # torch.as_tensor of a tensor: the same values (A1: the float32 conversion is ignored)
        if isinstance(x, (SymArr, Sym)):
            return Tensor.of(x) if isinstance(x, SymArr) else x
        return interp.native(torch.as_tensor, x, dtype=dtype, **kw)

    M[torch.as_tensor] = m_as_tensor

    def m_remainder(interp, x, d):
        """torch.remainder(x, d) = x - d*floor(x/d) elementwise (exact real remainder, sign of the divisor)."""
        if not isinstance(x, (SymArr, Sym)) and not isinstance(d, (SymArr, Sym)):
            return interp.native(torch.remainder, x, d)
        if isinstance(d, SymArr):
            raise OutOfSubset("remainder with a tensor divisor")

        def rem(e, _=None):
            e = reals._real(e)
            dd = reals._real(d)
            return Sym(e - dd * z3.ToReal(z3.ToInt(e / dd)))

        if isinstance(x, Tensor):
            return x._ew(0, rem)
        if isinstance(x, SymArr):
            return Tensor.of(elementwise(lambda e: rem(e), x))
        return rem(x)

    M[torch.remainder] = m_remainder
    M[torch.ones_like] = _like(torch.ones_like, 1.0)
    M[torch.zeros_like] = _like(torch.zeros_like, 0.0)

    def m_abs(interp, x):
        if isinstance(x, Tensor):
            return abs(x)
        if isinstance(x, SymArr):
            return Tensor.of(elementwise(lambda e: abs(S(e)), x))
        if isinstance(x, Sym):
            return abs(x)
        return interp.native(torch.abs, x)

    M[torch.abs] = m_abs

    def m_mean(interp, x, *a, **kw):
        """torch.mean over ALL elements: an uninterpreted scalar, logged with its argument (a function of that argument only)."""
        if not isinstance(x, SymArr):
            return interp.native(torch.mean, x, *a, **kw)
        if a or kw:
            raise OutOfSubset("torch.mean with dim= / keepdim=")
        out = interp.ctx.fresh("mean", "real")
        interp.ctx.ghost.setdefault("c07_mean", []).append(dict(src=x, out=out))
        return out

    M[torch.mean] = m_mean

    # ---------------------------------------------------------------- Fourier transforms (A5)
    def _fft(op):
        def h(interp, x, n=None, dim=-1, axis=None, norm=None, **kw):
            if not isinstance(x, (SymArr, ComplexT)):
                lib = {"fft": torch.fft.fft, "ifft": torch.fft.ifft}[op]
                return interp.native(lib, x, n=n, dim=dim, norm=norm)
            if n is not None or norm is not None:
                raise OutOfSubset("fft with n= / norm=")
            d = (axis if axis is not None else dim) % x.ndim
            ctx = interp.ctx
            nm = ctx.fresh_name(f"{op}_re"), ctx.fresh_name(f"{op}_im")
            fr = z3.Function(nm[0], *([z3.IntSort()] * x.ndim), z3.RealSort())
            fi = z3.Function(nm[1], *([z3.IntSort()] * x.ndim), z3.RealSort())
            re = Tensor(x.shape, lambda *i: Sym(fr(*i)), "real")
            im = Tensor(x.shape, lambda *i: Sym(fi(*i)), "real")
            out = ComplexT(re, im)
            rec = dict(op=op, src=x, dim=d, n=x.shape[d], out=out, re=fr, im=fi)
            out.prov = rec
            fft_log(ctx).append(rec)
            return out
        return h

    import scipy.fft as sfft

    M[torch.fft.fft] = _fft("fft")
    M[torch.fft.ifft] = _fft("ifft")
    M[sfft.fft] = _fft("fft")
    M[sfft.ifft] = _fft("ifft")
    M[np.fft.fft] = _fft("fft")

    def complex_mul(interp, op, a, b):
        if op is not operator.mul:
            return NotImplemented
        c, o = (a, b) if isinstance(a, ComplexT) else (b, a)
        if isinstance(o, ComplexT):
            raise OutOfSubset("complex * complex")
        r = ComplexT(Tensor.of(c.re * o), Tensor.of(c.im * o), prov=dict(op="mul", src=c, factor=o))
        return r

    reg.binop_models[(ComplexT, operator.mul)] = complex_mul

    def _fftfreq(interp, n, d=1.0, device=None, **kw):
        if not contains_sym(n):
            return interp.native(np.fft.fftfreq, n, d)
        nt = lift(n)
        # [0, 1, ..., (n-1)//2, -(n//2), ..., -1] / (d n)
        return Tensor((n,), lambda i: Sym(z3.If(i <= (nt - 1) / 2, z3.ToReal(i), z3.ToReal(i - nt)) / (z3.ToReal(nt) * reals._real(d))), "real")

    M[torch.fft.fftfreq] = _fftfreq
    M[sfft.fftfreq] = _fftfreq
    M[np.fft.fftfreq] = _fftfreq

    def _fftshift(interp, x, dim=None, axes=None):
        if not isinstance(x, SymArr):
            return interp.native(np.fft.fftshift, x)
        if x.ndim != 1:
            raise OutOfSubset("fftshift of a non-1-D tensor")
        nt = lift(x.shape[0])
        # out[i] = in[(i - n//2) mod n]
        return Tensor(x.shape, lambda i: x.fn(V.py_mod(i - nt / 2, nt)), x.kind)

    M[torch.fft.fftshift] = _fftshift
    M[sfft.fftshift] = _fftshift
    M[np.fft.fftshift] = _fftshift

    def _window(a0, a1):
        # generalised cosine window, symmetric (periodic=False): w[k] = a0 - a1*cos(2 pi k / (n-1)), n >= 2
        def h(interp, n, periodic=True, dtype=None, device=None, **kw):
            if not contains_sym(n):
                return interp.native(torch.hamming_window if a0 != 0.5 else torch.hann_window, n, periodic=periodic)
            nt = lift(n)
            den = z3.ToReal(nt) if periodic else z3.ToReal(nt - 1)
            return Tensor((n,), lambda k: Sym(z3.RealVal(a0) - z3.RealVal(a1) * reals.F["cos"](2 * V.PI * z3.ToReal(k) / den)), "real")
        return h

    M[torch.hamming_window] = _window("0.54", "0.46")
    M[torch.hann_window] = _window("0.5", "0.5")
    M[np.hamming] = lambda interp, n: _window("0.54", "0.46")(interp, n, periodic=False)
    M[np.hanning] = lambda interp, n: _window("0.5", "0.5")(interp, n, periodic=False)


# --------------------------------------------------------------------------------------------------------------
# conformance of the models with the real libraries (concrete evaluation of the model formulas)
# --------------------------------------------------------------------------------------------------------------

def conformance_cases():
    """Yields (name, violated, detail): the formulas the models assume, evaluated against the real library."""
    import math

    for n in (2, 3, 4, 5, 8, 9, 64):
        ff = np.fft.fftfreq(n)
        mod = np.array([(i if i <= (n - 1) // 2 else i - n) / n for i in range(n)])
        yield (f"fftfreq({n})", not (np.allclose(ff, mod) and np.allclose(torch.fft.fftfreq(n).numpy(), mod)), "")
        x = np.arange(n) * 1.0
        sh = np.array([x[(i - n // 2) % n] for i in range(n)])
        yield (f"fftshift({n})", not (np.allclose(np.fft.fftshift(x), sh) and np.allclose(torch.fft.fftshift(torch.tensor(x)).numpy(), sh)), "")
        if n >= 2:
            for nm, a0, a1, tw, nw in (("hamming", 0.54, 0.46, torch.hamming_window, np.hamming), ("hann", 0.5, 0.5, torch.hann_window, np.hanning)):
                mod = np.array([a0 - a1 * math.cos(2 * math.pi * k / (n - 1)) for k in range(n)])
                yield (f"{nm}({n})", not (np.allclose(nw(n), mod, atol=1e-12) and np.allclose(tw(n, periodic=False).numpy(), mod, atol=1e-6)), "")
        lt = torch.linspace(0, math.pi, steps=n).numpy()
        yield (f"torch.linspace({n})", not np.allclose(lt, [0.0 if n == 1 else math.pi * i / (n - 1) for i in range(n)], atol=1e-6), "")
        yield (f"np.linspace({n},endpoint=False)", not np.allclose(np.linspace(0, np.pi, n, endpoint=False), [math.pi * i / n for i in range(n)]), "")
    for x in (1, 2, 3, 4, 5, 31, 32, 33, 46, 64, 65, 1000, 1024, 1025):
        got = int(2 ** torch.ceil(torch.log2(torch.tensor(x, dtype=torch.float32))))
        got_np = int(2 ** np.ceil(np.log2(x)))
        want = 1
        while want < x:
            want *= 2
        yield (f"2**ceil(log2({x}))", not (got == want == got_np), f"torch {got} numpy {got_np} model {want}")
    for size in (4, 6, 8, 10, 64):
        a = np.arange(1, size / 2 + 1, 2, dtype=int)
        b = np.arange(size / 2 - 1, 0, -2, dtype=int)
        la = max(0, math.ceil((size / 2 + 1 - 1) / 2))
        lb = max(0, math.ceil((0 - (size / 2 - 1)) / -2))
        yield (f"np.arange float bounds dtype=int ({size})", not (len(a) == la and len(b) == lb and list(a) == [int(1 + 2 * i) for i in range(la)]
                                                                     and list(b) == [int(size / 2 - 1 - 2 * i) for i in range(lb)]), "")
    for xv, dv in ((180.0, 180.0), (0.0, 180.0), (179.5, 180.0), (-30.0, 180.0), (270.0, 180.0), (7.5, -2.0)):
        import math as _m
        yield (f"remainder({xv},{dv})", abs(float(torch.remainder(torch.tensor(xv), dv)) - (xv - dv * _m.floor(xv / dv))) > 1e-5, "")
    # rot90: exact index map, every k mod 4 (negative k too), non-square planes, planes inside a batch
    for shape, dims in (((2, 3), (0, 1)), ((3, 2), (1, 0)), ((2, 4, 3), (1, 2)), ((2, 3, 3), (1, 2)), ((2, 3, 4), (-1, 0))):
        xr = torch.arange(int(np.prod(shape))).reshape(shape)
        d0, d1 = dims[0] % len(shape), dims[1] % len(shape)
        for k in (-5, -2, -1, 0, 1, 2, 3, 6):
            got = torch.rot90(xr, k, dims=dims)
            km = k % 4
            eshape = list(shape)
            if km in (1, 3):
                eshape[d0], eshape[d1] = shape[d1], shape[d0]
            ok = list(got.shape) == eshape
            if ok:
                for idx in np.ndindex(*eshape):
                    sidx = list(idx)
                    r_, c_ = rot90_source(km, shape[d0], shape[d1], z3.IntVal(int(idx[d0])), z3.IntVal(int(idx[d1])))
                    sidx[d0], sidx[d1] = z3.simplify(lift(r_)).as_long(), z3.simplify(lift(c_)).as_long()
                    if int(got[idx]) != int(xr[tuple(sidx)]):
                        ok = False
                        break
            yield (f"rot90(shape={shape}, k={k}, dims={dims})", not ok, "")
    # grid_sample element function: bilinear, zeros outside, align_corners=True un-normalisation
    g = torch.Generator().manual_seed(3)
    img = torch.rand(1, 1, 4, 5, generator=g)
    pts = torch.tensor([[[[-1.0, -1.0], [1.0, 1.0], [0.3, -0.7], [1.2, 0.1], [-1.1, -1.3], [0.99, 0.98]]]])
    out = F.grid_sample(img, pts, mode="bilinear", padding_mode="zeros", align_corners=True)[0, 0, 0]
    for k in range(pts.shape[2]):
        gx, gy = float(pts[0, 0, k, 0]), float(pts[0, 0, k, 1])
        x, y = (gx + 1) / 2 * (5 - 1), (gy + 1) / 2 * (4 - 1)
        x0, y0 = math.floor(x), math.floor(y)
        wx, wy = x - x0, y - y0

        def P(r, c):
            return float(img[0, 0, r, c]) if 0 <= r < 4 and 0 <= c < 5 else 0.0

        mod = (1 - wy) * ((1 - wx) * P(y0, x0) + wx * P(y0, x0 + 1)) + wy * ((1 - wx) * P(y0 + 1, x0) + wx * P(y0 + 1, x0 + 1))
        yield (f"grid_sample point {k}", abs(mod - float(out[k])) > 1e-5, f"model {mod} torch {float(out[k])}")
