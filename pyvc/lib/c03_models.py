"""TRUSTED models of numpy / builtins used by contracts/C03.py (Dataset containers).

Every model states the *library's* contract (A6), nothing about quantem:
  * numpy indexing (basic slices with optional / negative / symbolic steps, integer indices, one-dimensional integer
    list indices with numpy's placement rule for the advanced axis), view-vs-copy provenance;
  * np.array / np.asarray / astype / copy / flatten / expand_dims / zeros / ones / full / pad / sum / prod / fft;
  * builtins: zero-argument super(), dir() on abstract objects, callable, hasattr on arrays, isinstance with `A | B`.
Arrays are `SymArr` index functions; provenance is `SymArr.base`, writes are counted in `SymArr.writes` of the base
(the engine increments it on every element / in-place write, also through views).
"""
from __future__ import annotations

import builtins
import hashlib
import types

import numpy as np
import z3

from .. import values as V
from ..values import Sym, SymArr, Obj, S, lift, contains_sym, ite, OutOfSubset
from ..interp import RaiseSig, BoundMethod, Closure

_snap = getattr(V, "_snap_fn", None)


# ------------------------------------------------------------------------------------------------
# small helpers
# ------------------------------------------------------------------------------------------------


def entailed_int(ctx, t):
    """The integer c with  pc |= t == c  (None if there is no such c).  Sound: only an entailed value is returned."""
    t = lift(t)
    s = V.simp(t)
    if z3.is_int_value(s):
        return s.as_long()
    sol = ctx.solver
    if sol.check() != z3.sat:
        return None
    v = sol.model().eval(t, model_completion=True)
    if not z3.is_int_value(v):
        return None
    c = v.as_long()
    return c if ctx.entails(t == c) else None


class LenSym(Sym):
    """Length of a sequence whose value becomes concrete once the path condition pins it (e.g. after `len(x) != ndim`)."""

    __slots__ = ()

    def literal(self):
        v = Sym.literal(self)
        if v is not None:
            return v
        try:
            ctx = V.cur()
        except RuntimeError:
            return None
        return entailed_int(ctx, self.t)


class OptInt:
    """Optional integer (slice start / stop) carried at value level: `is_none` z3 Bool, `val` z3 Int."""

    _pyvc_value = True

    def __init__(self, is_none, val):
        self.is_none = lift(is_none)
        self.val = lift(val)

    def __repr__(self):
        return f"OptInt({self.is_none},{self.val})"


def _guarded(src, view):
    """Index function of `src` as of now (+ the engine's stale-view guard when available)."""
    if _snap is not None:
        try:
            g = _snap(src, view=view)
            return g
        except TypeError:
            pass
    return src.fn


def _carry_guards(r, src, g):
    if hasattr(g, "exempt"):
        r._guards = tuple(getattr(src, "_guards", ())) + (g,)
    return r


def is_complex(a):
    return getattr(a, "iscomplex", False)


# ---- dtype tokens ---------------------------------------------------------------------------------------------------------------
# The dtype of an ndarray is an integer token `dtk`: a free symbol for an input array (ANY dtype: float, integer, unsigned, complex),
# numpy's default dtype of the element kind for arrays the models build from Python numbers, and an uninterpreted function of the
# operand dtypes for every operation that may change the dtype (sum, true division, fft, .real, arithmetic with a scalar).  Views,
# copies, slices, pad, reshape, expand_dims and in-place updates keep the dtype (numpy).  astype(d) has dtype d.

DT_DEFAULT = {"real": 1, "int": 2, "bool": 3, "complex": 4}


class DType:
    """value of `arr.dtype`: the token term + the element kind"""

    _pyvc_value = True

    def __init__(self, t, kind="real"):
        self.t = lift(t)
        self.kind = kind

    def __repr__(self):
        return f"dtype<{self.t}>"


def dtk(a):
    t = getattr(a, "dtk", None)
    if t is not None:
        return lift(t)
    return z3.IntVal(DT_DEFAULT.get(getattr(a, "kind", "real"), 1))


def dt_fun(name, *args):
    """result dtype of a numpy operation: an (uninterpreted) function of the operand dtypes / operand kind"""
    args = [lift(x) for x in args]
    F = z3.Function("dtype_of_" + name, *([z3.IntSort()] * len(args)), z3.IntSort())
    return F(*args)


def mark_nd(a, like=None, iscomplex=None):
    a.as_type = np.ndarray
    a.pylist = False
    if like is not None and getattr(a, "dtk", None) is None and getattr(like, "dtk", None) is not None:
        a.dtk = like.dtk
    if iscomplex is not None:
        a.iscomplex = iscomplex
    elif like is not None:
        a.iscomplex = is_complex(like)
    elif not hasattr(a, "iscomplex"):
        a.iscomplex = False
    return a


def nd(shape, fn, kind="real", base=None, like=None, iscomplex=None, name=None):
    a = SymArr(tuple(shape), fn, kind, False, name=name, base=base)
    return mark_nd(a, like, iscomplex)


def fresh_nd(ctx, name, ndim, kind="real", min_len=1, complex_flag=True):
    """Arbitrary ndarray with `ndim` axes, symbolic extents >= min_len, uninterpreted contents."""
    dims = []
    for i in range(ndim):
        d = ctx.fresh(f"{name}_n{i}", "int")
        ctx.assume(d.t >= min_len)
        dims.append(d)
    a = ctx.fresh_arr(name, tuple(dims), kind)
    a.dtk = ctx.fresh(name + "_dtype", "int").t  # arbitrary dtype (float / signed / unsigned / complex ...)
    return mark_nd(a, iscomplex=ctx.fresh(name + "_iscomplex", "bool").t if complex_flag else False)


def fresh_seq(ctx, name, kind="real", pylist=False, length=None):
    """1-D sequence (ndarray or Python list) of symbolic length (>= 0) with uninterpreted elements."""
    if length is None:
        n = ctx.fresh(name + "_len", "int")
        ctx.assume(n.t >= 0)
        n = LenSym(n.t)
    else:
        n = length
    nm = ctx.fresh_name(name)
    rng = {"int": z3.IntSort(), "real": z3.RealSort(), "bool": z3.BoolSort(), "str": z3.StringSort()}[kind]
    f = z3.Function(nm, z3.IntSort(), rng)
    a = SymArr((n,), lambda i, _f=f: Sym(_f(lift(i))), kind, pylist, name=nm)
    a.func = f
    if not pylist:
        mark_nd(a)
    return a


def fresh_table(ctx, name, kind="real", pylist=False):
    """2-D value (ndarray, or a nested Python list of equally long rows when pylist) with symbolic extents r, c >= 0."""
    r = ctx.fresh(name + "_rows", "int")
    c = ctx.fresh(name + "_cols", "int")
    ctx.assume(z3.And(r.t >= 0, c.t >= 0))
    nm = ctx.fresh_name(name)
    rng = {"int": z3.IntSort(), "real": z3.RealSort()}[kind]
    f = z3.Function(nm, z3.IntSort(), z3.IntSort(), rng)
    a = SymArr((r, c), lambda i, j, _f=f: Sym(_f(lift(i), lift(j))), kind, pylist, name=nm)
    if not pylist:
        mark_nd(a)
    return a


def flat_size(a):
    n = 1
    for d in a.shape:
        n = n * d
    return n


def flat_at(a, i):
    """element i of the row-major flattening of a 0-, 1- or 2-d array (numpy C order)"""
    i = lift(i)
    if a.ndim == 0:
        return a.fn()
    if a.ndim == 1:
        return a.fn(i)
    if a.ndim == 2:
        c = lift(a.shape[1])
        return a.fn(i / c, i % c)
    raise OutOfSubset("row-major flattening of an array with more than 2 axes")


def nd_flatten(a):
    """ndarray.flatten(): always a NEW 1-d array with the elements in row-major order"""
    if a.ndim == 1:
        return nd_copy(a)
    if a.ndim > 2:
        r = a.reshape(-1)
        return nd_copy(mark_nd(r, like=a))
    g = _guarded(a, view=False)
    src = SymArr(a.shape, g, a.kind, False)
    n = flat_size(a)
    n = LenSym(lift(n)) if contains_sym(n) else n
    return nd((n,), lambda i: flat_at(src, i), a.kind, like=a)


def nd_copy(a, kind=None, conv=None):
    """Fresh array with the current contents of `a` (np.copy / astype / flatten of a 1-D array)."""
    f = _guarded(a, view=False)
    if conv is not None:
        fn = lambda *idx, _f=f: conv(_f(*idx))
    else:
        fn = f
    r = SymArr(a.shape, fn, kind or a.kind, False, name=a.name)
    for at in ("func",):
        if conv is None and hasattr(a, at):
            setattr(r, at, getattr(a, at))
    mark_nd(r, like=a)
    if conv is not None:
        r.dtk = z3.IntVal(DT_DEFAULT.get(kind or a.kind, 1))
    return r


def to_symarr(x):
    """Concrete numpy vector / Python sequence of scalars -> SymArr ndarray (fresh)."""
    if isinstance(x, SymArr):
        return x
    if isinstance(x, np.ndarray):
        if x.ndim != 1:
            raise OutOfSubset("concrete numpy array with ndim != 1 entering the symbolic state")
        kind = "int" if np.issubdtype(x.dtype, np.integer) else "bool" if x.dtype == bool else "real"
        xs = [v.item() for v in x]
    else:
        xs = list(x)
        kind = "int" if all(isinstance(v, (int, np.integer)) and not isinstance(v, bool) or (isinstance(v, Sym) and v.is_int) for v in xs) and xs else "real"
    r = V.from_list(xs, kind=kind, pylist=False)
    return mark_nd(r)


def const_vec(n, value, kind="real"):
    return mark_nd(SymArr((n,), lambda i, _v=value: _v, kind, False))


def content_key(a):
    """Canonical description of a value's contents (used to make opaque library results deterministic functions of their inputs)."""
    if isinstance(a, SymArr):
        idx = [z3.Int(f"k!{j}") for j in range(a.ndim)]
        t = lift(a.fn(*idx))
        return "A(" + ",".join(content_key(d) for d in a.shape) + ";" + t.sexpr() + ")"
    if isinstance(a, Sym):
        return a.t.sexpr()
    if z3.is_expr(a) if hasattr(z3, "is_expr") else isinstance(a, z3.ExprRef):
        return a.sexpr()
    if isinstance(a, (tuple, list)):
        return "(" + ",".join(content_key(x) for x in a) + ")"
    if isinstance(a, dict):
        return "{" + ",".join(f"{k}:{content_key(v)}" for k, v in sorted(a.items(), key=lambda kv: str(kv[0]))) + "}"
    return repr(a)


def opaque(name, srcs, params, shape, kind="real", iscomplex=False, dt=None):
    """Result of a library operation whose values are not modelled: an uninterpreted function that is *determined by*
    (contents of the inputs, parameters) - two calls on syntactically identical inputs yield the identical array."""
    h = hashlib.sha1((name + "|" + content_key(list(srcs)) + "|" + content_key(list(params))).encode()).hexdigest()[:12]
    n = len(shape)
    rng = z3.IntSort() if kind == "int" else z3.RealSort()
    if n:
        F = z3.Function(f"{name}#{h}", *([z3.IntSort()] * n), rng)
        fn = lambda *idx, _F=F: Sym(_F(*[lift(i) for i in idx]))
    else:
        c = z3.Const(f"{name}#{h}", rng)
        fn = lambda _c=c: Sym(_c)
    r = nd(shape, fn, kind, iscomplex=iscomplex)
    if dt is not None:
        r.dtk = dt
    return r


# ------------------------------------------------------------------------------------------------
# numpy indexing
# ------------------------------------------------------------------------------------------------


def _is_intlike(k):
    if isinstance(k, bool):
        return False
    return isinstance(k, (int, np.integer)) or (isinstance(k, Sym) and k.is_int) or (isinstance(k, SymArr) and k.ndim == 0 and k.kind == "int")


def _is_listlike(k):
    return isinstance(k, list) or (isinstance(k, SymArr) and k.ndim == 1 and k.kind in ("int",))


def _opt(x):
    if x is None:
        return True, 0
    if isinstance(x, OptInt):
        return x.is_none, x.val
    if isinstance(x, Sym) and x.is_int:
        return False, x.t
    if isinstance(x, (int, np.integer)) and not isinstance(x, bool):
        return False, int(x)
    raise RaiseSig(TypeError("slice indices must be integers or None or have an __index__ method"))


def _zif(c, a, b):
    if c is True:
        return a
    if c is False:
        return b
    return z3.If(lift(c), lift(a), lift(b))


def slice_plan(sl, n):
    """numpy / CPython semantics of `slice(start, stop, step)` on an axis of length n (PySlice_Unpack + PySlice_AdjustIndices).
    Returns (start, step, length) as Sym / int; raises ValueError for step == 0."""
    ctx = V.cur()
    st = sl.step
    if isinstance(st, Sym):
        lv = st.literal()
        if lv is not None:
            st = lv
    if st is None:
        st = 1
    if isinstance(st, Sym):
        if not st.is_int:
            raise RaiseSig(TypeError("slice indices must be integers or None or have an __index__ method"))
        if ctx.branch(st.t == 0):
            raise RaiseSig(ValueError("slice step cannot be zero"))
    elif isinstance(st, (int, np.integer)) and not isinstance(st, bool):
        st = int(st)
        if st == 0:
            raise RaiseSig(ValueError("slice step cannot be zero"))
    else:
        raise RaiseSig(TypeError("slice indices must be integers or None or have an __index__ method"))
    sn, sv = _opt(sl.start)
    en, ev = _opt(sl.stop)
    if sn is True and en is True and st == 1 and not isinstance(st, Sym):
        return 0, 1, n
    nt = lift(n)
    stt = lift(st)
    neg = (st < 0) if not isinstance(st, Sym) else (stt < 0)

    def adj(isnone, v, d_pos, d_neg):
        v = lift(v)
        v1 = v + nt
        a = z3.If(v < 0, z3.If(v1 < 0, _zif(neg, z3.IntVal(-1), z3.IntVal(0)), v1), z3.If(v >= nt, _zif(neg, nt - 1, nt), v))
        return _zif(isnone, _zif(neg, d_neg, d_pos), a)

    start = adj(sn, sv, z3.IntVal(0), nt - 1)
    stop = adj(en, ev, nt, z3.IntVal(-1))
    len_pos = z3.If(start < stop, (stop - start - 1) / stt + 1, z3.IntVal(0))
    len_neg = z3.If(stop < start, (start - stop - 1) / (-stt) + 1, z3.IntVal(0))
    length = _zif(neg, len_neg, len_pos)
    return Sym(V.simp(lift(start))), st, Sym(V.simp(lift(length)))


def _norm_int(i, n):
    ctx = V.cur()
    if isinstance(i, SymArr):
        i = i.fn()
    if not contains_sym((i, n)):
        i, n = int(i), int(n)
        if i < -n or i >= n:
            raise RaiseSig(IndexError("index out of bounds for axis"))
        return i + n if i < 0 else i
    it, nt = lift(i), lift(n)
    if ctx.branch(z3.Or(it < -nt, it >= nt)):
        raise RaiseSig(IndexError("index out of bounds for axis"))
    return Sym(V.simp(z3.If(it < 0, it + nt, it)))


def np_index(arr, key):
    """`arr[key]` for an ndarray: integers, slices, Ellipsis and 1-D integer lists.

    Basic indexing returns a view (provenance = arr.base); any list index makes it advanced indexing: integers and lists are
    broadcast together, the single advanced axis replaces them in place when they are adjacent and comes FIRST otherwise
    (numpy indexing rules), and the result is a copy.  Ghosts on the result: `axis_map[j]` = source axis of result axis j,
    `axis_steps[src_axis]` = the slice step as given (None | int | Sym), `is_view`."""
    if not isinstance(key, tuple):
        key = (key,)
    if any(k is None for k in key):
        raise OutOfSubset("np.newaxis in an index")
    if any(isinstance(k, (bool, np.bool_)) for k in key):
        raise OutOfSubset("boolean index")
    n_ell = sum(1 for k in key if k is Ellipsis)
    if n_ell > 1:
        raise RaiseSig(IndexError("an index can only have a single ellipsis ('...')"))
    n_real = len(key) - n_ell
    if n_real > arr.ndim:
        raise RaiseSig(IndexError("too many indices for array"))
    # numpy decides "are the advanced indices consecutive?" on the index AS WRITTEN: any slice or Ellipsis between two advanced
    # (integer / list) entries separates them - also an Ellipsis that stands for zero axes (numpy mapping.c, PyArray_MapIterNew)
    written_adv = [i for i, k in enumerate(key) if k is not Ellipsis and not isinstance(k, slice)]
    written_adjacent = (not written_adv) or written_adv == list(range(written_adv[0], written_adv[-1] + 1))
    if n_ell:
        e = [i for i, k in enumerate(key) if k is Ellipsis][0]
        key = key[:e] + (slice(None),) * (arr.ndim - n_real) + key[e + 1:]
    else:
        key = key + (slice(None),) * (arr.ndim - n_real)
    plans = []
    for ax, k in enumerate(key):
        n = arr.shape[ax]
        if isinstance(k, slice):
            start, step, length = slice_plan(k, n)
            plans.append(("slice", start, step, length, k.step))
        elif _is_intlike(k):
            plans.append(("int", _norm_int(k, n)))
        elif _is_listlike(k):
            larr = k if isinstance(k, SymArr) else V.from_list(k, kind="int")
            if isinstance(k, list) and not all(_is_intlike(x) for x in k):
                raise OutOfSubset("list index with non-integer entries")
            plans.append(("list", larr, n))
        else:
            raise OutOfSubset(f"index entry of type {type(k).__name__}")
    lists = [ax for ax, p in enumerate(plans) if p[0] == "list"]
    advanced = bool(lists)
    if advanced:
        L = plans[lists[0]][1].shape[0]
        for ax in lists[1:]:
            if not V.dims_equal(L, plans[ax][1].shape[0]):
                raise OutOfSubset("several list indices whose lengths are not provably equal (broadcasting not modelled)")
        advpos = [ax for ax, p in enumerate(plans) if p[0] in ("list", "int")]
        adjacent = written_adjacent
        slice_axes = [ax for ax, p in enumerate(plans) if p[0] == "slice"]
        if adjacent:
            out = [("slice", ax) for ax in slice_axes if ax < advpos[0]] + [("adv",)] + [("slice", ax) for ax in slice_axes if ax > advpos[0]]
        else:
            out = [("adv",)] + [("slice", ax) for ax in slice_axes]
    else:
        L = None
        out = [("slice", ax) for ax, p in enumerate(plans) if p[0] == "slice"]
    g = _guarded(arr, view=not advanced)
    shape = tuple(L if o[0] == "adv" else plans[o[1]][3] for o in out)

    def fn(*idx):
        src = [None] * len(plans)
        for pos, o in enumerate(out):
            i = lift(idx[pos])
            if o[0] == "slice":
                _, start, step, _, _ = plans[o[1]]
                src[o[1]] = lift(start) + (i * lift(step) if (isinstance(step, Sym) or step != 1) else i)
            else:
                for ax in lists:
                    v = lift(plans[ax][1].fn(i))
                    nt = lift(plans[ax][2])
                    src[ax] = z3.If(v < 0, v + nt, v)
        for ax, p in enumerate(plans):
            if p[0] == "int":
                src[ax] = lift(p[1])
        return g(*src)

    if not out:
        return fn()
    r = nd(shape, fn, arr.kind, base=None if advanced else arr.base, like=arr)
    _carry_guards(r, arr, g)
    r.axis_map = [lists[0] if (o[0] == "adv" and len(lists) == 1) else tuple(lists) if o[0] == "adv" else o[1] for o in out]
    r.axis_steps = {ax: p[4] for ax, p in enumerate(plans) if p[0] == "slice"}
    r.is_view = not advanced
    r.n_lists = len(lists)
    return r


# ------------------------------------------------------------------------------------------------
# installation
# ------------------------------------------------------------------------------------------------


class SuperProxy:
    _pyvc_value = True

    def __init__(self, defcls, inst):
        self.defcls, self.inst = defcls, inst


def _pad_pairs(pad_width, ndim):
    """numpy's normalisation of `pad_width` to one (before, after) pair per axis."""
    pw = pad_width
    if isinstance(pw, SymArr):
        raise OutOfSubset("array-valued pad_width")

    def scalar(x):
        return isinstance(x, (int, np.integer, float, np.floating, Sym)) and not isinstance(x, bool)

    if scalar(pw):
        return [(pw, pw)] * ndim
    pw = list(pw)
    if len(pw) == 2 and all(scalar(x) for x in pw):
        return [(pw[0], pw[1])] * ndim
    if len(pw) == 1 and scalar(pw[0]):
        return [(pw[0], pw[0])] * ndim
    pairs = []
    for p in pw:
        if scalar(p):
            raise RaiseSig(ValueError("operands could not be broadcast together (pad_width)"))
        p = list(p)
        if len(p) == 1 and scalar(p[0]):
            pairs.append((p[0], p[0]))
        elif len(p) == 2 and all(scalar(x) for x in p):
            pairs.append((p[0], p[1]))
        else:
            raise RaiseSig(ValueError("operands could not be broadcast together (pad_width)"))
    if len(pairs) == 1:
        return pairs * ndim
    if len(pairs) != ndim:
        raise RaiseSig(ValueError("operands could not be broadcast together (pad_width)"))
    return pairs


def install(reg):
    M = reg.models
    ctx_of = lambda interp: interp.ctx

    # ---------------------------------------------------------------- array attribute / item protocol
    def attr_symarr(interp, a, name):
        if a.pylist:
            if name == "copy":
                return lambda: _list_copy(a)
            return NotImplemented
        if name == "copy":
            return lambda *x, **k: nd_copy(a)
        if name == "astype":
            def astype(dt, copy=True, **k):
                if isinstance(dt, DType):
                    if dt.t.eq(dtk(a)):
                        return a if copy is False else nd_copy(a)  # same dtype: the array itself with copy=False, else a plain copy
                    # another dtype: a NEW array of dtype dt whose values are the cast values (truncation / wrap-around for integers)
                    CAST = z3.Function("cast_to_dtype", z3.IntSort(), z3.RealSort(), z3.RealSort())
                    r = nd_copy(a, kind="real", conv=lambda v, _t=dt.t: Sym(CAST(_t, _real(v))))
                    r.dtk = dt.t
                    return r
                if dt in (float, np.float64, np.float32, "float", "float64") and a.kind == "int":
                    return nd_copy(a, kind="real", conv=lambda v: Sym(z3.ToReal(lift(v))) if z3.is_int(lift(v)) else v)
                if dt in (int, np.int64, np.int32) and a.kind != "int":
                    raise OutOfSubset("astype(int) of a non-integer symbolic array")
                r = nd_copy(a)
                if dt in (float, np.float64, "float", "float64"):
                    r.dtk = z3.IntVal(DT_DEFAULT["real"])
                elif dt in (int, np.int64):
                    r.dtk = z3.IntVal(DT_DEFAULT["int"])
                else:
                    r.dtk = dt_fun("astype_" + str(getattr(dt, "__name__", dt)), dtk(a))
                return r
            return astype
        if name == "dtype":
            return DType(dtk(a), a.kind)
        if name == "flatten":
            return lambda *x, **k: nd_flatten(a)
        if name == "real":
            g = _guarded(a, view=True)
            if is_complex(a) is False:
                r = nd(a.shape, g, a.kind, base=a.base, like=a)
            else:
                RE = z3.Function("Re", z3.RealSort(), z3.RealSort())
                cplx = lift(is_complex(a))
                r = nd(a.shape, lambda *idx: Sym(z3.If(cplx, RE(_real(g(*idx))), _real(g(*idx)))), "real", base=a.base, iscomplex=False)
                r.dtk = dt_fun("real_part", dtk(a))
            return _carry_guards(r, a, g)
        if name == "reshape":
            def reshape(*shape):
                # contents are not needed for C03 (C06 owns the block-sum law): a deterministic function of (contents, new shape)
                # with numpy's shape rule; provenance: may be a view of `a` (conservative for frame conditions)
                if len(shape) == 1 and isinstance(shape[0], (tuple, list)):
                    shape = tuple(shape[0])
                if any((not isinstance(d, Sym)) and d == -1 for d in shape):
                    r = a.reshape(*shape)
                    return mark_nd(r, like=a)
                r = opaque("reshape", [a], [list(shape)], tuple(shape), a.kind, iscomplex=is_complex(a), dt=dtk(a))
                r.base = a.base
                return r
            return reshape
        return NotImplemented

    def _real(v):
        t = lift(v)
        return z3.ToReal(t) if z3.is_int(t) else t

    def _list_copy(a):
        r = SymArr(a.shape, a.fn, a.kind, True, name=a.name)
        return r

    reg.attr_models[SymArr] = attr_symarr

    old_gi = reg.getitem_models.get(SymArr)

    def gi(interp, base, key):
        if base.pylist or getattr(base, "as_type", None) is not np.ndarray:
            if old_gi is not None:
                return old_gi(interp, base, key)
            return NotImplemented
        return np_index(base, key)

    reg.getitem_models[SymArr] = gi

    def attr_super(interp, sp, name):
        inst = sp.inst
        cls = inst.cls if isinstance(inst, Obj) else inst
        mro = cls.__mro__
        i = mro.index(sp.defcls)
        for k in mro[i + 1:]:
            if name in k.__dict__:
                at = k.__dict__[name]
                if isinstance(at, types.FunctionType):
                    return BoundMethod(inst, at)
                if isinstance(at, classmethod):
                    return BoundMethod(cls, at.__func__)
                if isinstance(at, staticmethod):
                    return at.__func__
                if k is object:
                    return lambda *a, **kw: None  # object.__init__ and friends: no effect on the abstract state
                return at
        raise RaiseSig(AttributeError(name))

    reg.attr_models[SuperProxy] = attr_super

    def m_super(interp, *a):
        if a:
            raise OutOfSubset("super(T, obj) with explicit arguments")
        env = getattr(interp, "cur_env", None)
        inst, e = None, env
        while e is not None:
            if "self" in e.vars:
                inst = e.vars["self"]
                break
            if "cls" in e.vars:
                inst = e.vars["cls"]
                break
            e = e.parent
        frame = interp.ctx.frames[-1] if interp.ctx.frames else ""
        clsname = frame.split(".")[0]
        defcls = env.globs.get(clsname) if env is not None else None
        if inst is None or not isinstance(defcls, type):
            raise OutOfSubset(f"zero-argument super() outside a method ({frame})")
        return SuperProxy(defcls, inst)

    M[super] = m_super

    # ---------------------------------------------------------------- builtins on abstract objects
    def m_dir(interp, *a):
        if len(a) == 1 and isinstance(a[0], Obj):
            o = a[0]
            return sorted(set(dir(o.cls)) | {k for k in o.fields if not k.startswith("$")})
        return interp.native(dir, *a)

    M[dir] = m_dir

    _len = M[len]

    def m_len(interp, x):
        """len() of a 0-d array is a TypeError path, not an engine error"""
        try:
            return _len(interp, x)
        except V.RaiseSigLazy as e:
            raise RaiseSig(e.exc)

    M[len] = m_len

    def c_dict(interp, *a, **kw):
        """dict(pairs): keys must be concrete (hashable python values); values may be symbolic."""
        if a:
            src = a[0]
            items = src.items() if isinstance(src, dict) else interp.iter_values(src)
            if items is None:
                raise OutOfSubset("dict() of a symbolic-length iterable")
            items = [tuple(interp.unpack(p, 2)) for p in items]
            if any(contains_sym(k) for k, _ in items):
                raise OutOfSubset("dict() with symbolic keys")
            d = dict(items)
        else:
            d = {}
        d.update(kw)
        return d

    # container methods whose arguments are merely STORED (no inspection of the symbolic value): native effect
    for _t, _names in ((list, ("append", "extend", "insert")), (dict, ("setdefault", "update", "get", "pop")), (set, ("add",))):
        for _n in _names:
            if (_t, _n) not in reg.method_models:
                reg.method_models[(_t, _n)] = (lambda interp, self_, *a, _nm=_n, **kw: getattr(self_, _nm)(*a, **kw))

    reg.ctor_models[dict] = c_dict
    reg.ctor_models[slice] = lambda interp, *a: slice(*a)

    def m_callable(interp, x):
        if isinstance(x, (Closure, BoundMethod)):
            return True
        if isinstance(x, (Sym, SymArr, Obj)):
            return isinstance(x, Obj) and hasattr(x.cls, "__call__")
        return callable(x)

    M[callable] = m_callable

    def hasattr_model(interp, x, name):
        if isinstance(x, SymArr):
            return hasattr(list if x.pylist else np.ndarray, name)
        if isinstance(x, Sym):
            t = bool if x.is_bool else int if x.is_int else float if x.is_real else str
            return hasattr(t, name)
        raise OutOfSubset(f"hasattr on {type(x).__name__}")

    reg.hasattr_model = hasattr_model

    old_isinst = getattr(reg, "isinstance_model", None)

    def isinstance_model(interp, x, t):
        if isinstance(t, types.UnionType):
            return interp.call(isinstance, [x, tuple(t.__args__)], {})
        if isinstance(t, tuple) and any(isinstance(k, types.UnionType) for k in t):
            flat = []
            for k in t:
                flat.extend(k.__args__ if isinstance(k, types.UnionType) else [k])
            return interp.call(isinstance, [x, tuple(flat)], {})
        if isinstance(x, OptInt):
            return False
        if isinstance(x, SymArr) and not x.pylist and getattr(x, "as_type", None) is np.ndarray:
            ts = t if isinstance(t, tuple) else (t,)
            return any(isinstance(k, type) and issubclass(np.ndarray, k) for k in ts)
        if old_isinst is not None:
            return old_isinst(interp, x, t)
        return NotImplemented

    reg.isinstance_model = isinstance_model

    ROUND = z3.Function("round_half_even", z3.RealSort(), z3.IntSort())

    def m_round(interp, x, nd_=None):
        if isinstance(x, Sym):
            if x.is_int:
                return x
            if nd_ is not None:
                raise OutOfSubset("round(x, ndigits) on symbolic value")
            # A3: the rounded value is only known to be an integer within 1/2 of x; it is a FUNCTION of x (deterministic)
            r = ROUND(x.t)
            interp.ctx.assume(z3.And(z3.ToReal(r) - x.t <= z3.RealVal("1/2"), x.t - z3.ToReal(r) <= z3.RealVal("1/2")))
            return Sym(r)
        return interp.native(round, x) if nd_ is None else interp.native(round, x, nd_)

    M[round] = m_round

    # ---------------------------------------------------------------- numpy constructors / conversions
    def m_zeros(interp, shape, dtype=None, **kw):
        if isinstance(shape, (int, np.integer, Sym)):
            shape = (shape,)
        shape = tuple(shape)
        return nd(shape, lambda *idx: 0.0 if dtype in (None, float) else 0, "real" if dtype in (None, float) else "int")

    def m_ones(interp, shape, dtype=None, **kw):
        if isinstance(shape, (int, np.integer, Sym)):
            shape = (shape,)
        shape = tuple(shape)
        return nd(shape, lambda *idx: 1.0 if dtype in (None, float) else 1, "real" if dtype in (None, float) else "int")

    def m_full(interp, shape, fill_value, dtype=None, **kw):
        if isinstance(shape, (int, np.integer, Sym)):
            shape = (shape,)
        shape = tuple(shape)
        if isinstance(fill_value, (str, bytes)) or (isinstance(fill_value, Sym) and z3.is_string(fill_value.t)):
            raise OutOfSubset("np.full with a string fill value")
        kind = "int" if (isinstance(fill_value, (int, np.integer)) and not isinstance(fill_value, bool)) or (isinstance(fill_value, Sym) and fill_value.is_int) else "real"
        return nd(shape, lambda *idx, _v=fill_value: _v, kind)

    M[np.zeros] = m_zeros
    M[np.ones] = m_ones
    M[np.full] = m_full

    def m_array(interp, x, dtype=None, copy=True, **kw):
        """np.array(x): always a NEW array (copy=True default)."""
        if isinstance(x, SymArr):
            if x.pylist:
                if x.kind == "str":
                    raise OutOfSubset("np.array of strings")
                r = SymArr(x.shape, _guarded(x, view=False), x.kind, False, name=x.name)
                return mark_nd(r)
            return nd_copy(x)
        if isinstance(x, np.ndarray) and x.ndim == 1 and x.dtype != object and np.issubdtype(x.dtype, np.number):
            return to_symarr(x)
        if isinstance(x, (list, tuple)) and contains_sym(x):
            if all(isinstance(v, (Sym, int, float, np.number)) and not isinstance(v, bool) for v in x):
                return to_symarr(x)
            raise OutOfSubset("np.array of a nested / non-numeric symbolic sequence")
        if contains_sym(x):
            raise OutOfSubset(f"np.array of symbolic {type(x).__name__}")
        return interp.native(np.array, x, dtype=dtype, **kw)

    def m_asarray(interp, x, dtype=None, **kw):
        """np.asarray(x): x ITSELF when it already is an ndarray of the requested dtype (alias), otherwise a new array."""
        if isinstance(x, SymArr) and not x.pylist:
            if dtype in (float, np.float64) and x.kind == "int":
                return attr_symarr(interp, x, "astype")(float)
            return x
        return m_array(interp, x, dtype=dtype, **kw)

    M[np.array] = m_array
    M[np.asarray] = m_asarray

    def m_isscalar(interp, x):
        if isinstance(x, Sym):
            return True
        if isinstance(x, (SymArr, Obj, OptInt)):
            return False
        return interp.native(np.isscalar, x)

    M[np.isscalar] = m_isscalar

    def m_ndim(interp, x):
        if isinstance(x, SymArr):
            return x.ndim
        if isinstance(x, Sym):
            return 0
        if isinstance(x, (list, tuple)) and contains_sym(x):
            return 1
        return interp.native(np.ndim, x)

    M[np.ndim] = m_ndim

    def m_expand_dims(interp, a, axis):
        if not isinstance(a, SymArr):
            return interp.native(np.expand_dims, a, axis)
        if axis != 0:
            raise OutOfSubset("np.expand_dims with axis != 0")
        g = _guarded(a, view=True)
        r = nd((1,) + tuple(a.shape), lambda i0, *idx: g(*idx), a.kind, base=a.base, like=a)
        return _carry_guards(r, a, g)

    M[np.expand_dims] = m_expand_dims

    def m_squeeze(interp, a, axis=None):
        """np.squeeze(a): the view of `a` without its length-1 axes (an extent that is not a literal forks on `== 1`)"""
        if not isinstance(a, SymArr):
            return interp.native(np.squeeze, a, axis)
        if axis is not None:
            raise OutOfSubset("np.squeeze with an explicit axis")
        ctx = interp.ctx
        drop = []
        for k, d in enumerate(a.shape):
            if isinstance(d, int):
                one = d == 1
            elif ctx.entails(lift(d) == 1):
                one = True
            elif ctx.entails(lift(d) != 1):
                one = False
            else:
                one = bool(ctx.branch(lift(d) == 1))
            if one:
                drop.append(k)
        if not drop:
            return a
        keep = [k for k in range(len(a.shape)) if k not in drop]
        g = _guarded(a, view=True)

        def fn(*idx, _keep=tuple(keep), _n=len(a.shape)):
            full = [0] * _n
            for pos, k in enumerate(_keep):
                full[k] = idx[pos]
            return g(*full)

        r = nd(tuple(a.shape[k] for k in keep), fn, a.kind, base=a.base, like=a)
        return _carry_guards(r, a, g)

    M[np.squeeze] = m_squeeze

    def m_isrealobj(interp, a):
        if isinstance(a, SymArr):
            c = is_complex(a)
            if c is False or c is True:
                return not c
            return Sym(z3.Not(lift(c)))
        return interp.native(np.isrealobj, a)

    M[np.isrealobj] = m_isrealobj

    def m_floor(interp, x):
        if isinstance(x, Sym):
            return x if x.is_int else Sym(z3.ToReal(z3.ToInt(x.t)))
        return interp.native(np.floor, x)

    def m_ceil(interp, x):
        if isinstance(x, Sym):
            return x if x.is_int else Sym(z3.ToReal(-z3.ToInt(-x.t)))
        return interp.native(np.ceil, x)

    def m_abs(interp, x, **kw):
        """np.abs: elementwise magnitude, a NEW array of the same dtype (real input)"""
        if isinstance(x, SymArr) and not x.pylist:
            g = _guarded(x, view=False)
            return nd(x.shape, lambda *idx: abs(S(g(*idx))), x.kind, like=x)
        if isinstance(x, Sym):
            return abs(x)
        if contains_sym(x):
            raise OutOfSubset("np.abs of a symbolic container")
        return interp.native(np.abs, x, **kw)

    M[np.abs] = m_abs
    M[np.absolute] = m_abs
    M[np.floor] = m_floor
    M[np.ceil] = m_ceil

    def m_prod(interp, xs, **kw):
        if contains_sym(xs):
            vals = interp.iter_values(xs)
            if vals is None:
                raise OutOfSubset("np.prod over a symbolic-length sequence")
            r = 1
            for v in vals:
                r = r * v
            return r
        return interp.native(np.prod, xs, **kw)

    M[np.prod] = m_prod

    # ---------------------------------------------------------------- np.pad / np.sum / fft
    def m_pad(interp, arr, pad_width=None, mode="constant", **kw):
        if not isinstance(arr, SymArr):
            if contains_sym(pad_width):
                raise OutOfSubset("np.pad of a concrete array with symbolic widths")
            return interp.native(np.pad, arr, pad_width, mode=mode, **kw)
        ctx = interp.ctx
        pairs = _pad_pairs(pad_width, arr.ndim)
        for b, a in pairs:
            for w in (b, a):
                if isinstance(w, (float, np.floating)) or (isinstance(w, Sym) and not w.is_int):
                    raise RaiseSig(TypeError("`pad_width` must be of integral type."))
        for b, a in pairs:
            for w in (b, a):
                if isinstance(w, Sym):
                    if ctx.branch(w.t < 0):
                        raise RaiseSig(ValueError("index can't contain negative values"))
                elif w < 0:
                    raise RaiseSig(ValueError("index can't contain negative values"))
        shape = tuple(S(n) + b + a if contains_sym((n, b, a)) else n + b + a for n, (b, a) in zip(arr.shape, pairs))
        g = _guarded(arr, view=False)
        if mode == "constant" and not kw:
            def fn(*idx):
                inside = []
                src = []
                for i, n, (b, a) in zip(idx, arr.shape, pairs):
                    i = lift(i)
                    inside.append(z3.And(i >= lift(b), i < lift(b) + lift(n)))
                    src.append(i - lift(b))
                return ite(z3.And(*inside) if inside else z3.BoolVal(True), g(*src), 0)
            return nd(shape, fn, arr.kind, like=arr)
        out = opaque(f"pad[{mode}]", [arr], [pairs, kw], shape, arr.kind, iscomplex=is_complex(arr), dt=dtk(arr))

        def fn2(*idx):
            inside, src = [], []
            for i, n, (b, a) in zip(idx, arr.shape, pairs):
                i = lift(i)
                inside.append(z3.And(i >= lift(b), i < lift(b) + lift(n)))
                src.append(i - lift(b))
            return ite(z3.And(*inside) if inside else z3.BoolVal(True), g(*src), out.fn(*idx))
        return nd(shape, fn2, arr.kind, like=arr)

    M[np.pad] = m_pad

    def m_sum(interp, arr, axis=None, **kw):
        if not isinstance(arr, SymArr):
            return interp.native(np.sum, arr, axis=axis, **kw)
        if kw.get("keepdims"):
            raise OutOfSubset("np.sum(keepdims=True)")
        if axis is None:
            axes = tuple(range(arr.ndim))
        elif isinstance(axis, (tuple, list)):
            axes = tuple(a % arr.ndim for a in axis)
        else:
            axes = (axis % arr.ndim,)
        shape = tuple(d for i, d in enumerate(arr.shape) if i not in axes)
        if not axes:
            return nd_copy(arr)
        return opaque("sum", [arr], [axes], shape, arr.kind, iscomplex=is_complex(arr), dt=dt_fun("sum", dtk(arr)))

    M[np.sum] = m_sum

    def _axes(a, axes):
        if axes is None:
            return tuple(range(a.ndim))
        if isinstance(axes, (int, np.integer)):
            return (int(axes) % a.ndim,)
        out = []
        for x in axes:
            if not isinstance(x, (int, np.integer)):
                raise OutOfSubset("symbolic FFT axis")
            if x < -a.ndim or x >= a.ndim:
                raise RaiseSig(IndexError("axis out of range"))
            out.append(int(x) % a.ndim)
        return tuple(out)

    def fft_like(name, complex_out):
        def h(interp, a, axes=None, **kw):
            if not isinstance(a, SymArr):
                return interp.native(getattr(np.fft, name), a, axes=axes, **kw)
            ax = _axes(a, axes)
            return opaque(name, [a], [ax, kw], tuple(a.shape), "real", iscomplex=True if complex_out else is_complex(a),
                          dt=dt_fun(name, dtk(a)) if complex_out else dtk(a))
        return h

    import operator as _op

    def arith(interp, op, x, y):
        """array (op) scalar / array: values by the engine's elementwise rule; the RESULT DTYPE is a function of the operand dtypes"""
        arrs = [v for v in (x, y) if isinstance(v, SymArr)]
        if any(v.pylist or getattr(v, "as_type", None) is not np.ndarray for v in arrs):
            return NotImplemented
        r = op(x, y)
        if isinstance(r, SymArr):
            mark_nd(r, iscomplex=is_complex(arrs[0]) if len(arrs) == 1 else z3.Or(lift(is_complex(arrs[0])), lift(is_complex(arrs[1]))))
            other = [v for v in (x, y) if not isinstance(v, SymArr)]
            ok = z3.IntVal(2 if (other and ((isinstance(other[0], Sym) and other[0].is_int) or isinstance(other[0], (int, np.integer)))) else 1) if other else dtk(arrs[1])
            r.dtk = dt_fun(op.__name__, dtk(arrs[0]), ok)
        return r

    for _o in (_op.truediv, _op.mul, _op.add, _op.sub, _op.floordiv):
        reg.binop_models[(SymArr, _o)] = arith

    _issub = M.get(np.issubdtype)

    def m_issubdtype(interp, a, b):
        if isinstance(a, DType):
            if b is np.number:
                return a.kind in ("int", "real", "complex")
            raise OutOfSubset("np.issubdtype of a symbolic dtype against a class other than np.number")
        return _issub(interp, a, b) if _issub else interp.native(np.issubdtype, a, b)

    M[np.issubdtype] = m_issubdtype

    M[np.fft.fftn] = fft_like("fftn", True)
    M[np.fft.ifftn] = fft_like("ifftn", True)
    M[np.fft.fftshift] = fft_like("fftshift", False)
    M[np.fft.ifftshift] = fft_like("ifftshift", False)
    return reg
