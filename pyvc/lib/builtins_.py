"""Models of Python builtins / math on symbolic values (TRUSTED: they define the encoded semantics)."""
from __future__ import annotations

import builtins
import math

import z3

from .. import values as V
from ..values import Sym, SymArr, Obj, Kind, S, lift, contains_sym, ite, OutOfSubset
from ..interp import SymRange, SymEnumerate, SymZip, GhostGen, RaiseSig, Closure


def install(reg):
    M = reg.models

    def m_len(interp, x):
        if isinstance(x, (SymArr, SymRange)):
            return x.sym_len()
        if isinstance(x, Obj):
            return interp.call(interp.getattr(x, "__len__"), [], {})
        if isinstance(x, GhostGen):
            raise RaiseSig(TypeError("object of type 'generator' has no len()"))
        return interp.native(len, x)

    M[len] = m_len

    def m_range(interp, *a):
        if not contains_sym(a):
            return interp.native(range, *a)
        if len(a) == 1:
            return SymRange(0, a[0], 1)
        if len(a) == 2:
            return SymRange(a[0], a[1], 1)
        return SymRange(a[0], a[1], a[2])

    M[range] = m_range

    def m_int(interp, x=0, *rest):
        if isinstance(x, SymArr) and x.ndim == 0:
            x = x.fn()
        if isinstance(x, Sym):
            if x.is_int:
                return x
            if x.is_bool:
                return Sym(V._num(x.t))
            # truncation toward zero
            t = x.t
            return Sym(z3.If(t >= 0, z3.ToInt(t), -z3.ToInt(-t)))
        return interp.native(int, x, *rest)

    M[int] = m_int

    def m_float(interp, x=0.0):
        if isinstance(x, SymArr) and x.ndim == 0:
            x = x.fn()
        if isinstance(x, Sym):
            t = V._num(x.t)
            return Sym(z3.ToReal(t)) if z3.is_int(t) else x
        return interp.native(float, x)

    M[float] = m_float

    def m_bool(interp, x=False):
        if isinstance(x, Sym):
            return x if x.is_bool else Sym(V._num(x.t) != 0)
        return interp.truth(x)

    M[bool] = m_bool

    def m_round(interp, x, nd=None):
        if isinstance(x, Sym):
            if x.is_int:
                return x
            if nd is not None:
                raise OutOfSubset("round(x, ndigits) on symbolic value")
            # A3: round-half-even on a real is havocked to an integer r with |r - x| <= 1/2
            r = interp.ctx.fresh("round", "int")
            interp.ctx.assume(z3.And(z3.ToReal(r.t) - x.t <= z3.RealVal("1/2"), x.t - z3.ToReal(r.t) <= z3.RealVal("1/2")))
            return r
        return interp.native(round, x) if nd is None else interp.native(round, x, nd)

    M[round] = m_round

    def m_abs(interp, x):
        return abs(x)

    M[abs] = m_abs

    def m_divmod(interp, a, b):
        # divmod(a, b) == (a // b, a % b) for ints and floats; the operators carry Python's floor semantics and the b == 0 path
        if not contains_sym((a, b)):
            return interp.native(divmod, a, b)
        import operator as _op

        return (interp.binop(_op.floordiv, a, b), interp.binop(_op.mod, a, b))

    M[divmod] = m_divmod

    def _minmax(pick):
        def h(interp, *a, key=None, default=None):
            if key is not None or not contains_sym(a):
                f = min if pick is V.smin else max
                if default is not None:
                    return interp.native(f, *a, key=key, default=default)
                return interp.native(f, *a, key=key) if key is not None else interp.native(f, *a)
            if len(a) == 1:
                xs = interp.iter_values(a[0])
                if xs is None:
                    raise OutOfSubset("min/max over symbolic-length sequence")
                a = xs
            r = a[0]
            for x in a[1:]:
                r = pick(r, x)
            return r
        return h

    M[min] = _minmax(V.smin)
    M[max] = _minmax(V.smax)

    def m_sum(interp, xs, start=0):
        if isinstance(xs, SymArr):
            ln = V._dim_lit(xs.sym_len())
            if ln is None:
                from ..reals import sigma

                return S(start) + sigma(xs.sym_len(), lambda j: xs.fn(j), sort="int" if xs.kind == "int" else "real")
        vals = interp.iter_values(xs)
        r = start
        for v in vals:
            r = r + v
        return r

    M[sum] = m_sum

    def m_isinstance(interp, x, t):
        h = reg.isinstance_model if hasattr(reg, "isinstance_model") else None
        if h is not None:
            r = h(interp, x, t)
            if r is not NotImplemented:
                return r
        ts = t if isinstance(t, tuple) else (t,)
        if isinstance(x, Obj):
            return any(isinstance(k, type) and issubclass(x.cls, k) for k in ts)
        if isinstance(x, Sym):
            import numbers

            for k in ts:
                if x.is_bool and k in (bool, int, numbers.Number, numbers.Integral, object):
                    return True
                if x.is_int and k in (int, numbers.Number, numbers.Integral, object, numbers.Real):
                    return True
                if x.is_real and k in (float, numbers.Number, numbers.Real, object):
                    return True
                if z3.is_string(x.t) and k in (str, object):
                    return True
            return False
        if isinstance(x, SymArr):
            import numpy as np

            for k in ts:
                if x.pylist and k in (list, object) or (not x.pylist) and k in (np.ndarray, object):
                    return True
                try:
                    from collections.abc import Sequence, Iterable, Sized

                    if x.pylist and k in (Sequence, Iterable, Sized):
                        return True
                except ImportError:
                    pass
            kk = getattr(x, "as_type", None)
            if kk is not None:
                return any(issubclass(kk, k) for k in ts)
            return False
        if isinstance(x, Closure):
            import types

            return any(k in (types.FunctionType, object) for k in ts)
        return isinstance(x, t)

    M[isinstance] = m_isinstance

    def m_enumerate(interp, xs, start=0):
        vals = interp.iter_values(xs)
        if vals is None:
            return SymEnumerate(xs, start)
        return list(enumerate(vals, start))

    M[enumerate] = m_enumerate

    def m_zip(interp, *xs, strict=False):
        vals = [interp.iter_values(x) for x in xs]
        if any(v is None for v in vals):
            return SymZip(list(xs))
        return list(zip(*vals))

    M[zip] = m_zip

    def m_list(interp, xs=()):
        if isinstance(xs, SymArr):
            ln = V._dim_lit(xs.sym_len())
            if ln is None:
                r = xs.copy()
                r.pylist = True
                return r
        vals = interp.iter_values(xs)
        if vals is None:
            raise OutOfSubset("list() of a symbolic-length iterable")
        return list(vals)

    M[list] = m_list

    def m_tuple(interp, xs=()):
        vals = interp.iter_values(xs)
        if vals is None:
            raise OutOfSubset("tuple() of a symbolic-length iterable")
        return tuple(vals)

    M[tuple] = m_tuple

    def m_iter(interp, xs):
        if isinstance(xs, (SymArr, GhostGen, SymRange)):
            return xs
        return interp.native(iter, xs)

    M[iter] = m_iter

    def m_ceil(interp, x):
        if isinstance(x, Sym):
            if x.is_int:
                return x
            return Sym(-z3.ToInt(-x.t))
        return interp.native(math.ceil, x)

    M[math.ceil] = m_ceil

    def m_floor(interp, x):
        if isinstance(x, Sym):
            if x.is_int:
                return x
            return Sym(z3.ToInt(x.t))
        return interp.native(math.floor, x)

    M[math.floor] = m_floor

    from .. import reals

    for name, f in (("cos", math.cos), ("sin", math.sin), ("exp", math.exp), ("log", math.log), ("sqrt", math.sqrt),
                    ("sinh", math.sinh)):
        def h(interp, x, _n=name, _f=f):
            if contains_sym(x):
                return reals.app(_n, x)
            return interp.native(_f, x)
        M[f] = h

    def m_hasattr(interp, x, name):
        if isinstance(x, Obj):
            try:
                interp.getattr(x, name)
                return True
            except RaiseSig as r:
                if isinstance(r.exc, AttributeError):
                    return False
                raise
        if isinstance(x, (Sym, SymArr, Kind)):
            h = getattr(reg, "hasattr_model", None)
            if h is not None:
                return h(interp, x, name)
            raise OutOfSubset(f"hasattr on symbolic {type(x).__name__}")
        return hasattr(x, name)

    M[hasattr] = m_hasattr

    def m_getattr(interp, x, name, *default):
        try:
            return interp.getattr(x, name)
        except RaiseSig as r:
            if default and isinstance(r.exc, AttributeError):
                return default[0]
            raise

    M[getattr] = m_getattr

    def m_setattr(interp, x, name, v):
        interp.setattr(x, name, v)

    M[setattr] = m_setattr

    def m_type(interp, x, *rest):
        if rest:
            return interp.native(type, x, *rest)
        if isinstance(x, Obj):
            return x.cls
        if isinstance(x, Sym):
            return bool if x.is_bool else int if x.is_int else float if x.is_real else str
        if isinstance(x, SymArr):
            import numpy as np

            return list if x.pylist else getattr(x, "as_type", np.ndarray)
        if isinstance(x, Kind):
            raise OutOfSubset("type() of kind-abstract value")
        return type(x)

    M[type] = m_type

    def m_callable(interp, x):
        if isinstance(x, Closure):
            return True
        return callable(x)

    M[callable] = m_callable

    def m_all(interp, xs):
        vals = interp.iter_values(xs)
        if vals is None:
            raise OutOfSubset("all() over symbolic-length iterable")
        for v in vals:
            if not interp.truth(v):
                return False
        return True

    def m_any(interp, xs):
        vals = interp.iter_values(xs)
        if vals is None:
            raise OutOfSubset("any() over symbolic-length iterable")
        for v in vals:
            if interp.truth(v):
                return True
        return False

    M[all] = m_all
    M[any] = m_any

    def m_str(interp, x=""):
        if isinstance(x, Sym) and z3.is_string(x.t):
            return x
        if contains_sym(x):
            return "<str of symbolic value>"
        return interp.native(str, x)

    M[str] = m_str

    def m_repr(interp, x):
        if contains_sym(x):
            return "<repr of symbolic value>"
        return interp.native(repr, x)

    M[repr] = m_repr

    def m_super(interp, *a):
        raise OutOfSubset("super() (inline the base-class method through a contract instead)")

    M[super] = m_super
