"""TRUSTED library contracts used by C15 (drift resampling geometry): numpy / scipy on index-function arrays (A6).

Each model states what the *library* does, nothing about quantem:

  np.linspace(a, b, n)[i] = a + i*(b-a)/(n-1)   (n > 1),  [a] for n == 1   (over the reals, A1; always built exactly,
                                                 also for concrete arguments, so that 1/3 is the rational 1/3)
  np.mod(a, b) = a - b*floor(a/b) elementwise
  np.deg2rad(x) = x*pi/180 ; np.sin / np.cos elementwise (uninterpreted, A4) ; np.floor elementwise
  np.round(x)   = an integer r(x) with |r(x) - x| <= 1/2  (round-half-even, A3: only this bound is used)
  np.stack / np.zeros / np.minimum / np.maximum : pointwise index functions
  np.ravel_multi_index((i0, i1), (d0, d1), mode): 'wrap' -> (i0 mod d0)*d1 + (i1 mod d1), always inside [0, d0*d1);
                                                  'clip' -> clamped;  'raise' (the default) -> ValueError when an index is outside
  np.bincount(x, weights=w, minlength=L): all x in [0, L)  ==>  length L and  SUM_b out[b] = SUM_j w[j]   (conservation)
  scipy.ndimage.gaussian_filter(a, sigma, order=0, mode=m): same shape; the total SUM a is conserved for the boundary
        modes that re-inject what leaves the array ('reflect' = scipy's default, 'grid-mirror', 'wrap', 'grid-wrap');
        for 'constant' / 'nearest' / 'mirror' or a derivative order NOTHING is promised about the total.
        (the contract is keyed on the `mode=` / `order=` actually passed at the call site)
  scipy.interpolate.interp1d(x, y, kind)(t): kind of degree d reproduces polynomials of degree <= d; on exactly d+1 nodes it is
        the interpolating polynomial; without fill_value="extrapolate" a query outside [x0, x_last] raises ValueError.

  np.mean(a, axis=k): arithmetic mean along an axis; np.median / min / max / mean(a), np.quantile(a, q): a real number that is a
        FUNCTION of the contents of a (and of q) -- uninterpreted functions of a's ghost content identifier (see below)
  np.fft.fft2(a): an OPAQUE array (entries outside the model) whose contents are a function of the contents of a; scalar
        multiples and sums of opaque arrays with the same contents are tracked (a*X + b*X = (a+b)*X), anything else is unknown
  a[mask] (boolean mask of a's shape): 1-D, length = number of True entries (== a.size iff all True), values unspecified
  a[i] = v / a[i, :] = v: functional update of one leading slab, the right-hand side read in the pre-write state;
        per-slab ghost totals are remembered for concrete i

Totals are carried as ghost `FormalSum`s (a real constant plus formal sums SUM_{j<n} body(j)); the only algebra applied
to them is  SUM f + SUM g = SUM (f+g)  over equal ranges and  SUM_{j<n} c = n*c  (textbook identities, part of the trusted base).
The ghost is stamped with the array's write counter: any write not understood here invalidates it.
"""
from __future__ import annotations

import operator

import numpy as np
import z3

from .. import values as V
from .. import reals
from ..values import Sym, SymArr, S, lift, contains_sym, ite, OutOfSubset
from ..interp import RaiseSig

RND = z3.Function("round_half_even", z3.RealSort(), z3.IntSort())
HALF = z3.RealVal("1/2")


def _r(x):
    """real-sorted term of a number / Sym"""
    t = V._num(lift(x))
    return z3.ToReal(t) if z3.is_int(t) else t


def _i(x):
    """int-sorted term of an integer-valued number / Sym (reals are truncated by ToInt: callers pass floor()ed values)"""
    t = V._num(lift(x))
    return t if z3.is_int(t) else z3.ToInt(t)


def _occurs(t, v):
    stack, seen = [t], set()
    while stack:
        e = stack.pop()
        if e.get_id() in seen:
            continue
        seen.add(e.get_id())
        if e.eq(v):
            return True
        if z3.is_quantifier(e):
            stack.append(e.body())
        else:
            stack.extend(e.children())
    return False


# ------------------------------------------------------------------------------------------------
# ghost totals
# ------------------------------------------------------------------------------------------------


class FormalSum:
    """const + SUM_e SUM_{j < n_e} body_e(j)  -- a real number, kept symbolic."""

    def __init__(self, const=None, entries=()):
        self.const = z3.RealVal(0) if const is None else _r(const)
        self.entries = list(entries)  # (n term (Int), body: z3 Int term -> z3 Real term)

    def __add__(self, o):
        ent = list(self.entries)
        for n2, b2 in o.entries:
            for k, (n1, b1) in enumerate(ent):
                if z3.simplify(n1).eq(z3.simplify(n2)):
                    ent[k] = (n1, (lambda j, _a=b1, _b=b2: _a(j) + _b(j)))  # SUM f + SUM g = SUM (f + g) over the same range
                    break
            else:
                ent.append((n2, b2))
        return FormalSum(self.const + o.const, ent)

    def term(self):
        t = self.const
        j = z3.Int("j!fsum")
        for n, body in self.entries:
            b = z3.simplify(body(j), som=True)
            if not _occurs(b, j):
                t = t + z3.ToReal(n) * b  # SUM_{j<n} c = n*c   (n >= 0)
            else:
                t = t + lift(reals.sigma(n, lambda jj, _b=b: Sym(z3.substitute(_b, (j, jj)))))
        return z3.simplify(t)


def zeros_like_shape(shape):
    """np.zeros(shape) for a shape tuple with symbolic entries"""
    sh = tuple(Sym(_i(d)) if isinstance(d, Sym) else int(d) for d in shape)
    return set_total(SymArr(sh, lambda *i: 0.0, "real", name="zeros"), FormalSum(0))


def set_total(arr, fs):
    arr._ghost_total = (fs, arr.writes)
    return arr


def get_total(arr):
    g = getattr(arr, "_ghost_total", None)
    if g is None or not isinstance(arr, SymArr) or g[1] != arr.writes:
        return None
    return g[0]


def total_of(arr):
    """Total of a 1-D array as a FormalSum: the ghost if present, else the formal sum of its index function."""
    g = get_total(arr)
    if g is not None:
        return g
    if arr.ndim != 1:
        raise OutOfSubset("total of a multi-dimensional array without a ghost total")
    f = arr.fn
    n = _i(arr.shape[0])
    return FormalSum(0, [(n, lambda j, _f=f: _r(_f(j)))])


# ------------------------------------------------------------------------------------------------
# ghost content identifiers:  an integer NAMING an array's contents (shape and every entry).  Equal identifiers = equal contents;
# nothing is ever derived from the identifier about individual entries.  Library functions of a whole array (np.median, np.quantile,
# np.fft.fft2, ...) are uninterpreted functions of the identifier, so "identical images get identical statistics" is congruence.
# The ghost is stamped with the write counters of the array and of the array it is a view of: any later write invalidates it.
# ------------------------------------------------------------------------------------------------

STAT = {n: z3.Function(f"np_{n}_of_content", z3.IntSort(), z3.RealSort()) for n in ("median", "mean", "min", "max")}
QUANTILE = z3.Function("np_quantile_of_content", z3.IntSort(), z3.RealSort(), z3.RealSort())
FFT2 = z3.Function("np_fft2_of_content", z3.IntSort(), z3.IntSort())


def set_content(arr, tok):
    arr._content = (tok, arr.writes, arr.base, arr.base.writes)
    return arr


def get_content(arr):
    g = getattr(arr, "_content", None)
    if g is None or not isinstance(arr, SymArr):
        return None
    tok, w, base, bw = g
    if arr.writes != w or arr.base is not base or base.writes != bw:
        return None
    return tok


def content_of(ctx, arr):
    """the content identifier of `arr`; an array without one gets a fresh (unconstrained = unknown contents) identifier"""
    tok = get_content(arr)
    if tok is None:
        tok = ctx.fresh("array_content", "int").t
        set_content(arr, tok)
    return tok


def slab_content(arr, j):
    """content identifier of the leading slab arr[j] (j concrete) as remembered by  arr[j] = v / given by a setup"""
    g = getattr(arr, "_slab_cids", None)
    if g is None or g[1] != arr.writes or j not in g[0]:
        return None
    return g[0][j]


def set_slab_contents(arr, cids):
    arr._slab_cids = (dict(cids), arr.writes)
    return arr


# ------------------------------------------------------------------------------------------------
# interp1d
# ------------------------------------------------------------------------------------------------

_DEG = {"linear": 1, "slinear": 1, "quadratic": 2, "cubic": 3}


class Interp1d:
    """scipy.interpolate.interp1d object on K concrete-count nodes (x ascending), values y (index function)."""

    _pyvc_value = True
    _sym_ok = True

    def __init__(self, interp, x, y, kind="linear", axis=-1, copy=True, bounds_error=None, fill_value=None, assume_sorted=False):
        if kind not in _DEG:
            raise OutOfSubset(f"interp1d kind {kind!r}")
        self.deg = _DEG[kind]
        self.extrapolate = isinstance(fill_value, str) and fill_value == "extrapolate"
        if fill_value is not None and not self.extrapolate:
            raise OutOfSubset("interp1d fill_value other than 'extrapolate'")
        if bounds_error:
            self.extrapolate = False
        xs = _nodes(x)
        ys = _nodes(y)
        if len(xs) != len(ys):
            raise RaiseSig(ValueError("x and y arrays must be equal in length along interpolation axis."))
        if len(xs) < self.deg + 1:
            raise RaiseSig(ValueError("The number of derivatives at boundaries does not match"))
        for a, b in zip(xs, xs[1:]):
            if not z3.is_true(z3.simplify(a < b)):
                raise OutOfSubset("interp1d nodes not provably strictly ascending")
        self.xs, self.ys = xs, ys
        self.ctx = interp.ctx
        # an uninterpreted fallback for data that is not a polynomial of degree <= deg (nothing is promised then)
        self.uf = z3.Function(interp.ctx.fresh_name("interp1d"), z3.RealSort(), z3.RealSort())

    def poly(self, t):
        """interpolating polynomial through the first deg+1 nodes (Lagrange form)"""
        d = self.deg
        xs, ys = self.xs[: d + 1], self.ys[: d + 1]
        tot = z3.RealVal(0)
        for j in range(d + 1):
            term = ys[j]
            for m in range(d + 1):
                if m != j:
                    term = term * ((t - xs[m]) / (xs[j] - xs[m]))
            tot = tot + term
        return tot

    def value(self, t):
        t = _r(t)
        rest = [self.ys[j] == self.poly(self.xs[j]) for j in range(self.deg + 1, len(self.xs))]
        p = self.poly(t)
        if not rest:
            return Sym(z3.simplify(p))
        return Sym(z3.If(z3.And(*rest), p, self.uf(t)))

    def __call__(self, t):
        if isinstance(t, SymArr):
            if not self.extrapolate:
                idx = [z3.Int(f"i!ib{d}") for d in range(t.ndim)]
                rng = [z3.And(i >= 0, i < lift(n)) for i, n in zip(idx, t.shape)]
                tv = _r(t.fn(*idx))
                outside = z3.Exists(idx, z3.And(*rng, z3.Or(tv < self.xs[0], tv > self.xs[-1])))
                if self.ctx.branch(outside):
                    raise RaiseSig(ValueError("A value in x_new is outside the interpolation range."))
            return V.elementwise(lambda e: self.value(e), t, kind="real")
        if not self.extrapolate:
            tv = _r(t)
            if self.ctx.branch(z3.Or(tv < self.xs[0], tv > self.xs[-1])):
                raise RaiseSig(ValueError("A value in x_new is outside the interpolation range."))
        return self.value(t)


def _nodes(a):
    if isinstance(a, SymArr):
        if a.ndim != 1:
            raise OutOfSubset("interp1d on a multi-dimensional array")
        n = V._dim_lit(a.shape[0])
        if n is None:
            raise OutOfSubset("interp1d on a symbolic number of nodes")
        return [z3.simplify(_r(a.fn(z3.IntVal(j)))) for j in range(n)]
    return [_r(v) for v in list(a)]


# ------------------------------------------------------------------------------------------------


def install(reg):
    M = reg.models

    # ---- linspace (always exact)
    def m_linspace(interp, start, stop, num=50, endpoint=True, retstep=False, dtype=None, axis=0, **kw):
        if not endpoint or retstep or isinstance(start, SymArr) or isinstance(stop, SymArr):
            raise OutOfSubset("np.linspace variant")
        a, b = _r(start), _r(stop)
        if isinstance(num, Sym) and num.literal() is None:
            if interp.ctx.branch(num.t < 0):
                raise RaiseSig(ValueError("Number of samples must be non-negative"))
            n = num.t
            return SymArr((num,), lambda i: Sym(z3.If(n == 1, a, a + z3.ToReal(i) * (b - a) / z3.ToReal(n - 1))), "real", name="linspace")
        n = int(num)
        if n < 0:
            raise RaiseSig(ValueError("Number of samples must be non-negative"))
        if n == 1:
            return SymArr((1,), lambda i: Sym(a), "real", name="linspace")
        step = z3.simplify((b - a) / z3.RealVal(n - 1))
        return SymArr((n,), lambda i: Sym(a + z3.ToReal(i) * step), "real", name="linspace")

    M[np.linspace] = m_linspace

    def m_deg2rad(interp, x):
        f = lambda e: Sym(_r(e) * V.PI / 180)
        return V.elementwise(f, x, kind="real") if isinstance(x, SymArr) else (f(x) if contains_sym(x) else interp.native(np.deg2rad, x))

    M[np.deg2rad] = m_deg2rad

    for name, f in (("sin", np.sin), ("cos", np.cos)):
        def h(interp, x, _n=name, _f=f):
            if contains_sym(x):
                return reals.unary(_n)(x)
            return interp.native(_f, x)

        M[f] = h

    def m_floor(interp, x):
        f = lambda e: Sym(z3.ToReal(z3.ToInt(_r(e))))
        if isinstance(x, SymArr):
            return V.elementwise(f, x, kind="real")
        return f(x) if contains_sym(x) else interp.native(np.floor, x)

    M[np.floor] = m_floor

    def m_mod(interp, a, b, **kw):
        """np.mod(a, b) = a - b*floor(a/b) elementwise (Python / numpy sign convention)"""
        if not contains_sym((a, b)):
            return interp.native(np.mod, a, b, **kw)
        if isinstance(a, SymArr) or isinstance(b, SymArr):
            return V.elementwise(lambda p, q: S(p) % q, a, b, kind=getattr(a, "kind", "real"))
        return S(a) % b

    M[np.mod] = m_mod
    M[np.remainder] = m_mod

    def _round1(ctx, e):
        t = V._num(lift(e))
        if z3.is_int(t):
            return Sym(z3.ToReal(t))
        r = RND(t)
        ctx.assume(z3.And(z3.ToReal(r) - t <= HALF, t - z3.ToReal(r) <= HALF))
        return Sym(z3.ToReal(r))

    def m_round(interp, x, decimals=0, **kw):
        if not contains_sym(x):
            return interp.native(np.round, x, decimals, **kw)
        if decimals != 0:
            raise OutOfSubset("np.round(x, decimals) on symbolic value")
        if isinstance(x, SymArr):
            n = V._dim_lit(x.shape[0]) if x.ndim == 1 else None
            if n is None or n > 8:
                raise OutOfSubset("np.round on a symbolic-length array")
            return V.from_list([_round1(interp.ctx, x.fn(z3.IntVal(j))) for j in range(n)], kind="real", pylist=False)
        return _round1(interp.ctx, x)

    M[np.round] = m_round
    M[np.around] = m_round

    def _shape_tuple(shape):
        if isinstance(shape, SymArr):
            n = V._dim_lit(shape.shape[0])
            if shape.ndim != 1 or n is None:
                raise OutOfSubset("array shape given by a symbolic-length array")
            return tuple(Sym(_i(shape.fn(z3.IntVal(j)))) for j in range(n))
        if isinstance(shape, (tuple, list)):
            return tuple(Sym(_i(d)) if isinstance(d, Sym) else int(d) for d in shape)
        return (Sym(_i(shape)) if isinstance(shape, Sym) else int(shape),)

    def m_zeros(interp, shape, dtype=None, **kw):
        r = SymArr(_shape_tuple(shape), lambda *i: 0.0, "real", name="zeros")
        return set_total(r, FormalSum(0))

    M[np.zeros] = m_zeros

    def m_stack(interp, arrs, axis=0, **kw):
        arrs = list(arrs)
        if not contains_sym(arrs):
            return interp.native(np.stack, arrs, axis=axis, **kw)
        arrs = [a if isinstance(a, SymArr) else V.as_arr(a) for a in arrs]
        sh = arrs[0].shape
        for a in arrs[1:]:
            if len(a.shape) != len(sh) or not all(V.dims_equal(p, q) for p, q in zip(a.shape, sh)):
                raise OutOfSubset("np.stack of arrays whose shapes are not provably equal")
        nd = len(sh) + 1
        ax = axis % nd
        fns = [a.fn for a in arrs]
        n = len(arrs)

        def fn(*idx):
            j = idx[ax]
            rest = list(idx[:ax]) + list(idx[ax + 1:])
            r = fns[-1](*rest)
            for jj in range(n - 2, -1, -1):
                r = ite(j == jj, fns[jj](*rest), r)
            return r

        return SymArr(tuple(sh[:ax]) + (n,) + tuple(sh[ax:]), fn, arrs[0].kind, name="stack")

    M[np.stack] = m_stack

    def _minmax(npf, pick):
        def h(interp, a, b, **kw):
            if not contains_sym((a, b)):
                return interp.native(npf, a, b, **kw)
            if isinstance(a, SymArr) or isinstance(b, SymArr):
                return V.elementwise(lambda p, q: pick(S(p), S(q)), a, b, kind="real")
            return pick(S(a), S(b))

        return h

    M[np.minimum] = _minmax(np.minimum, V.smin)
    M[np.maximum] = _minmax(np.maximum, V.smax)

    def _stat(npf):
        def h(interp, x, *a, **kw):
            if isinstance(x, SymArr):
                if a or any(v is not None for v in kw.values()):
                    return interp.ctx.fresh(npf.__name__, "real")  # axis= / out= ... variants: some real number
                return Sym(STAT[npf.__name__](content_of(interp.ctx, x)))  # a function of the array's contents
            return interp.native(npf, x, *a, **kw)

        return h

    for f in (np.median, np.min, np.max):
        M[f] = _stat(f)

    def m_quantile(interp, x, q, *a, **kw):
        """np.quantile(a, q): a function of (contents of a, q)"""
        if isinstance(x, SymArr) or contains_sym(q):
            if a or any(v is not None for v in kw.values()) or isinstance(q, (SymArr, list, tuple)):
                return interp.ctx.fresh("quantile", "real")
            if not isinstance(x, SymArr):
                raise OutOfSubset("np.quantile of a concrete array at a symbolic level")
            return Sym(QUANTILE(content_of(interp.ctx, x), _r(q)))
        return interp.native(np.quantile, x, q, *a, **kw)

    M[np.quantile] = m_quantile

    def m_isfinite(interp, x, **kw):
        """np.isfinite(a): a boolean array of a's shape; WHICH entries are finite is left open (floats may hold NaN / inf)"""
        if isinstance(x, SymArr):
            return interp.ctx.fresh_arr("isfinite", x.shape, "bool")
        if contains_sym(x):
            return interp.ctx.fresh("isfinite", "bool")
        return interp.native(np.isfinite, x, **kw)

    M[np.isfinite] = m_isfinite

    def m_mean(interp, x, axis=None, **kw):
        if isinstance(x, SymArr):
            if axis is None:
                if any(v is not None for v in kw.values()):
                    return interp.ctx.fresh("mean", "real")
                return Sym(STAT["mean"](content_of(interp.ctx, x)))
            return x.mean(axis=axis)  # arithmetic mean along an axis (concrete small extents are expanded)
        return interp.native(np.mean, x, axis=axis, **kw)

    M[np.mean] = m_mean

    class OpaqueArray:
        """A complex array whose entries are outside the model (FFT data).  Ghost: its contents are  scale * X(tok)  for a content
        identifier `tok` and a real `scale`; multiplication / division by a scalar acts on the scale, the sum of two arrays with
        the SAME identifier adds the scales (a*X + b*X = (a+b)*X); every other operation gives unknown contents (fresh identifier)."""

        _pyvc_value = True

        def __init__(self, ctx=None, tok=None, scale=None):
            self.ctx = ctx
            self.tok = tok if tok is not None else (ctx.fresh("opaque_content", "int").t if ctx is not None else None)
            self.scale = z3.RealVal(1) if scale is None else scale

        def _fresh(self, *a):
            return OpaqueArray(self.ctx)

        def _scalar(self, o):
            return isinstance(o, (int, float, Sym)) and not isinstance(o, bool) and not (isinstance(o, Sym) and not (o.is_int or o.is_real))

        def __mul__(self, o):
            if self._scalar(o) and self.tok is not None:
                return OpaqueArray(self.ctx, self.tok, z3.simplify(self.scale * _r(o)))
            return self._fresh()

        __rmul__ = __mul__

        def __truediv__(self, o):
            if self._scalar(o) and self.tok is not None and self.ctx is not None and self.ctx.entails(_r(o) != 0):
                return OpaqueArray(self.ctx, self.tok, z3.simplify(self.scale / _r(o)))
            return self._fresh()

        def __add__(self, o):
            if isinstance(o, OpaqueArray) and self.tok is not None and o.tok is not None and self.ctx is not None:
                same = self.tok == o.tok
                r = OpaqueArray(self.ctx, None, z3.simplify(z3.If(same, self.scale + o.scale, z3.RealVal(1))))
                self.ctx.assume(z3.Implies(same, r.tok == self.tok))  # a*X + b*X = (a+b)*X
                return r
            return self._fresh()

        __radd__ = __add__
        __sub__ = __rsub__ = __rtruediv__ = _fresh

    reg.OpaqueArray = OpaqueArray

    def m_fft2(interp, x, *a, **kw):
        if isinstance(x, SymArr):
            if a or kw:
                return OpaqueArray(interp.ctx)
            return OpaqueArray(interp.ctx, FFT2(content_of(interp.ctx, x)))  # a function of the array's contents
        if isinstance(x, OpaqueArray):
            return OpaqueArray(interp.ctx)
        return interp.native(np.fft.fft2, x, *a, **kw)

    M[np.fft.fft2] = m_fft2

    # ---- ravel_multi_index / bincount
    def m_ravel_multi_index(interp, multi_index, dims, mode="raise", order="C"):
        mi = list(multi_index)
        if not contains_sym((mi, dims)):
            return interp.native(np.ravel_multi_index, multi_index, dims, mode=mode, order=order)
        dd = _shape_tuple(dims)
        if len(mi) != 2 or len(dd) != 2 or order != "C":
            raise OutOfSubset("ravel_multi_index: only 2-D C-order")
        a, b = mi
        if not (isinstance(a, SymArr) and isinstance(b, SymArr) and a.ndim == 1 and b.ndim == 1 and V.dims_equal(a.shape[0], b.shape[0])):
            raise OutOfSubset("ravel_multi_index: index arrays must be 1-D of provably equal length")
        d0, d1 = lift(dd[0]), lift(dd[1])
        ctx = interp.ctx
        if not (ctx.entails(d0 >= 1) and ctx.entails(d1 >= 1)):
            raise OutOfSubset("ravel_multi_index: dims not provably positive")
        fa, fb = a.fn, b.fn
        if isinstance(mode, (tuple, list)):
            m0, m1 = mode
        else:
            m0 = m1 = mode
        if any(m not in ("raise", "wrap", "clip") for m in (m0, m1)):
            raise RaiseSig(ValueError("clipmode not understood"))

        def comp(v, d, m):
            if m == "wrap":
                return v % d  # SMT mod with positive divisor: in [0, d)
            if m == "clip":
                return z3.If(v < 0, 0, z3.If(v >= d, d - 1, v))
            return v

        if "raise" in (m0, m1):
            j = z3.Int("j!rmi")
            bad = []
            if m0 == "raise":
                bad += [_i(fa(j)) < 0, _i(fa(j)) >= d0]
            if m1 == "raise":
                bad += [_i(fb(j)) < 0, _i(fb(j)) >= d1]
            outside = z3.Exists([j], z3.And(j >= 0, j < lift(a.shape[0]), z3.Or(*bad)))
            if ctx.branch(outside):
                raise RaiseSig(ValueError("invalid entry in coordinates array"))
        r = SymArr((a.shape[0],), lambda j: Sym(comp(_i(fa(j)), d0, m0) * d1 + comp(_i(fb(j)), d1, m1)), "int", name="ravel_multi_index")
        r._index_bound = (d0 * d1, r.writes)  # every entry lies in [0, d0*d1)
        return r

    M[np.ravel_multi_index] = m_ravel_multi_index

    def m_bincount(interp, x, weights=None, minlength=0):
        if not contains_sym((x, weights, minlength)):
            return interp.native(np.bincount, x, weights=weights, minlength=minlength)
        ctx = interp.ctx
        ib = getattr(x, "_index_bound", None)
        if not isinstance(x, SymArr) or x.ndim != 1 or ib is None or ib[1] != x.writes:
            raise OutOfSubset("np.bincount on indices without a known range [0, bound)")
        L = _i(minlength)
        if not ctx.entails(ib[0] <= L):
            raise OutOfSubset("np.bincount: index bound not provably <= minlength (result length unknown)")
        if weights is None:
            tot = FormalSum(0, [(_i(x.shape[0]), lambda j: z3.RealVal(1))])
        else:
            if not (isinstance(weights, SymArr) and weights.ndim == 1):
                raise OutOfSubset("np.bincount weights")
            if not V.dims_equal(weights.shape[0], x.shape[0]):
                raise RaiseSig(ValueError("The weights and list don't have the same length."))
            tot = total_of(weights)
        r = ctx.fresh_arr("bincount", (Sym(L),), "real")
        return set_total(r, tot)

    M[np.bincount] = m_bincount

    # ---- gaussian_filter: contract keyed on the boundary mode / derivative order actually passed
    import scipy.ndimage as ndi

    CONSERVING = ("reflect", "grid-mirror", "wrap", "grid-wrap")

    def m_gaussian_filter(interp, input, sigma, order=0, output=None, mode="reflect", cval=0.0, truncate=4.0, **kw):
        if not isinstance(input, SymArr):
            if contains_sym((sigma,)):
                raise OutOfSubset("gaussian_filter of a concrete array with symbolic sigma")
            return interp.native(ndi.gaussian_filter, input, sigma, order=order, output=output, mode=mode, cval=cval, truncate=truncate, **kw)
        if output is not None or kw.get("radius") is not None or kw.get("axes") is not None:
            raise OutOfSubset("gaussian_filter with output= / radius= / axes=")
        r = interp.ctx.fresh_arr("gaussian_filter", input.shape, "real")
        tot = get_total(input)
        modes = list(mode) if isinstance(mode, (tuple, list)) else [mode]
        orders = list(order) if isinstance(order, (tuple, list)) else [order]
        if tot is not None and all(m in CONSERVING for m in modes) and all((not contains_sym(o)) and o == 0 for o in orders):
            set_total(r, tot)
        return r

    M[ndi.gaussian_filter] = m_gaussian_filter

    # ---- interp1d
    import scipy.interpolate as sci

    reg.ctor_models[sci.interp1d] = lambda interp, x, y, **kw: Interp1d(interp, x, y, **kw)

    # ---- plain containers with symbolic payloads
    def l_append(interp, lst, x):
        lst.append(x)

    reg.method_models.setdefault((list, "append"), l_append)

    # ---- SymArr: reshape keeps the total and accepts a length-k array as the new shape; row assignment a[i] = row
    def arr_attr(interp, base, name):
        if name == "reshape":
            def reshape(*shape):
                if len(shape) == 1 and isinstance(shape[0], SymArr):
                    shape = _shape_tuple(shape[0])
                elif len(shape) == 1 and isinstance(shape[0], (tuple, list)):
                    shape = tuple(shape[0])
                tot = get_total(base)
                r = SymArr.reshape(base, *shape)
                if tot is not None:
                    set_total(r, tot)
                return r

            return reshape
        return NotImplemented

    prev_attr = reg.attr_models.get(SymArr)

    def arr_attr_chain(interp, base, name):
        r = arr_attr(interp, base, name)
        if r is NotImplemented and prev_attr is not None:
            return prev_attr(interp, base, name)
        return r

    reg.attr_models[SymArr] = arr_attr_chain

    def arr_setitem(interp, base, key, v):
        """a[i] = row  (i a scalar index, a.ndim >= 2): functional update of one leading slab."""
        if isinstance(key, tuple) and len(key) >= 1 and all(isinstance(k, slice) and k == slice(None) for k in key[1:]):
            key = key[0]  # a[i, :] = row  ==  a[i] = row
        if isinstance(key, tuple) or isinstance(key, (slice, SymArr, list)) or key is None or key is Ellipsis or base.ndim < 2:
            return NotImplemented
        if base.base is not base:
            base.detach_from_base()
        i = lift(base._norm_index(key, base.shape[0]))
        va = v if isinstance(v, SymArr) else V.as_arr(v)
        try:
            V.broadcast_shapes(va.shape, base.shape[1:])
        except OutOfSubset:
            raise
        if va.ndim > base.ndim - 1:
            raise RaiseSig(ValueError("could not broadcast input array"))
        for p, q in zip(reversed(va.shape), reversed(base.shape[1:])):
            if V._dim_lit(p) != 1 and not V.dims_equal(p, q):
                raise RaiseSig(ValueError("could not broadcast input array"))
        old, vf, off = base.fn, va.fn, base.ndim - 1 - va.ndim
        vshape = va.shape
        w_at = base.writes

        def rhs(*sub):
            # numpy evaluates the right-hand side completely before it writes (a[0] = a[0] + d): views of `base` that the
            # value was computed from are read in the pre-write state
            saved = base.writes
            base.writes = w_at
            try:
                return vf(*sub)
            finally:
                base.writes = saved

        def fn(*idx):
            sub = [z3.IntVal(0) if V._dim_lit(vshape[j]) == 1 else idx[1 + off + j] for j in range(len(vshape))]
            return ite(idx[0] == i, rhs(*sub), old(*idx))

        base.fn = fn
        # per-slab ghost totals: a[j] = v with a concrete j remembers SUM v; other slabs keep theirs
        st = getattr(base, "_slab_totals", None)
        slabs = dict(st[0]) if st is not None and st[1] == base.writes else {}
        ilit = Sym(i).literal()
        tv = get_total(va)
        if isinstance(ilit, int) and not isinstance(ilit, bool):
            slabs.pop(ilit, None)
            if tv is not None and va.ndim == base.ndim - 1:
                slabs[ilit] = tv
        else:
            slabs = {}
        sc = getattr(base, "_slab_cids", None)
        cids = dict(sc[0]) if sc is not None and sc[1] == base.writes else {}
        cv = get_content(va)
        if isinstance(ilit, int) and not isinstance(ilit, bool):
            cids.pop(ilit, None)
            if cv is not None and va.ndim == base.ndim - 1 and all(V.dims_equal(p, q) for p, q in zip(va.shape, base.shape[1:])):
                cids[ilit] = cv
        else:
            cids = {}
        base.writes += 1
        base._slab_totals = (slabs, base.writes)
        base._slab_cids = (cids, base.writes)
        return True

    prev_set = reg.setitem_models.get(SymArr)

    def arr_setitem_chain(interp, base, key, v):
        r = arr_setitem(interp, base, key, v)
        if r is NotImplemented and prev_set is not None:
            return prev_set(interp, base, key, v)
        return r

    reg.setitem_models[SymArr] = arr_setitem_chain

    # ---- a[mask] with a boolean mask of a's shape: the selected entries in row-major order.  Trusted: the result is 1-D, its
    # length is the number of True entries (one length per mask object, so a[m], b[m] have equal lengths), 0 <= length <= a.size,
    # and length == a.size exactly when every entry of the mask is True; the selected VALUES are left unspecified (fresh).
    def _is_mask(k, base):
        if not (isinstance(k, SymArr) and k.ndim == base.ndim and k.ndim >= 1):
            return False
        try:
            probe = lift(k.fn(*[z3.Int(f"i!mk{d}") for d in range(k.ndim)]))
        except Exception:
            return False
        return z3.is_bool(probe) and all(V.dims_equal(p, q) for p, q in zip(k.shape, base.shape))

    def arr_getitem(interp, base, key):
        if isinstance(key, tuple) and len(key) == 1:
            key = key[0]
        if isinstance(key, int) and not isinstance(key, bool) and base.ndim >= 2 and not base.pylist:
            n0 = V._dim_lit(base.shape[0])
            cid = slab_content(base, key if key >= 0 or n0 is None else key + n0)
            if cid is not None:
                r = base[key]
                return set_content(r, cid) if isinstance(r, SymArr) else r
            return NotImplemented
        if not _is_mask(key, base):
            return NotImplemented
        ctx = interp.ctx
        cnt = getattr(key, "_true_count", None)
        if cnt is None or cnt[1] != key.writes:
            n = ctx.fresh("mask_count", "int")
            size = 1
            for d in base.shape:
                size = size * d
            idx = [z3.Int(f"i!mq{d}") for d in range(key.ndim)]
            rng = z3.And(*[z3.And(i >= 0, i < lift(d)) for i, d in zip(idx, key.shape)])
            alltrue = z3.ForAll(idx, z3.Implies(rng, lift(key.fn(*idx))))
            ctx.assume(z3.And(n.t >= 0, n.t <= lift(size)))
            ctx.assume((n.t == lift(size)) == alltrue)
            key._true_count = (n, key.writes)
            cnt = key._true_count
        r = ctx.fresh_arr("masked", (cnt[0],), base.kind if base.kind in ("int", "real", "bool") else "real")
        r._masked_from = (base, key)
        return r

    prev_get = reg.getitem_models.get(SymArr)

    def arr_getitem_chain(interp, base, key):
        r = arr_getitem(interp, base, key)
        if r is NotImplemented and prev_get is not None:
            return prev_get(interp, base, key)
        return r

    reg.getitem_models[SymArr] = arr_getitem_chain

    # ---- a + b keeps totals (linearity of the sum) when no broadcasting is involved
    def arr_add(interp, op, a, b):
        if not (isinstance(a, SymArr) and isinstance(b, SymArr)) or a.pylist or b.pylist:
            return NotImplemented
        ta, tb = get_total(a), get_total(b)
        r = operator.add(a, b)
        if ta is not None and tb is not None and isinstance(r, SymArr) and len(a.shape) == len(b.shape) and all(V.dims_equal(p, q) for p, q in zip(a.shape, b.shape)):
            set_total(r, ta + tb)
        return r

    reg.binop_models[(SymArr, operator.add)] = arr_add
    return reg
