"""TRUSTED library contracts used by C16 (forward-operator identities).  Nothing here is about quantem.

* `Cx(re, im)`      - a complex scalar as a pair of reals; exp(i t) = (cos t, sin t); |z|^2 = re^2 + im^2.
* complex arrays    - SymArr whose index function returns `Cx` values.
* numpy / torch     - fftfreq, exp / angle / abs / sqrt / tan on complex or real index-function arrays, torch.complex, .real / .imag,
                      is_complex, dtype casts (complex -> real dtype DISCARDS the imaginary part, as torch / numpy do), sgn, C-order
                      reshape / flatten, index_add_, boolean-mask assignment of +inf / masked_fill(_) followed by division (x / inf = 0), unsqueeze, stack, prod.
* A5 (DFT axioms)   - torch.fft.fft2 / ifft2 (and the numpy twins) return a FRESH complex array F for which only these facts are
                      available: (i) Parseval in the form matching `norm` (ortho: sum|F|^2 = sum|x|^2; backward fft: sum|x|^2 =
                      sum|F|^2 / N; backward ifft: sum|y|^2 = sum|G|^2 / N; forward: mirrored), instantiated at the generic batch
                      indices the contract registered; (ii) Parseval summed over the leading (mode) axis; (iii) ifft2(fft2(x)) = x and
                      fft2(ifft2(G)) = G for equal `norm` (the model returns the linked array); fft2 of the same array object with
                      the same norm is the same spectrum.  fftshift / ifftshift are the index maps i -> (i -+ n//2) mod n and preserve
                      the sum over the shifted axes.
* finite sums       - Sigma2(nr, nc, <summand>): sum over the 2-D index range; syntactically equal summands give equal sums; pointwise
                      equal summands give equal sums through explicit extensionality instances (`sum_ext_hint`); no other sum
                      algebra is assumed.
* A4 extra schema   - angle addition / negation / zero for cos, sin, with the arithmetic side condition kept as the antecedent.
"""
from __future__ import annotations

import itertools
import operator
from fractions import Fraction

import numpy as np
import torch
import z3

from .. import values as V
from .. import reals
from ..values import Sym, SymArr, S, lift, contains_sym, OutOfSubset, elementwise
from ..interp import RaiseSig, NS

I_, R_ = z3.IntSort(), z3.RealSort()
TAN = z3.Function("tan", R_, R_)  # uninterpreted; no facts are needed about it


# ------------------------------------------------------------------------------------------------ real helpers


def _isnum(x):
    return isinstance(x, (int, float, Fraction)) and not isinstance(x, bool)


def _z(x):
    return _isnum(x) and x == 0


def _one(x):
    return _isnum(x) and x == 1


def r_add(a, b):
    if _z(a):
        return b
    if _z(b):
        return a
    return a + b


def r_sub(a, b):
    if _z(b):
        return a
    if _z(a):
        return -b
    return a - b


def r_mul(a, b):
    if _z(a) or _z(b):
        return 0
    if _one(a):
        return b
    if _one(b):
        return a
    return a * b


def r_div(a, b):
    if _z(a):
        return 0
    if _one(b):
        return a
    if _isnum(a) and _isnum(b):
        return Fraction(a) / Fraction(b) if not isinstance(a, float) and not isinstance(b, float) else a / b
    return V._realdiv(a, b)


def r_term(x):
    """real z3 term of a Sym / number"""
    t = V._num(lift(x))
    return z3.ToReal(t) if z3.is_int(t) else t


class CAbs(Sym):
    """|z| for a complex z: the term sqrt(re^2+im^2) together with its square (|z|^2 = re^2 + im^2 exactly)."""

    __slots__ = ("sq",)

    def __init__(self, sq):
        Sym.__init__(self, reals.app("sqrt", sq).t)
        self.sq = sq

    def __pow__(self, o):
        if isinstance(o, Sym):
            o = o.literal() if o.literal() is not None else o
        if _isnum(o) and o == 2:
            return self.sq if isinstance(self.sq, Sym) else S(self.sq)
        return Sym.__pow__(self, o)


# ------------------------------------------------------------------------------------------------ complex scalars


class Cx:
    """Complex number as (re, im); components are Sym reals or Python numbers (a literal 0 is kept literal)."""

    _pyvc_value = True
    _pyvc_scalar = True
    __slots__ = ("re", "im")

    def __init__(self, re, im=0):
        self.re, self.im = re, im

    @staticmethod
    def of(x):
        if isinstance(x, Cx):
            return x
        if isinstance(x, complex):
            return Cx(_clean(x.real), _clean(x.imag))
        if isinstance(x, (Sym, int, float, Fraction)) and not isinstance(x, bool):
            return Cx(x, 0)
        if isinstance(x, SymArr) and x.ndim == 0:
            return Cx.of(x.fn())
        try:
            return Cx(S(x), 0)
        except OutOfSubset:
            return None

    def __repr__(self):
        return f"Cx({self.re}, {self.im})"

    @property
    def real(self):
        return self.re

    @property
    def imag(self):
        return self.im

    def conj(self):
        return Cx(self.re, r_sub(0, self.im))

    def abs2(self):
        return r_add(r_mul(self.re, self.re), r_mul(self.im, self.im))

    def __abs__(self):
        return CAbs(S(self.abs2()))

    def _other(self, o):
        if isinstance(o, SymArr) and o.ndim > 0:
            return None
        return Cx.of(o)

    def __add__(self, o):
        o = self._other(o)
        if o is None:
            return NotImplemented
        return Cx(r_add(self.re, o.re), r_add(self.im, o.im))

    __radd__ = __add__

    def __sub__(self, o):
        o = self._other(o)
        if o is None:
            return NotImplemented
        return Cx(r_sub(self.re, o.re), r_sub(self.im, o.im))

    def __rsub__(self, o):
        o = self._other(o)
        if o is None:
            return NotImplemented
        return o.__sub__(self)

    def __neg__(self):
        return Cx(r_sub(0, self.re), r_sub(0, self.im))

    def __pos__(self):
        return self

    def __mul__(self, o):
        o = self._other(o)
        if o is None:
            return NotImplemented
        return Cx(r_sub(r_mul(self.re, o.re), r_mul(self.im, o.im)), r_add(r_mul(self.re, o.im), r_mul(self.im, o.re)))

    __rmul__ = __mul__

    def __truediv__(self, o):
        o = self._other(o)
        if o is None:
            return NotImplemented
        if _z(o.im):
            return Cx(r_div(self.re, o.re), r_div(self.im, o.re))
        d = o.abs2()
        n = self * o.conj()
        return Cx(r_div(n.re, d), r_div(n.im, d))

    def __rtruediv__(self, o):
        o = self._other(o)
        if o is None:
            return NotImplemented
        return o.__truediv__(self)

    def __pow__(self, k):
        if isinstance(k, Sym):
            k = k.literal()
        if isinstance(k, int) and k >= 0:
            r = Cx(1, 0)
            for _ in range(k):
                r = r * self
            return r
        raise OutOfSubset("complex power with non-natural exponent")

    def eq(self, o):
        o = Cx.of(o)
        return z3.And(r_term(self.re) == r_term(o.re), r_term(self.im) == r_term(o.im))

    def __eq__(self, o):
        o2 = Cx.of(o)
        if o2 is None:
            return False
        return Sym(self.eq(o2))

    def __ne__(self, o):
        r = self.__eq__(o)
        return True if r is False else Sym(z3.Not(r.t))

    __hash__ = object.__hash__


def _clean(f):
    f = float(f)
    if f == 0:
        return 0
    if f == int(f):
        return int(f)
    return f


def cexp(z):
    """exp(a + i b) = exp(a) (cos b + i sin b)"""
    z = Cx.of(z)
    if _z(z.im):
        return Cx(_rexp(z.re), 0)
    c, s = reals.app("cos", z.im), reals.app("sin", z.im)
    if _z(z.re):
        return Cx(c, s)
    e = _rexp(z.re)
    return Cx(e * c, e * s)


def _rexp(x):
    if _z(x):
        return 1
    return reals.app("exp", x)


def cis(t):
    return Cx(reals.app("cos", t), reals.app("sin", t))


def abs2(v):
    """|v|^2 of an array element (Cx, CAbs or real)."""
    if isinstance(v, Cx):
        return v.abs2()
    if isinstance(v, CAbs):
        return v.sq
    return r_mul(v, v)


def cite(c, a, b):
    """if-then-else on complex / real scalars"""
    c = lift(c)
    if isinstance(a, Cx) or isinstance(b, Cx):
        a, b = Cx.of(a), Cx.of(b)
        return Cx(V.ite(c, a.re, b.re), V.ite(c, a.im, b.im))
    return V.ite(c, a, b)


def _probe_elem(a):
    idx = [z3.Int(f"i!probe{d}") for d in range(a.ndim)]
    try:
        return a.fn(*idx)
    except (OutOfSubset, RaiseSig):
        return None


def is_cx(a):
    if isinstance(a, Cx):
        return True
    if isinstance(a, SymArr):
        k = getattr(a, "c16_cx", None)
        if k is None:
            k = isinstance(_probe_elem(a), Cx)
            try:
                a.c16_cx = k
            except AttributeError:
                pass
        return k
    return isinstance(a, complex)


def ctx_state(ctx):
    st = ctx.ghost.get("c16")
    if st is None:
        st = NS(backend="torch", generic=[], sum0=[], cache=[], log=[], dims=[])
        ctx.ghost["c16"] = st
    return st


def backend_type(ctx):
    return torch.Tensor if ctx_state(ctx).backend == "torch" else np.ndarray


def like(r, as_type=None, ctx=None):
    if isinstance(r, SymArr):
        r.as_type = as_type or backend_type(ctx or V.cur())
    return r


# Storage dtype tags.  The engine computes with mathematical reals (A1); an array may carry the dtype it was allocated / cast
# with (`c16_dtype`, a torch.dtype) so that a contract can state "the result has the dtype of the input" (precision is a
# property of the storage, not of the values).  Untagged arrays count as double precision.
_REAL_OF = {torch.complex128: torch.float64, torch.complex64: torch.float32}
_CPLX_OF = {torch.float64: torch.complex128, torch.float32: torch.complex64, torch.float16: torch.complex64}


def tag_dtype(a, dt):
    if isinstance(a, SymArr) and dt is not None:
        a.c16_dtype = dt
    return a


def dtype_tag(a):
    return getattr(a, "c16_dtype", None)


def fresh_cx(ctx, base, shape, as_type=None):
    name = ctx.fresh_name(base)
    nd = len(shape)
    if nd:
        fr = z3.Function(name + "_re", *([I_] * nd), R_)
        fi = z3.Function(name + "_im", *([I_] * nd), R_)
        fn = lambda *idx, _a=fr, _b=fi: Cx(Sym(_a(*idx)), Sym(_b(*idx)))
    else:
        fr, fi = z3.Real(name + "_re"), z3.Real(name + "_im")
        fn = lambda _a=fr, _b=fi: Cx(Sym(_a), Sym(_b))
    a = SymArr(tuple(shape), fn, "complex", name=name)
    a.c16_cx = True
    a.c16_funcs = (fr, fi)
    return like(a, as_type, ctx)


def fresh_real(ctx, base, shape, kind="real", as_type=None):
    a = ctx.fresh_arr(base, tuple(shape), kind)
    a.c16_cx = False
    return like(a, as_type, ctx)


def cx_map(f, *arrs):
    r = elementwise(f, *arrs)
    return r


# ------------------------------------------------------------------------------------------------ finite sums over the 2-D index range


def canon_dim(d):
    """A dimension term provably equal (on the current path) to a registered canonical dimension is replaced by it
    (slicing produces terms like If(n <= 0, 0, n))."""
    t = lift(d)
    if z3.is_const(t):
        return t
    ctx = V.cur()
    for c in ctx_state(ctx).dims:
        if t.eq(c) or ctx.entails(t == c):
            return c
    return z3.simplify(t)


TAG = z3.DeclareSort("Summand")
_TAGF = {}


def _free_consts(t, skip):
    out, seen, stack = [], set(), [t]
    while stack:
        e = stack.pop()
        k = e.get_id()
        if k in seen:
            continue
        seen.add(k)
        if z3.is_var(e) or z3.is_quantifier(e):
            raise OutOfSubset("finite-sum summand under a binder")
        if z3.is_const(e) and e.decl().kind() == z3.Z3_OP_UNINTERPRETED:
            if not any(e.eq(x) for x in skip):
                out.append(e)
            continue
        stack.extend(reversed(e.children()))
    return out


def summand_tag(body, bound):
    """An opaque name for the summand  lambda i j. body : a function symbol determined by the summand's syntactic skeleton,
    applied to the free constants of the body.  Syntactically equal summands get equal tags (congruence); nothing else is
    known about tags - every other equality of sums must come from an explicit extensionality instance (`sum_ext_hint`)."""
    consts = _free_consts(body, bound)
    consts.sort(key=lambda c: str(c))
    ph = [z3.Const(f"ph!{q}", c.sort()) for q, c in enumerate(consts)]
    skel = z3.substitute(body, *zip(consts, ph)) if consts else body
    key = skel.sexpr()
    f = _TAGF.get(key)
    if f is None:
        nm = f"summand!{len(_TAGF)}"
        f = z3.Function(nm, *[c.sort() for c in consts], TAG) if consts else z3.Const(nm, TAG)
        _TAGF[key] = f
    return f(*consts) if consts else f


SIG2 = z3.Function("Sigma2", I_, I_, TAG, R_)


def _sig2_parts(nr, nc, body):
    i, j = z3.Int("i!s2"), z3.Int("j!s2")
    b = z3.simplify(r_term(body(i, j)))
    nr, nc = canon_dim(nr), canon_dim(nc)
    return i, j, nr, nc, b


def sig2(nr, nc, body):
    """sum_{0<=i<nr, 0<=j<nc} body(i, j)  (real)"""
    i, j, nr, nc, b = _sig2_parts(nr, nc, body)
    return Sym(SIG2(nr, nc, summand_tag(b, (i, j))))


def sum_ext_hint(ctx, nr, nc, body_a, body_b):
    """Sigma-extensionality instance (TRUSTED schema, valid for every pair of summands):
         (forall 0<=i<nr, 0<=j<nc: a(i,j) = b(i,j))  =>  sum_ij a(i,j) = sum_ij b(i,j)"""
    i, j, nr_, nc_, ba = _sig2_parts(nr, nc, body_a)
    _, _, _, _, bb = _sig2_parts(nr, nc, body_b)
    inr = z3.And(i >= 0, i < nr_, j >= 0, j < nc_)
    ctx.assume(z3.Implies(z3.ForAll([i, j], z3.Implies(inr, ba == bb)), sig2(nr, nc, body_a).t == sig2(nr, nc, body_b).t))


def energy_hint(ctx, a, ga, b, gb):
    """extensionality instance for  sum|a[ga,i,j]|^2  vs  sum|b[gb,i,j]|^2"""
    fa, fb = a.fn, b.fn
    sum_ext_hint(ctx, a.shape[-2], a.shape[-1], lambda i, j: abs2(fa(*ga, i, j)), lambda i, j: abs2(fb(*gb, i, j)))


def energy(arr, g=()):
    """sum_{ij} |arr[g, i, j]|^2 for the batch index tuple g (terms)."""
    nr, nc = arr.shape[-2], arr.shape[-1]
    fn = arr.fn
    return sig2(nr, nc, lambda i, j: abs2(fn(*g, i, j)))


def total(arr, g=()):
    """sum_{ij} arr[g, i, j] for a real array."""
    nr, nc = arr.shape[-2], arr.shape[-1]
    fn = arr.fn
    return sig2(nr, nc, lambda i, j: fn(*g, i, j))


def abs2_arr(arr):
    fn = arr.fn
    r = SymArr(arr.shape, lambda *idx: S(abs2(fn(*idx))), "real")
    r.c16_cx = False
    return r


def mode_energy(arr, g=()):
    """sum_{ij} sum_m |arr[m, g, i, j]|^2 in exactly the term shape produced by  sum(abs(arr)**2, dim=0)."""
    inten = reals.reduce_sum(abs2_arr(arr), 0, False)
    return total(inten, g)


def register_generic(ctx, g):
    """The contract declares batch-index tuples at which the per-slice facts of the DFT / shift models are instantiated."""
    st = ctx_state(ctx)
    st.generic.append(tuple(lift(x) for x in g))


def register_sum0(ctx, g):
    st = ctx_state(ctx)
    st.sum0.append(tuple(lift(x) for x in g))


# ------------------------------------------------------------------------------------------------ DFT model (A5)


def _norm_key(norm):
    return "backward" if norm is None else norm


PARSEVAL_DIV = z3.Function("div_by_npix", R_, I_, I_, R_)  # div_by_npix(e, nr, nc) = e / (nr*nc); only congruence is used


def _npix(x):
    nr, nc = lift(x.shape[-2]), lift(x.shape[-1])
    return lambda e: PARSEVAL_DIV(e, nr, nc)


def dft2(ctx, x, norm=None, inverse=False):
    """torch.fft.fft2 / ifft2 over the last two axes (A5)."""
    if not isinstance(x, SymArr) or x.ndim < 2:
        raise OutOfSubset("fft2 of a non-array / <2-d array")
    norm = _norm_key(norm)
    if norm not in ("backward", "ortho", "forward"):
        raise RaiseSig(ValueError("invalid norm"))
    st = ctx_state(ctx)
    # (iii) inverse pairs with equal norm
    link = getattr(x, "c16_ifft_of" if not inverse else "c16_fft_of", None)
    if link is not None and link[1] == norm and link[2] is x.fn:
        return link[0]
    # same array object, same transform -> same result
    for (fn0, inv0, norm0, res) in st.cache:
        if fn0 is x.fn and inv0 == inverse and norm0 == norm:
            return res
    R = fresh_cx(ctx, "ifft2" if inverse else "fft2", x.shape)
    if inverse:
        R.c16_ifft_of = (x, norm, R.fn)
    else:
        R.c16_fft_of = (x, norm, R.fn)
    st.cache.append((x.fn, inverse, norm, R))
    N = _npix(x)
    nb = x.ndim - 2
    # which side carries the 1/N:  E_small = E_big / N
    if norm == "ortho":
        rel = lambda ex, eR: eR.t == ex.t
    elif (norm == "backward") != inverse:  # backward fft, forward ifft: |R|^2 = N |x|^2
        rel = lambda ex, eR: ex.t == N(eR.t)
    else:  # backward ifft, forward fft: |R|^2 = |x|^2 / N
        rel = lambda ex, eR: eR.t == N(ex.t)
    for g in st.generic:
        if len(g) == nb:
            ctx.assume(rel(energy(x, g), energy(R, g)))
    for g in st.sum0:
        if len(g) == nb - 1 and nb >= 1:
            ctx.assume(rel(mode_energy(x, g), mode_energy(R, g)))
    st.log.append(("ifft2" if inverse else "fft2", norm))
    return R


def spectrum(ctx, x, norm=None):
    """The (canonical) fft2 of array x - the same object the code's own call obtains."""
    return dft2(ctx, x, norm, False)


def freq_index(i, n):
    """numerator of fftfreq: i for i <= (n-1)//2, else i - n"""
    i, n = lift(i), lift(n)
    return z3.If(i <= (n - 1) / 2, i, i - n)


def fftfreq_arr(n, d, as_type):
    nt = lift(n)
    dd = d

    def fn(i):
        num = Sym(z3.ToReal(freq_index(i, nt)))
        den = r_mul(Sym(z3.ToReal(nt)), dd)
        return r_div(num, den)

    a = SymArr((n,), fn, "real", name="fftfreq")
    a.c16_cx = False
    a.as_type = as_type
    return a


def shift_index(i, n, inverse=False):
    """source index read by fftshift (inverse=False): (i - n//2) mod n;  by ifftshift: (i + n//2) mod n   (n >= 1)"""
    i, n = lift(i), lift(n)
    return (i + n / 2) % n if inverse else (i - n / 2) % n


def shift_arr(ctx, x, dims, inverse):
    """fftshift: out[i] = in[(i - n//2) mod n];  ifftshift: out[i] = in[(i + n//2) mod n]."""
    if dims is None:
        dims = tuple(range(x.ndim))
    if isinstance(dims, int):
        dims = (dims,)
    dims = tuple(d % x.ndim for d in dims)
    fn0 = x.fn

    def fn(*idx):
        idx = list(idx)
        for d in dims:
            idx[d] = shift_index(idx[d], x.shape[d], inverse)
        return fn0(*idx)

    r = SymArr(x.shape, fn, x.kind)
    r.c16_cx = is_cx(x)
    like(r, getattr(x, "as_type", None), ctx)
    # a cyclic permutation of the last two axes preserves the sum over them (real arrays; instantiated at the generic indices)
    if not r.c16_cx and x.ndim >= 2 and set(dims) <= {x.ndim - 2, x.ndim - 1}:
        st = ctx_state(ctx)
        for g in st.generic + st.sum0:
            if len(g) == x.ndim - 2:
                ctx.assume(total(r, g).t == total(x, g).t)
    return r


# ------------------------------------------------------------------------------------------------ C-order reshape


def _prod(ds):
    r = 1
    for d in ds:
        r = r * d
    return r


def c_reshape(ctx, a, shape):
    """C-order reshape for the three shapes that occur: flatten, 1-d -> n-d, keep leading axes and merge the rest."""
    shape = list(shape)
    if len(shape) == 1 and isinstance(shape[0], (tuple, list)):
        shape = list(shape[0])
    old = a.shape
    fn0 = a.fn
    neg = [k for k, s in enumerate(shape) if not isinstance(s, Sym) and s == -1]
    total_n = _prod(old) if old else 1

    def unravel(q, dims):
        out = []
        q = lift(q)
        for d in reversed(dims[1:]):
            d = lift(d)
            out.append(q % d)
            q = q / d
        out.append(q)
        return list(reversed(out))

    def ravel(idx, dims):
        lin = idx[0]
        for i, d in zip(idx[1:], dims[1:]):
            lin = lin * lift(d) + i
        return lin

    # flatten
    if len(shape) == 1:
        n = total_n if neg else shape[0]
        if len(old) == 1:
            r = SymArr((n,), fn0, a.kind)
        else:
            r = SymArr((n,), lambda q: fn0(*unravel(q, old)), a.kind)
        if not neg and not V.dims_equal(n, total_n):
            raise OutOfSubset("reshape: cannot prove the element counts agree")
    elif len(old) == 1:
        if neg:
            raise OutOfSubset("reshape 1-d -> n-d with -1")
        if not (V.dims_equal(_prod(shape), old[0])):
            ok = ctx.entails(lift(_prod(shape)) == lift(old[0]))
            if not ok:
                raise RaiseSig(RuntimeError("shape is invalid for input size"))
        r = SymArr(tuple(shape), lambda *idx: fn0(ravel(list(idx), shape)), a.kind)
    else:
        # keep the first k axes, merge the rest into one (-1 or explicit)
        k = len(shape) - 1
        if k <= len(old) and all(V.dims_equal(x, y) for x, y in zip(shape[:k], old[:k])):
            rest = old[k:]
            n = _prod(rest)
            if not neg and not V.dims_equal(shape[-1], n):
                raise OutOfSubset("reshape: trailing merge size not provably equal")
            r = SymArr(tuple(old[:k]) + (n,), lambda *idx: fn0(*idx[:k], *unravel(idx[k], rest)), a.kind)
        else:
            raise OutOfSubset(f"reshape {old} -> {tuple(shape)} not modelled")
    if hasattr(a, "c16_cx"):
        r.c16_cx = a.c16_cx
    tag_dtype(r, dtype_tag(a))
    return like(r, getattr(a, "as_type", None), ctx)


# ------------------------------------------------------------------------------------------------ tensor lists with symbolic length


class SymTensorList:
    """A Python list of equally shaped tensors whose length is symbolic (loop-carried `xs.append(t)`)."""

    _pyvc_value = True

    def __init__(self, length, elem_shape, fn):
        self.length = length          # Sym / int
        self.elem_shape = tuple(elem_shape)
        self.fn = fn                  # fn(t, *idx) -> element value

    def append(self, x):
        old, n = self.fn, lift(self.length)
        xf = x.fn
        self.fn = lambda t, *idx: cite(lift(t) == n, xf(*idx), old(t, *idx))
        self.length = self.length + 1

    append._sym_ok = True

    def sym_len(self):
        return self.length

    def stacked(self):
        fn = self.fn
        r = SymArr((self.length,) + self.elem_shape, lambda t, *idx: fn(t, *idx), "complex")
        return r


def tl_len(x):
    return x.length if isinstance(x, SymTensorList) else len(x)


def tl_get(x, t, *idx):
    if isinstance(x, SymTensorList):
        return x.fn(lift(t), *idx)
    r = x[-1].fn(*idx)
    for q in range(len(x) - 2, -1, -1):
        r = cite(lift(t) == q, x[q].fn(*idx), r)
    return r


# ------------------------------------------------------------------------------------------------ A4 extra schema: angle addition


def _poly(t):
    """Exact polynomial normal form {sorted tuple of atom ids: Fraction} of a real/int z3 term; anything that is not +, -, *,
    a numeral, ToReal or division is an atom (division by a non-numeral d is multiplication by the atom 1/d)."""
    def const(c):
        return {(): Fraction(c)} if c != 0 else {}

    def mul(p, q):
        r = {}
        for m1, c1 in p.items():
            for m2, c2 in q.items():
                m = tuple(sorted(m1 + m2))
                r[m] = r.get(m, 0) + c1 * c2
        return {m: c for m, c in r.items() if c != 0}

    def add(p, q, sign=1):
        r = dict(p)
        for m, c in q.items():
            r[m] = r.get(m, 0) + sign * c
        return {m: c for m, c in r.items() if c != 0}

    if z3.is_rational_value(t):
        return const(Fraction(t.numerator_as_long(), t.denominator_as_long()))
    if z3.is_int_value(t):
        return const(t.as_long())
    if z3.is_app(t):
        k = t.decl().kind()
        ch = t.children()
        if k == z3.Z3_OP_ADD:
            r = {}
            for c in ch:
                r = add(r, _poly(c))
            return r
        if k == z3.Z3_OP_SUB:
            r = _poly(ch[0])
            for c in ch[1:]:
                r = add(r, _poly(c), -1)
            return r
        if k == z3.Z3_OP_UMINUS:
            return add({}, _poly(ch[0]), -1)
        if k == z3.Z3_OP_MUL:
            r = const(1)
            for c in ch:
                r = mul(r, _poly(c))
            return r
        if k == z3.Z3_OP_TO_REAL and (z3.is_int_value(ch[0])):
            return const(ch[0].as_long())
        if k == z3.Z3_OP_DIV:
            d = _poly(ch[1])
            if list(d.keys()) == [()]:
                return mul(_poly(ch[0]), const(1 / d[()]))
            return mul(_poly(ch[0]), {(("inv", ch[1].get_id()),): Fraction(1)})
    return {((("atom", t.get_id())),): Fraction(1)}


def trig_schema(terms):
    """Ground instances of
         t = a + b  =>  cos t = cos a cos b - sin a sin b   and   sin t = sin a cos b + cos a sin b
         t = -a     =>  cos t = cos a                       and   sin t = -sin a
         t = 0      =>  cos t = 1                           and   sin t = 0
    at the cos / sin arguments occurring in the obligation; an instance is emitted only when z3's simplifier normalises the side
    condition to `true`, and the side condition stays in the fact as its antecedent (so the solver re-checks it)."""
    apps = reals._apps(list(terms))
    args = {}
    for a in apps["cos"] + apps["sin"]:
        if not reals._has_var(a[0]):
            args[a[0].get_id()] = a[0]
    args = list(args.values())
    if not args or len(args) > 16:
        return []
    COS, SIN = reals.F["cos"], reals.F["sin"]
    facts = []

    polys = {}

    def poly(t):
        k = t.get_id()
        if k not in polys:
            polys[k] = _poly(t)
        return polys[k]

    def is_zero(*signed):
        """sum of sign * term is the zero polynomial (atoms = non-arithmetic subterms)"""
        acc = {}
        for sign, t in signed:
            for mono, c in poly(t).items():
                acc[mono] = acc.get(mono, 0) + sign * c
        return all(c == 0 for c in acc.values())

    for a in args:
        if is_zero((1, a)):
            facts.append(z3.Implies(a == 0, z3.And(COS(a) == 1, SIN(a) == 0)))
    for a, b in itertools.combinations_with_replacement(args, 2):
        if a is not b and is_zero((1, a), (1, b)):
            facts.append(z3.Implies(a + b == 0, z3.And(COS(b) == COS(a), SIN(b) == -SIN(a))))
        for t in args:
            if is_zero((1, t), (-1, a), (-1, b)):
                facts.append(z3.Implies(t == a + b, z3.And(COS(t) == COS(a) * COS(b) - SIN(a) * SIN(b),
                                                           SIN(t) == SIN(a) * COS(b) + COS(a) * SIN(b))))
    return facts


def enable_trig_schema():
    if trig_schema not in reals.EXTRA_SCHEMAS:
        reals.EXTRA_SCHEMAS.append(trig_schema)


# ------------------------------------------------------------------------------------------------ install


def install(reg):
    M = reg.models
    enable_trig_schema()

    # ---------------------------------------------------------------- which library do un-tagged arrays belong to
    prev_isinst = getattr(reg, "isinstance_model", None)

    def isinstance_model(interp, x, t):
        if isinstance(x, SymArr) and not x.pylist:
            ts = t if isinstance(t, tuple) else (t,)
            kk = getattr(x, "as_type", None) or backend_type(interp.ctx)
            return any(isinstance(k, type) and issubclass(kk, k) for k in ts)
        if isinstance(x, Cx):
            ts = t if isinstance(t, tuple) else (t,)
            return any(k in (complex, object) for k in ts)
        if prev_isinst is not None:
            return prev_isinst(interp, x, t)
        return NotImplemented

    reg.isinstance_model = isinstance_model

    # ---------------------------------------------------------------- python complex literals
    def cplx_binop(interp, op, a, b):
        if isinstance(a, complex):
            a = Cx.of(a)
        if isinstance(b, complex):
            b = Cx.of(b)
        if isinstance(a, SymArr) and getattr(a, "c16_inf_mask", None) is not None or isinstance(b, SymArr) and getattr(b, "c16_inf_mask", None) is not None:
            return NotImplemented
        return op(a, b)

    for op in (operator.add, operator.sub, operator.mul, operator.truediv):
        reg.binop_models[(complex, op)] = cplx_binop

    # ---------------------------------------------------------------- dtypes
    def dtype_of(interp, a):
        tt = getattr(a, "as_type", None) or backend_type(interp.ctx)
        cx = is_cx(a)
        if tt is torch.Tensor and dtype_tag(a) is not None:
            return dtype_tag(a)
        if tt is torch.Tensor:
            return torch.complex128 if cx else (torch.int64 if a.kind == "int" else torch.bool if a.kind == "bool" else torch.float64)
        return np.dtype(np.complex128 if cx else (np.int64 if a.kind == "int" else np.bool_ if a.kind == "bool" else np.float64))

    def dtype_is_complex(dt):
        if dt is None:
            return None
        if isinstance(dt, torch.dtype):
            return dt.is_complex
        try:
            return np.issubdtype(np.dtype(dt), np.complexfloating)
        except TypeError:
            raise OutOfSubset(f"dtype {dt!r}")

    def cast(interp, a, dt):
        """ndarray.astype / Tensor.type / .to(dtype): complex -> real dtype keeps the real part only (library behaviour)."""
        want = dtype_is_complex(dt)
        fn0 = a.fn
        if want is None or want == is_cx(a):
            r = SymArr(a.shape, fn0, a.kind)
            r.c16_cx = is_cx(a)
        elif want:
            r = SymArr(a.shape, lambda *idx: Cx.of(fn0(*idx)), "complex")
            r.c16_cx = True
        else:
            r = SymArr(a.shape, lambda *idx: S(fn0(*idx).re), "real")
            r.c16_cx = False
        tag_dtype(r, dt if isinstance(dt, torch.dtype) else dtype_tag(a) if dt is None else None)
        return like(r, getattr(a, "as_type", None), interp.ctx)

    # ---------------------------------------------------------------- attribute protocol on arrays
    prev_attr = reg.attr_models.get(SymArr)

    def sym_ok(f):
        f._sym_ok = True
        return f

    def arr_attr(interp, a, name):
        if a.pylist:
            return prev_attr(interp, a, name) if prev_attr else NotImplemented
        ctx = interp.ctx
        if name == "real":
            if not is_cx(a):
                return a
            fn0 = a.fn
            r = SymArr(a.shape, lambda *idx: S(fn0(*idx).re), "real")
            r.c16_cx = False
            tag_dtype(r, _REAL_OF.get(dtype_tag(a)))
            return like(r, getattr(a, "as_type", None), ctx)
        if name == "imag":
            fn0 = a.fn
            if not is_cx(a):
                if (getattr(a, "as_type", None) or backend_type(ctx)) is torch.Tensor:
                    raise RaiseSig(RuntimeError("imag is not implemented for tensors with non-complex dtypes"))
                r = SymArr(a.shape, lambda *idx: 0.0, "real")
            else:
                r = SymArr(a.shape, lambda *idx: S(fn0(*idx).im), "real")
            r.c16_cx = False
            tag_dtype(r, _REAL_OF.get(dtype_tag(a)))
            return like(r, getattr(a, "as_type", None), ctx)
        if name == "is_complex":
            return sym_ok(lambda _a=a: is_cx(_a))
        if name == "dtype":
            return dtype_of(interp, a)
        if name in ("type", "astype"):
            return sym_ok(lambda dt=None, *r, _a=a, **kw: cast(interp, _a, dt))
        if name == "to":
            def to(*args, _a=a, **kw):
                dt = kw.get("dtype")
                for x in args:
                    if isinstance(x, (torch.dtype, np.dtype, type)):
                        dt = x
                return cast(interp, _a, dt) if dt is not None else _a
            return sym_ok(to)
        if name in ("reshape", "view"):
            return sym_ok(lambda *shape, _a=a: c_reshape(ctx, _a, shape))
        if name in ("flatten", "ravel"):
            return sym_ok(lambda _a=a: c_reshape(ctx, _a, (-1,)))
        if name == "index_add_":
            return sym_ok(lambda dim, index, source, alpha=1, _a=a: index_add_(interp, _a, dim, index, source, alpha))
        if name == "conj":
            fn0 = a.fn
            return sym_ok(lambda: like(SymArr(a.shape, lambda *idx: Cx.of(fn0(*idx)).conj() if is_cx(a) else fn0(*idx), a.kind), getattr(a, "as_type", None), ctx))
        if name == "abs":
            return sym_ok(lambda _a=a: m_abs(interp, _a))
        if name == "angle":
            return sym_ok(lambda _a=a: m_angle(interp, _a))
        if name in ("masked_fill_", "masked_fill"):
            return sym_ok(lambda mask, value, _a=a, _inplace=name.endswith("_"): masked_fill(interp, _a, mask, value, _inplace))
        if name == "unsqueeze":
            return sym_ok(lambda dim, _a=a: unsqueeze(interp, _a, dim))
        if name == "max" and not is_cx(a):
            # the largest element: only "it is some real number" is used (an upper bound of the array is never needed here)
            return sym_ok(lambda *args, _a=a, **kw: interp.ctx.fresh("arrmax", "real") if not args and not kw else (_ for _ in ()).throw(OutOfSubset("max over an axis")))
        if name == "grad":
            return getattr(a, "c16_grad", None)
        if name in ("copy", "clone"):
            def cp(_a=a):
                r = SymArr(_a.shape, _a.fn, _a.kind)
                if hasattr(_a, "c16_cx"):
                    r.c16_cx = _a.c16_cx
                return like(r, getattr(_a, "as_type", None), ctx)
            return sym_ok(cp)
        if prev_attr is not None:
            return prev_attr(interp, a, name)
        return NotImplemented

    reg.attr_models[SymArr] = arr_attr

    def masked_fill(interp, a, mask, value, inplace):
        """Tensor.masked_fill(mask, value): where(mask, value, x) elementwise (mask broadcast to x); masked_fill_ writes the receiver.
        A fill value of +inf is represented like `x[mask] = inf` (the array may then only be used as a divisor: y / inf = 0)."""
        if isinstance(value, SymArr) and value.ndim == 0:
            value = value.fn()
        if not isinstance(mask, SymArr):
            raise OutOfSubset("masked_fill with a non-array mask")
        shape = V.broadcast_shapes(a.shape, mask.shape)
        if len(shape) != a.ndim or not all(V.dims_equal(x, y) for x, y in zip(shape, a.shape)):
            raise RaiseSig(RuntimeError("masked_fill: mask is not broadcastable to the tensor"))
        mf, off = mask.fn, a.ndim - mask.ndim
        mshape = mask.shape

        def mk(*idx):
            sub = [z3.IntVal(0) if V._dim_lit(d) == 1 else x for x, d in zip(idx[off:], mshape)]
            return mf(*sub)

        full_mask = SymArr(a.shape, mk, "bool")
        if inplace:
            tgt = a
        else:
            tgt = SymArr(a.shape, a.fn, a.kind)
            if hasattr(a, "c16_cx"):
                tgt.c16_cx = a.c16_cx
            like(tgt, getattr(a, "as_type", None), interp.ctx)
        if isinstance(value, float) and value == float("inf"):
            arr_setitem(interp, tgt, full_mask, value)
            return tgt
        if isinstance(value, float) and value != value or isinstance(value, float) and value == float("-inf"):
            raise OutOfSubset("masked_fill with nan / -inf")
        old_fn = tgt.fn
        tgt.fn = lambda *idx: cite(mk(*idx), value, old_fn(*idx))
        if inplace:
            tgt.writes += 1
        return tgt

    def unsqueeze(interp, a, dim):
        """Tensor.unsqueeze(dim): a new axis of length 1 at position dim (unsqueeze(0) is x[None])"""
        if isinstance(dim, Sym):
            dim = dim.__index__()
        if not -(a.ndim + 1) <= dim <= a.ndim:
            raise RaiseSig(IndexError("Dimension out of range"))
        d = dim % (a.ndim + 1)
        fn0 = a.fn
        r = SymArr(tuple(a.shape[:d]) + (1,) + tuple(a.shape[d:]), lambda *idx: fn0(*idx[:d], *idx[d + 1:]), a.kind, base=a.base)
        if hasattr(a, "c16_cx"):
            r.c16_cx = a.c16_cx
        return like(r, getattr(a, "as_type", None), interp.ctx)

    # ---------------------------------------------------------------- index_add_ (A6)
    def index_add_(interp, out, dim, index, source, alpha=1):
        """out[index[n]] += alpha * source[n] for every n (repeated indices accumulate); IndexError if an index is out of range."""
        ctx = interp.ctx
        if dim != 0 or out.ndim != 1 or index.ndim != 1 or source.ndim != 1:
            raise OutOfSubset("index_add_ other than 1-d along dim 0")
        n_src, n_idx, n_out = lift(source.shape[0]), lift(index.shape[0]), lift(out.shape[0])
        if not V.dims_equal(source.shape[0], index.shape[0]):
            if ctx.branch(n_src != n_idx):
                raise RaiseSig(RuntimeError("index_add_: number of indices must equal source.size(dim)"))
        q = z3.Int("n!ia")
        ifn, sfn, ofn = index.fn, source.fn, out.fn
        # torch raises IndexError for an out-of-range index: a safety obligation (stable name) instead of an exceptional path
        ctx.prove("index_add_:every-index-in-range",
                  z3.ForAll([q], z3.Implies(z3.And(q >= 0, q < n_idx), z3.And(lift(ifn(q)) >= 0, lift(ifn(q)) < n_out))), kind="safety")
        if is_cx(source) or is_cx(out):
            raise OutOfSubset("complex index_add_")
        if dtype_tag(out) is not None and dtype_tag(source) is not None and dtype_tag(out) != dtype_tag(source):
            raise RaiseSig(RuntimeError("index_add_(): self and source expected to have the same dtype"))

        def fn(j):
            j = lift(j)
            add = reals.sigma(n_idx, lambda n: z3.If(lift(ifn(n)) == j, r_term(r_mul(alpha, sfn(n))), z3.RealVal(0)))
            return S(ofn(j)) + add

        out.fn = fn
        out.writes += 1
        return out

    # ---------------------------------------------------------------- boolean-mask assignment of +inf, and division by such an array
    prev_set = reg.setitem_models.get(SymArr)

    def arr_setitem(interp, base, key, value):
        def is_mask(k):
            if not isinstance(k, SymArr) or k.ndim != base.ndim:
                return False
            e = _probe_elem(k)
            return isinstance(e, Sym) and e.is_bool

        if is_mask(key) and not base.pylist and isinstance(value, float) and value == float("inf"):
            if tuple(V._dim_lit(d) for d in key.shape) != tuple(V._dim_lit(d) for d in base.shape) and key.ndim != base.ndim:
                raise OutOfSubset("boolean mask of different rank")
            kf, of = key.fn, base.fn
            base.c16_inf_mask = (kf, of)

            def poisoned(*idx):
                raise OutOfSubset("array with +inf entries read other than as a divisor")

            base.fn = poisoned
            base.writes += 1
            return True
        if prev_set is not None:
            return prev_set(interp, base, key, value)
        return NotImplemented

    def arr_setitem_rows(interp, base, key, value):
        """x[k] = row (k an integer, row an array of the remaining axes or a scalar): functional update along axis 0"""
        if not base.pylist and base.ndim >= 2 and not isinstance(key, (tuple, slice, SymArr, list)) and key is not None and key is not Ellipsis:
            k = lift(base._norm_index(key, base.shape[0]))
            old_fn = base.fn
            if isinstance(value, SymArr):
                if value.ndim > base.ndim - 1:
                    raise OutOfSubset("row assignment with a value of higher rank")
                vf, off = value.fn, base.ndim - 1 - value.ndim
                vshape = value.shape

                def getv(rest):
                    sub = rest[off:]
                    sub = [z3.IntVal(0) if V._dim_lit(d) == 1 else x for x, d in zip(sub, vshape)]
                    return vf(*sub)
            else:
                getv = lambda rest: value
            base.fn = lambda i0, *rest: cite(lift(i0) == k, getv(list(rest)), old_fn(i0, *rest))
            base.writes += 1
            if hasattr(base, "c16_cx"):
                del base.c16_cx
            return True
        return arr_setitem(interp, base, key, value)

    reg.setitem_models[SymArr] = arr_setitem_rows

    def arr_setattr(interp, base, name, v):
        if name == "grad":  # Tensor.grad is a plain attribute slot
            base.c16_grad = v
            return None
        raise OutOfSubset(f"storing attribute {name} on a symbolic array")

    reg.setattr_models[SymArr] = arr_setattr

    def arr_div(interp, op, a, b):
        if isinstance(b, SymArr) and getattr(b, "c16_inf_mask", None) is not None:
            kf, of = b.c16_inf_mask
            tmp = SymArr(b.shape, lambda *idx: ("masked", kf(*idx), of(*idx)), "real")

            def f(x, m):
                _, c, d = m
                return cite(c, 0.0, x / d if isinstance(x, Cx) else V._realdiv(x, d))  # x / inf = 0

            r = elementwise(f, a, tmp)
            r.c16_cx = is_cx(a)
            return like(r, None, interp.ctx)
        if is_cx(a) or is_cx(b):
            # complex division (SymArr.__truediv__ is real-only)
            def fdiv(x, y):
                if isinstance(x, Cx) or isinstance(y, Cx):
                    return Cx.of(x) / Cx.of(y)
                return V._realdiv(x, y)

            r = elementwise(fdiv, Cx.of(a) if isinstance(a, complex) else a, Cx.of(b) if isinstance(b, complex) else b)
            r.c16_cx = True
            return like(r, None, interp.ctx)
        return NotImplemented

    reg.binop_models[(SymArr, operator.truediv)] = arr_div

    # ---------------------------------------------------------------- constructors
    def _shape_args(a):
        if len(a) == 1 and isinstance(a[0], (tuple, list)):
            return tuple(a[0])
        return tuple(a)

    def _tensor_like(f, tt):
        def h(interp, x, *a, dtype=None, device=None, **kw):
            if isinstance(x, SymArr):
                r = cast(interp, x, dtype)
                r.as_type = tt
                r.pylist = False
                return r
            if isinstance(x, (tuple, list)) and contains_sym(x):
                if any(isinstance(e, (SymArr, list, tuple)) for e in x):
                    raise OutOfSubset("nested symbolic tensor literal")
                r = V.from_list(list(x), kind="int" if all(isinstance(e, int) or isinstance(e, Sym) and e.is_int for e in x) else "real", pylist=False)
                r.as_type = tt
                r.c16_cx = False
                return r
            if isinstance(x, Sym):
                r = SymArr((), lambda _x=x: _x, "int" if x.is_int else "real")
                r.as_type = tt
                return r
            kw2 = dict(kw)
            if dtype is not None:
                kw2["dtype"] = dtype
            if device is not None and tt is torch.Tensor:
                kw2["device"] = device
            return interp.native(f, x, *a, **kw2)
        return h

    M[torch.tensor] = _tensor_like(torch.tensor, torch.Tensor)
    M[torch.as_tensor] = _tensor_like(torch.as_tensor, torch.Tensor)
    M[np.array] = _tensor_like(np.array, np.ndarray)
    M[np.asarray] = _tensor_like(np.asarray, np.ndarray)

    def m_zeros(interp, *a, dtype=None, device=None, **kw):
        shape = _shape_args(a)
        if not contains_sym(shape):
            return interp.native(torch.zeros, *a, dtype=dtype, device=device, **kw)
        if dtype_is_complex(dtype):
            r = SymArr(shape, lambda *i: Cx(0, 0), "complex")
            r.c16_cx = True
        else:
            r = SymArr(shape, lambda *i: 0.0, "real")
            r.c16_cx = False
        r.as_type = torch.Tensor
        r.requested_dtype = dtype
        tag_dtype(r, dtype if isinstance(dtype, torch.dtype) else torch.get_default_dtype() if dtype is None else None)
        return r

    M[torch.zeros] = m_zeros

    def m_empty(interp, *a, dtype=None, device=None, **kw):
        shape = _shape_args(a)
        if not contains_sym(shape):
            return interp.native(torch.empty, *a, dtype=dtype, device=device, **kw)
        if dtype_is_complex(dtype):
            return fresh_cx(interp.ctx, "empty", shape, torch.Tensor)
        return fresh_real(interp.ctx, "empty", shape, "real", torch.Tensor)

    M[torch.empty] = m_empty

    def m_prod(interp, x, *a, **kw):
        if isinstance(x, SymArr):
            ln = V._dim_lit(x.shape[0]) if x.ndim == 1 else None
            if ln is None or a or kw:
                raise OutOfSubset("torch.prod over a symbolic extent / axis")
            r = 1
            for q in range(ln):
                r = r * x.fn(z3.IntVal(q))
            return r
        return interp.native(torch.prod, x, *a, **kw)

    M[torch.prod] = m_prod

    def m_np_prod(interp, x, *a, **kw):
        if isinstance(x, (tuple, list)) and contains_sym(x) and not a and not kw and not any(isinstance(e, (SymArr, tuple, list)) for e in x):
            r = 1
            for e in x:
                r = r * e
            return r
        if isinstance(x, SymArr):
            return m_prod(interp, x, *a, **kw)
        return NotImplemented

    M[np.prod] = m_np_prod

    def m_stack(interp, xs, dim=0, axis=None, **kw):
        if axis is not None:
            dim = axis
        if isinstance(xs, SymTensorList):
            if dim != 0:
                raise OutOfSubset("stack of a symbolic-length list along dim != 0")
            return like(xs.stacked(), torch.Tensor, interp.ctx)
        xs = list(xs)
        if not any(isinstance(x, SymArr) for x in xs):
            return interp.native(torch.stack, xs, dim=dim)
        base = xs[0]
        d = dim % (base.ndim + 1)
        fns = [x.fn for x in xs]

        def fn(*idx):
            idx = list(idx)
            j = idx.pop(d)
            r = fns[-1](*idx)
            for q in range(len(fns) - 2, -1, -1):
                r = cite(j == q, fns[q](*idx), r)
            return r

        shape = list(base.shape)
        shape.insert(d, len(xs))
        r = SymArr(tuple(shape), fn, base.kind)
        return like(r, torch.Tensor, interp.ctx)

    M[torch.stack] = m_stack

    # ---------------------------------------------------------------- pointwise functions
    def _pointwise(name_real, f_cx, natives):
        def h(interp, x, *a, **kw):
            if isinstance(x, SymArr):
                cx = is_cx(x)
                r = elementwise((lambda e: f_cx(e)) if cx else (lambda e: reals.app(name_real, e)), x)
                r.c16_cx = cx and f_cx is cexp
                return like(r, getattr(x, "as_type", None), interp.ctx)
            if isinstance(x, Cx):
                return f_cx(x)
            if isinstance(x, Sym):
                return reals.app(name_real, x)
            return NotImplemented
        for f in natives:
            M[f] = h
        return h

    _pointwise("exp", cexp, (torch.exp, np.exp))

    def m_sqrt(interp, x, *a, **kw):
        if isinstance(x, SymArr):
            if is_cx(x):
                raise OutOfSubset("complex sqrt")
            r = elementwise(lambda e: reals.app("sqrt", e), x)
            r.c16_cx = False
            return like(r, getattr(x, "as_type", None), interp.ctx)
        if isinstance(x, Sym):
            return reals.app("sqrt", x)
        return NotImplemented

    M[torch.sqrt] = m_sqrt
    M[np.sqrt] = m_sqrt

    def m_tan(interp, x, *a, **kw):
        if isinstance(x, Sym):
            return Sym(TAN(r_term(x)))
        if isinstance(x, SymArr):
            r = elementwise(lambda e: Sym(TAN(r_term(e))), x)
            r.c16_cx = False
            return like(r, getattr(x, "as_type", None), interp.ctx)
        return NotImplemented

    M[torch.tan] = m_tan
    M[np.tan] = m_tan

    def m_abs(interp, x, *a, **kw):
        if isinstance(x, SymArr):
            if is_cx(x):
                r = elementwise(lambda e: abs(e), x)
            else:
                r = elementwise(lambda e: abs(S(e)), x)
            r.c16_cx = False
            r.kind = "real"
            return like(r, getattr(x, "as_type", None), interp.ctx)
        if isinstance(x, (Cx, Sym)):
            return abs(x)
        return NotImplemented

    M[torch.abs] = m_abs
    M[np.abs] = m_abs

    def m_angle(interp, x, *a, **kw):
        """arg z = atan2(im, re)  (A4: r cos(arg) = re, r sin(arg) = im with r = |z|; range (-pi, pi])"""
        def ang(e):
            e = Cx.of(e)
            return reals.app("atan2", e.im, e.re)
        if isinstance(x, SymArr):
            r = elementwise(ang, x)
            r.c16_cx = False
            r.kind = "real"
            return like(r, getattr(x, "as_type", None), interp.ctx)
        if isinstance(x, (Cx, Sym)):
            return ang(x)
        return NotImplemented

    M[torch.angle] = m_angle
    M[np.angle] = m_angle

    def m_sgn(interp, x, *a, **kw):
        """torch.sgn: z / |z| for z != 0 and 0 for z == 0 (complex); sign(x) for real x"""
        def sg(e):
            if isinstance(e, Cx):
                zero = z3.And(r_term(e.re) == 0, r_term(e.im) == 0)
                m = abs(e)
                return Cx(V.ite(zero, 0.0, V._realdiv(e.re, m)), V.ite(zero, 0.0, V._realdiv(e.im, m)))
            t = r_term(e)
            return Sym(z3.If(t > 0, z3.RealVal(1), z3.If(t < 0, z3.RealVal(-1), z3.RealVal(0))))
        if isinstance(x, SymArr):
            r = elementwise(sg, x)
            r.c16_cx = is_cx(x)
            return like(r, getattr(x, "as_type", None), interp.ctx)
        if isinstance(x, (Cx, Sym)):
            return sg(x)
        return NotImplemented

    M[torch.sgn] = m_sgn
    M[torch.sign] = m_sgn
    M[np.sign] = m_sgn

    def m_real(interp, x):
        if isinstance(x, SymArr):
            return arr_attr(interp, x, "real")
        if isinstance(x, Cx):
            return x.re
        if isinstance(x, Sym):
            return x
        return NotImplemented

    M[torch.real] = m_real
    M[np.real] = m_real

    def m_zeros_like(interp, x, **kw):
        if isinstance(x, SymArr):
            cx = is_cx(x)
            r = SymArr(x.shape, (lambda *i: Cx(0, 0)) if cx else (lambda *i: 0.0), "complex" if cx else "real")
            r.c16_cx = cx
            return like(r, torch.Tensor, interp.ctx)
        return NotImplemented

    M[torch.zeros_like] = m_zeros_like

    def m_complex(interp, re, im):
        if isinstance(re, SymArr) or isinstance(im, SymArr):
            r = elementwise(lambda a, b: Cx(a, b), re, im)
            r.c16_cx = True
            r.kind = "complex"
            return like(r, torch.Tensor, interp.ctx)
        return NotImplemented

    M[torch.complex] = m_complex

    def m_is_complex(interp, x):
        if isinstance(x, (SymArr, Cx)):
            return is_cx(x)
        return NotImplemented

    M[torch.is_complex] = m_is_complex
    M[np.iscomplexobj] = m_is_complex

    def m_conj(interp, x):
        if isinstance(x, SymArr):
            return interp.call(arr_attr(interp, x, "conj"), [], {})
        if isinstance(x, Cx):
            return x.conj()
        return NotImplemented

    M[torch.conj] = m_conj
    M[np.conj] = m_conj

    def m_sum(interp, x, dim=None, keepdim=False, axis=None, keepdims=False, **kw):
        if isinstance(x, SymArr):
            if is_cx(x):
                raise OutOfSubset("sum of a complex array")
            d = dim if dim is not None else axis
            r = reals.reduce_sum(x, d, keepdim or keepdims)
            if isinstance(r, SymArr):
                r.c16_cx = False
                like(r, getattr(x, "as_type", None), interp.ctx)
            return r
        return NotImplemented

    M[torch.sum] = m_sum
    M[np.sum] = m_sum

    # ---------------------------------------------------------------- FFT family
    def m_fftfreq_np(interp, n, d=1.0, **kw):
        if not contains_sym((n, d)):
            return interp.native(np.fft.fftfreq, n, d)
        return fftfreq_arr(n, d, np.ndarray)

    M[np.fft.fftfreq] = m_fftfreq_np

    def m_fftfreq_t(interp, n, d=1.0, **kw):
        if not contains_sym((n, d)):
            return interp.native(torch.fft.fftfreq, n, d)
        return fftfreq_arr(n, d, torch.Tensor)

    M[torch.fft.fftfreq] = m_fftfreq_t

    def _fft(inverse):
        def h(interp, x, s=None, dim=(-2, -1), norm=None, axes=None, **kw):
            if not isinstance(x, SymArr):
                return NotImplemented
            if s is not None:
                raise OutOfSubset("fft2 with explicit output size")
            dd = axes if axes is not None else dim
            if tuple(d % x.ndim for d in dd) != (x.ndim - 2, x.ndim - 1):
                raise OutOfSubset("fft2 over axes other than the last two")
            r = dft2(interp.ctx, x, norm, inverse)
            return r
        return h

    M[torch.fft.fft2] = _fft(False)
    M[np.fft.fft2] = _fft(False)
    M[torch.fft.ifft2] = _fft(True)
    M[np.fft.ifft2] = _fft(True)

    def _shift(inverse):
        def h(interp, x, dim=None, axes=None, **kw):
            if not isinstance(x, SymArr):
                return NotImplemented
            return shift_arr(interp.ctx, x, dim if dim is not None else axes, inverse)
        return h

    M[torch.fft.fftshift] = _shift(False)
    M[np.fft.fftshift] = _shift(False)
    M[torch.fft.ifftshift] = _shift(True)
    M[np.fft.ifftshift] = _shift(True)
