"""TRUSTED library models needed by C13 (image registration).  Nothing here is about quantem: each entry states the
contract of a numpy / torch facility on symbolic values (A1 floats are reals, A5 DFT facts, A6 third-party behaviour).

Complex data
  * `CScalar(re, im)`     complex scalar with symbolic real / imaginary part (`-2j * pi / (M * up)`).
  * `CArr(shape, expr)`   complex array as a STRUCTURAL term: an opaque spectrum ("sym"), fft2 of a real array, conj, elementwise
                          product, matrix product, ifft2, or an array with known elements (`cart`: re/im index functions,
                          `ramp`: unit modulus exp(i*phase(idx))).  Algebraic facts used by `norm`: conj is an involution and
                          distributes over products, conj(exp(i p)) = exp(-i p), elementwise product is commutative/associative.
                          `x * y` ALLOCATES a new array; `x *= y` writes into x (and therefore into the array x is a view of).
  * `.real` of an ifft2 / matrix product is a fresh real array whose elements are an uninterpreted function of the index,
    named after the structural term (same term -> same function); the term is kept as `.real_of`.
  * exp(c) for a `cart` array with zero real part is the ramp exp(i*im).

Index vectors
  * fftfreq(n, d)[i] = cf(i, n) / (n d) with the centred frequency cf(i, n) = i if i <= (n-1) div 2 else i - n;
  * ifftshift(x)[i] = x[(i + n div 2) mod n], fftshift(x)[i] = x[(i - n div 2) mod n]  (1-D; the mod is written as a case split);
  * arange(a, b)[i] = a + i, length max(0, b - a);  outer(a, b)[i, j] = a[i] b[j].

Search
  * argmax(A) of a 2-D real array is a flat index x0 * ncols + y0 with 0 <= x0 < nrows, 0 <= y0 < ncols (a `FlatIdx`);
    `flat // ncols` = x0, `flat % ncols` = y0 and unravel_index(flat, shape) = (x0, y0) (division with remainder).  Maximality
    of A[x0, y0] is NOT given to the function-level obligations (it is a hypothesis of the property lemmas); every call is
    logged in ctx.ghost['c13_argmax'] with the array's index function at the time of the call.

Rounding (A3)   torch.round(x): an integer r with |r - x| <= 1/2 (ties unspecified);  floor / ceil exact.
"""
from __future__ import annotations

import hashlib
import math
import operator

import numpy as np
import torch
import z3

from .. import values as V
from .. import reals
from ..values import Sym, SymArr, S, lift, contains_sym, ite, OutOfSubset, elementwise
from ..interp import RaiseSig


# ------------------------------------------------------------------------------------------------
# helpers
# ------------------------------------------------------------------------------------------------


def R(x):
    """real z3 term of a python number / Sym."""
    t = V._num(lift(x))
    return z3.ToReal(t) if z3.is_int(t) else t


def cfreq(i, n):
    """centred frequency index of position i on an axis of length n (= fftfreq(n) * n)."""
    i, n = lift(i), lift(n)
    return z3.If(i <= (n - 1) / 2, i, i - n)


def is_zero(t):
    return z3.is_true(z3.simplify(R(t) == 0))


def _sym_ok(f):
    f._sym_ok = True
    return f


def to_arr(x, kind="real"):
    """tuple / list / concrete ndarray / torch tensor (possibly holding Syms) -> SymArr (numpy semantics)."""
    if isinstance(x, SymArr):
        return x
    if isinstance(x, torch.Tensor):
        x = x.detach().cpu().numpy()
    if isinstance(x, np.ndarray):
        if x.ndim == 0:
            return x.item()
        if x.ndim == 1:
            return V.from_list([e.item() if hasattr(e, "item") and not isinstance(e, Sym) else e for e in x.tolist()] if x.dtype != object else list(x), kind=kind, pylist=False)
        if x.ndim == 2:
            rows = [[x[i, j] for j in range(x.shape[1])] for i in range(x.shape[0])]

            def fn(i, j, _r=rows):
                r = None
                for a in range(len(_r) - 1, -1, -1):
                    row = _r[a][-1]
                    for b in range(len(_r[a]) - 2, -1, -1):
                        row = ite(j == b, _r[a][b], row)
                    r = row if r is None else ite(i == a, row, r)
                return r

            return SymArr(x.shape, fn, kind)
        raise OutOfSubset("concrete array of rank > 2 mixed with symbolic values")
    if isinstance(x, (tuple, list)):
        return V.from_list(list(x), kind=kind, pylist=False)
    return x


# ------------------------------------------------------------------------------------------------
# complex scalars and arrays
# ------------------------------------------------------------------------------------------------


class CScalar:
    _pyvc_value = True

    def __init__(self, re, im):
        self.re, self.im = S(z3.simplify(R(re))), S(z3.simplify(R(im)))

    @staticmethod
    def of(x):
        if isinstance(x, CScalar):
            return x
        if isinstance(x, complex):
            return CScalar(_cpart(x.real), _cpart(x.imag))
        return CScalar(x, 0)

    def __repr__(self):
        return f"CScalar({self.re.t}, {self.im.t})"

    def __mul__(self, o):
        if isinstance(o, CArr):
            return o.__rmul__(self)
        if isinstance(o, SymArr):
            re, im = self.re, self.im
            of = o.fn
            zr, zi = is_zero(re), is_zero(im)
            return CArr(o.shape, ("cart", _uid("cart")),
                        elem=lambda *idx: ("cart", S(0) if zr else re * of(*idx), S(0) if zi else im * of(*idx)))
        o = CScalar.of(o)
        return CScalar(self.re * o.re - self.im * o.im, self.re * o.im + self.im * o.re)

    __rmul__ = __mul__

    def __neg__(self):
        return CScalar(-self.re, -self.im)

    def __add__(self, o):
        o = CScalar.of(o)
        return CScalar(self.re + o.re, self.im + o.im)

    __radd__ = __add__

    def __sub__(self, o):
        o = CScalar.of(o)
        return CScalar(self.re - o.re, self.im - o.im)

    def __truediv__(self, o):
        if isinstance(o, (CScalar, complex)):
            raise OutOfSubset("division by a complex scalar")
        d = S(R(o))
        # 0 / d is 0 (d != 0 is the callee's own concern: the quotient is only used as a factor)
        return CScalar(0 if is_zero(self.re) else self.re / d, 0 if is_zero(self.im) else self.im / d)

    def conj(self):
        return CScalar(self.re, -self.im)

    @property
    def real(self):
        return self.re

    @property
    def imag(self):
        return self.im


def _cpart(x):
    """float part of a concrete complex constant: multiples of pi are kept exact."""
    if x == 0:
        return 0
    for k in (1, 2, -1, -2, 4, -4):
        if x == k * math.pi:
            return Sym(k * V.PI)
    return x


_UID = [0]


def _uid(prefix):
    _UID[0] += 1
    return f"{prefix}{_UID[0]}"


def _conj_expr(e):
    k = e[0]
    if k == "conj":
        return e[1]
    if k == "mul":
        return ("mul",) + tuple(sorted((_conj_expr(f) for f in e[1:]), key=repr))
    return ("conj", e)


def norm(e):
    """normal form of a structural term: conj pushed to the leaves, products flattened and sorted."""
    k = e[0]
    if k == "conj":
        inner = norm(e[1])
        if inner[0] == "conj":
            return inner[1]
        if inner[0] == "mul":
            return ("mul",) + tuple(sorted((norm(("conj", f)) for f in inner[1:]), key=repr))
        return ("conj", inner)
    if k == "mul":
        fs = []
        for f in e[1:]:
            f = norm(f)
            if f[0] == "mul":
                fs.extend(f[1:])
            else:
                fs.append(f)
        return ("mul",) + tuple(sorted(fs, key=repr))
    if k in ("ifft2", "fft2c"):
        return (k, norm(e[1]))
    if k == "matmul":
        return ("matmul", norm(e[1]), norm(e[2]))
    return e


class CArr:
    """Complex array as a structural term (see module docstring)."""

    _pyvc_value = True
    device = "cpu"
    dtype = "complex"

    def __init__(self, shape, expr, elem=None, base=None, parts=None, name=None):
        self.shape = tuple(shape)
        self.expr = expr
        self.elem = elem          # (*idx) -> ("cart", re, im) | ("ramp", phase)   for arrays with known elements
        self.base = base if base is not None else self
        self.writes = 0
        self.parts = dict(parts or {})  # leaf name -> CArr / SymArr object (to look operands up from a term)
        self.name = name
        if expr[0] in ("sym", "cart", "ramp", "fft2"):
            self.parts[expr[1]] = self

    def __repr__(self):
        return f"CArr(shape={self.shape} expr={self.expr})"

    @property
    def ndim(self):
        return len(self.shape)

    def _derive(self, shape, expr, *others, elem=None):
        parts = dict(self.parts)
        for o in others:
            if isinstance(o, CArr):
                parts.update(o.parts)
        return CArr(shape, expr, elem=elem, parts=parts)

    # -- algebra (every operator allocates)
    def conj(self):
        if self.expr[0] == "ramp":
            ef = self.elem
            r = self._derive(self.shape, ("ramp", _uid("ramp")), elem=lambda *idx: ("ramp", -S(ef(*idx)[1])))
            return r
        return self._derive(self.shape, ("conj", self.expr))

    def conjugate(self):
        return self.conj()

    def __mul__(self, o):
        if isinstance(o, CArr):
            shape = V.broadcast_shapes(self.shape, o.shape)
            return self._derive(shape, ("mul", self.expr, o.expr), o)
        if isinstance(o, (int, float, Sym)) and not isinstance(o, bool):
            return self._derive(self.shape, ("scale", str(z3.simplify(R(o))), self.expr))
        if isinstance(o, SymArr):
            nm = _uid("realarr")
            w = CArr(o.shape, ("sym", nm))
            w.src = o
            return self.__mul__(w)
        if isinstance(o, (complex, CScalar)):
            c = CScalar.of(o)
            return self._derive(self.shape, ("cscale", str(c.re.t), str(c.im.t), self.expr))
        return NotImplemented

    __rmul__ = __mul__

    def __truediv__(self, o):
        if isinstance(o, (int, float, Sym)) and not isinstance(o, bool):
            return self._derive(self.shape, ("scale", str(z3.simplify(1 / R(o))), self.expr))
        return NotImplemented

    def __add__(self, o):
        if isinstance(o, CArr):
            return self._derive(V.broadcast_shapes(self.shape, o.shape), ("add", self.expr, o.expr), o)
        return NotImplemented

    __radd__ = __add__

    def __matmul__(self, o):
        if not isinstance(o, CArr):
            return NotImplemented
        if self.ndim != 2 or o.ndim != 2:
            raise OutOfSubset("matmul of non-2d complex arrays")
        if not V.dims_equal(self.shape[1], o.shape[0]):
            raise RaiseSig(ValueError("matmul: inner dimensions differ"))
        return self._derive((self.shape[0], o.shape[1]), ("matmul", self.expr, o.expr), o)

    def _pyvc_inplace(self, op, new):
        """`x op= y`: the freshly computed value is stored INTO x (and into the array x is a view of)."""
        if not isinstance(new, CArr):
            raise OutOfSubset("in-place update of a complex array by a non-complex value")
        self.expr, self.elem = new.expr, new.elem
        self.parts.update(new.parts)
        self.writes += 1
        if self.base is not self:
            self.base.writes += 1
        return self

    def __getitem__(self, key):
        """image `key` of the per-image transform of a stack (fft2 over the last two axes acts per image, A5): the transform of
        that image.  Every other subscript of a structural complex array is unsupported by this model (TypeError path, as before)."""
        if self.expr[0] == "fft2" and len(self.shape) == 3 and getattr(self, "c13_stack", False) and isinstance(key, (int, Sym)) and not isinstance(key, bool):
            c = CArr(self.shape[1:], ("fft2", slab_name(self.expr[1], key)))
            c.c13_id = lift(key)
            return c
        raise TypeError("subscript of a structural complex array")

    # -- views / conversions
    @property
    def real(self):
        return real_part(self)

    @property
    def imag(self):
        raise OutOfSubset("imaginary part of a structural complex array")

    def to(self, *a, **k):
        return self

    def clone(self):
        return self._derive(self.shape, self.expr, elem=self.elem)

    copy = clone

    def detach(self):
        return self

    def cpu(self):
        return self

    # known-element access
    def ramp_phase(self, *idx):
        if self.expr[0] != "ramp":
            raise OutOfSubset("not a unit-modulus array")
        return S(self.elem(*[lift(i) for i in idx])[1])


def slab_name(stack_name, i):
    """name of image i of a named stack (identifies the image inside structural terms)."""
    return f"{stack_name}[{z3.simplify(lift(i)).sexpr()}]"


def real_part(c):
    """np.real / .real of a complex array: real array with uninterpreted elements named after the structural term."""
    if isinstance(c, (SymArr, Sym, int, float)):
        return c
    if isinstance(c, CScalar):
        return c.re
    if not isinstance(c, CArr):
        raise OutOfSubset(f"real part of {type(c).__name__}")
    if c.expr[0] == "ramp":
        ef = c.elem
        return SymArr(c.shape, lambda *idx: reals.app("cos", ef(*idx)[1]), "real")
    key = repr(norm(c.expr))
    nm = "Re_" + hashlib.sha1(key.encode()).hexdigest()[:10]
    nd = len(c.shape)
    f = z3.Function(nm, *([z3.IntSort()] * nd), z3.RealSort())
    r = SymArr(c.shape, lambda *idx, _f=f: Sym(_f(*idx)), "real", name=nm)
    r.real_of = c
    r.func = f
    # numpy's .real is a view of its operand: writes through it reach the operand's base
    r.base = r if c.base is c and c.expr[0] in ("ifft2", "matmul", "mul", "fft2c", "scale", "cscale", "add") else _ViewBase(c)
    return r


class _ViewBase:
    """stand-in `base` for a real view of a complex array that aliases caller data: counts writes on the owner."""

    def __init__(self, owner):
        self.owner = owner
        self.fn = None

    @property
    def writes(self):
        return self.owner.base.writes

    @writes.setter
    def writes(self, v):
        self.owner.base.writes = v


class FlatIdx(Sym):
    """flat argmax index x0 * ncols + y0 (division with remainder by ncols is exact by construction)."""

    def __init__(self, x0, y0, ncols):
        super().__init__(lift(x0) * lift(ncols) + lift(y0))
        self.x0, self.y0, self.ncols = x0, y0, ncols

    def __floordiv__(self, o):
        if isinstance(o, (int, Sym)) and V.dims_equal(o, self.ncols):
            return self.x0
        return Sym.__floordiv__(self, o)

    def __mod__(self, o):
        if isinstance(o, (int, Sym)) and V.dims_equal(o, self.ncols):
            return self.y0
        return Sym.__mod__(self, o)

    __hash__ = Sym.__hash__


# ------------------------------------------------------------------------------------------------
# installation
# ------------------------------------------------------------------------------------------------


def install(reg):
    M = reg.models

    # ---- operators between concrete containers / complex constants and symbolic values
    ARITH = (operator.add, operator.sub, operator.mul, operator.truediv, operator.mod, operator.floordiv, operator.pow)

    def arrish(interp, op, a, b):
        """numpy semantics for tuple/list/ndarray (op) symbolic array/scalar: the container is an array operand."""
        ca, cb = a, b
        symb = lambda v: isinstance(v, (Sym, SymArr)) or (isinstance(v, np.ndarray) and v.dtype == object)
        if isinstance(a, SymArr) and a.pylist or isinstance(b, SymArr) and b.pylist:
            return NotImplemented
        if isinstance(a, (tuple, list)) and isinstance(b, (tuple, list)):
            return NotImplemented
        if isinstance(a, (tuple, list, np.ndarray, torch.Tensor)) and (symb(b) or isinstance(a, np.ndarray) and a.dtype == object):
            if isinstance(a, (tuple, list)) and not isinstance(b, SymArr):
                return NotImplemented  # tuple (op) scalar is not numpy arithmetic
            ca = to_arr(a)
        if isinstance(b, (tuple, list, np.ndarray, torch.Tensor)) and (symb(a) or isinstance(b, np.ndarray) and b.dtype == object):
            if isinstance(b, (tuple, list)) and not isinstance(a, SymArr):
                return NotImplemented
            cb = to_arr(b)
        if ca is a and cb is b:
            return NotImplemented
        return op(ca, cb)

    for t in (tuple, list, np.ndarray, torch.Tensor, SymArr):
        for op in ARITH:
            reg.binop_models[(t, op)] = arrish

    def cplx(interp, op, a, b):
        if not (contains_sym((a, b)) or isinstance(a, (CArr, CScalar)) or isinstance(b, (CArr, CScalar))):
            return NotImplemented
        ca = CScalar.of(a) if isinstance(a, complex) else a
        cb = CScalar.of(b) if isinstance(b, complex) else b
        if isinstance(cb, CArr) and isinstance(ca, CScalar):
            return cb.__rmul__(ca) if op is operator.mul else NotImplemented
        return op(ca, cb)

    for op in (operator.mul, operator.truediv, operator.add, operator.sub):
        reg.binop_models[(complex, op)] = cplx

    # ---- attributes of symbolic scalars / arrays that torch / numpy scalars and tensors have
    def sym_attr(interp, base, name):
        if name == "long" or name == "int":
            # tensor.long(): conversion to a 64-bit integer (truncation toward zero; exact for integral values)
            return _sym_ok(lambda *a, **k: M[int](interp, base))
        if name == "to":
            # tensor.to(dtype): an INTEGER dtype converts the value to an integer (truncation), every other argument keeps it
            def _to(*a, **k):
                dt = k.get("dtype", next((x for x in a if isinstance(x, torch.dtype)), None))
                if dt in (torch.long, torch.int64, torch.int32, torch.int16, torch.int8):
                    return M[int](interp, base)
                return base
            return _sym_ok(_to)
        if name in ("float", "double", "cpu", "detach", "clone"):
            return _sym_ok(lambda *a, **k: base)
        if name == "astype":
            return _sym_ok(lambda t, *a, **k: M[int](interp, base) if t in (int, np.int64, np.int32, "int") else base)
        if name in ("real",):
            return base
        if name == "conj":
            return _sym_ok(lambda: base)
        if name == "device":
            return "cpu"
        return NotImplemented

    reg.attr_models[Sym] = sym_attr
    reg.attr_models[FlatIdx] = sym_attr

    def arr_attr(interp, base, name):
        if name == "real":
            return base
        if name in ("conj", "conjugate"):
            return _sym_ok(lambda: base)
        if name == "unsqueeze":
            def unsq(d, _b=base):
                d = d % (_b.ndim + 1)
                return _b[(slice(None),) * d + (None,)]
            return _sym_ok(unsq)
        return NotImplemented

    reg.attr_models[SymArr] = arr_attr

    # ---- boolean-mask assignment  a[mask] = scalar
    prev_set = reg.setitem_models.get(SymArr)

    def arr_setitem(interp, base, key, v):
        def _is_mask(kk):
            if not (isinstance(kk, SymArr) and kk.ndim == base.ndim and kk.ndim >= 1):
                return False
            try:
                return z3.is_bool(lift(kk.fn(*[z3.Int(f"i!probe{d}") for d in range(kk.ndim)])))
            except Exception:
                return False

        if _is_mask(key) and not isinstance(v, (SymArr, CArr)):
            if base.base is not base and hasattr(base, "detach_from_base") and not isinstance(base.base, _ViewBase):
                base.detach_from_base()
            elif isinstance(base.base, _ViewBase):
                base.base.writes += 1
            old, kf = base.fn, key.fn
            base.fn = lambda *idx: ite(lift(kf(*idx)), v, old(*idx))
            base.writes += 1
            return True
        if (base.ndim == 2 and isinstance(key, (int, Sym)) and not isinstance(key, bool) and isinstance(v, SymArr) and v.ndim == 1
                and V.dims_equal(v.shape[0], base.shape[1]) and base.base is base):
            # row assignment  a[i] = vector  (functional update of row i; i must be a valid row index)
            i = SymArr._norm_index(None, key, base.shape[0])
            old, vf = base.fn, v.fn
            base.fn = lambda a, b, _i=lift(i): ite(lift(a) == _i, vf(b), old(a, b))
            base.writes += 1
            return True
        if prev_set is not None:
            return prev_set(interp, base, key, v)
        return NotImplemented

    reg.setitem_models[SymArr] = arr_setitem

    prev_stack = M.get(torch.stack)

    def m_stack0(interp, xs, dim=0):
        xs = list(xs)
        if xs and dim == 0 and all(isinstance(x, (Sym, int, float)) and not isinstance(x, bool) for x in xs) and any(isinstance(x, Sym) for x in xs):
            r = V.from_list(xs, kind="real", pylist=False)   # stack of 0-d tensors: the vector of their values
            r.as_type = torch.Tensor
            return r
        if prev_stack is not None:
            return prev_stack(interp, xs, dim=dim)
        return interp.native(torch.stack, xs, dim=dim)

    M[torch.stack] = m_stack0

    # ---- DFT (A5: structural) ---------------------------------------------------------------------------------
    def m_fft2(interp, x, *a, **k):
        if isinstance(x, SymArr):
            nm = x.name or _uid("arr")
            c = CArr(x.shape, ("fft2", nm))
            c.src = x
            for tag in ("c13_id", "c13_stack"):   # image identity (ghost) survives the transform
                if hasattr(x, tag):
                    setattr(c, tag, getattr(x, tag))
            return c
        if isinstance(x, CArr):
            return x._derive(x.shape, ("fft2c", x.expr))
        return interp.native(np.fft.fft2, x, *a, **k)

    def m_ifft2(interp, x, *a, **k):
        if isinstance(x, CArr):
            return x._derive(x.shape, ("ifft2", x.expr))
        if isinstance(x, SymArr):
            raise OutOfSubset("ifft2 of a real symbolic array")
        return interp.native(np.fft.ifft2, x, *a, **k)

    M[np.fft.fft2] = m_fft2
    M[np.fft.ifft2] = m_ifft2
    M[torch.fft.fft2] = lambda interp, x, *a, **k: m_fft2(interp, x) if isinstance(x, (SymArr, CArr)) else interp.native(torch.fft.fft2, x, *a, **k)
    M[torch.fft.ifft2] = lambda interp, x, *a, **k: m_ifft2(interp, x) if isinstance(x, (SymArr, CArr)) else interp.native(torch.fft.ifft2, x, *a, **k)

    def m_conj(interp, x):
        if isinstance(x, (CArr, CScalar)):
            return x.conj()
        if isinstance(x, (SymArr, Sym)):
            return x
        return interp.native(np.conj, x)

    M[np.conj] = m_conj
    M[np.conjugate] = m_conj
    M[torch.conj] = m_conj

    def m_real(interp, x):
        if isinstance(x, (CArr, CScalar, SymArr, Sym)):
            return real_part(x)
        return interp.native(np.real, x)

    M[np.real] = m_real
    M[torch.real] = m_real

    def m_fftfreq(interp, n, d=1.0, **kw):
        if not contains_sym((n, d)):
            return interp.native(np.fft.fftfreq, n, d)
        nt, dt = lift(n), R(d)
        return SymArr((n,), lambda i: Sym(z3.ToReal(cfreq(i, nt)) / (z3.ToReal(nt) * dt)), "real", name="fftfreq")

    M[np.fft.fftfreq] = m_fftfreq
    M[torch.fft.fftfreq] = m_fftfreq

    def _shift(sign):
        def h(interp, x, axes=None, dim=None):
            if not isinstance(x, SymArr):
                if isinstance(x, torch.Tensor):
                    return interp.native(torch.fft.fftshift if sign > 0 else torch.fft.ifftshift, x)
                return interp.native(np.fft.fftshift if sign > 0 else np.fft.ifftshift, x)
            if x.ndim != 1:
                raise OutOfSubset("fftshift / ifftshift of a symbolic array of rank != 1")
            n = lift(x.shape[0])
            hlf = n / 2
            xf = x.fn
            if sign > 0:   # fftshift: out[i] = in[(i - n//2) mod n]
                fn = lambda i: xf(z3.If(i - hlf < 0, i - hlf + n, i - hlf))
            else:          # ifftshift: out[i] = in[(i + n//2) mod n]
                fn = lambda i: xf(z3.If(i + hlf >= n, i + hlf - n, i + hlf))
            r = SymArr(x.shape, fn, x.kind)
            if hasattr(x, "as_type"):
                r.as_type = x.as_type
            return r
        return h

    M[np.fft.fftshift] = _shift(+1)
    M[np.fft.ifftshift] = _shift(-1)
    M[torch.fft.fftshift] = _shift(+1)
    M[torch.fft.ifftshift] = _shift(-1)

    # ---- constructors ------------------------------------------------------------------------------------------
    prev_np_arange = M.get(np.arange)
    prev_t_arange = M.get(torch.arange)

    def _arange(native, prev):
        def h(interp, *a, **kw):
            if not contains_sym(a):
                return interp.native(native, *a, **kw)
            if len(a) == 1:
                lo, hi = 0, a[0]
            elif len(a) == 2:
                lo, hi = a
            else:
                raise OutOfSubset("arange with a symbolic step")
            n = V.smax(0, S(hi) - S(lo))
            lo_t = lift(lo)
            kind = "int" if z3.is_int(lo_t) and z3.is_int(lift(hi)) and kw.get("dtype") not in (float, torch.float32, torch.float64, np.float64) else "real"
            r = SymArr((n,), lambda i: Sym(lo_t + i) if kind == "int" else Sym(R(lo_t) + z3.ToReal(i)), kind, name="arange")
            return r
        return h

    M[np.arange] = _arange(np.arange, prev_np_arange)
    M[torch.arange] = _arange(torch.arange, prev_t_arange)

    def m_np_array(interp, x, dtype=None, **kw):
        if isinstance(x, SymArr):
            if x.pylist:
                r = x.copy()
                r.pylist = False
                return r
            return x.copy()
        if isinstance(x, (list, tuple)) and contains_sym(x):
            return V.from_list(list(x), kind="real", pylist=False)
        if isinstance(x, (Sym, CArr)):
            return x
        return interp.native(np.array, x, dtype=dtype, **kw)

    M[np.array] = m_np_array
    M[np.asarray] = lambda interp, x, dtype=None, **kw: x if isinstance(x, (SymArr, CArr, Sym)) else m_np_array(interp, x, dtype=dtype, **kw)

    def m_tensor(interp, x, *a, **kw):
        if isinstance(x, (list, tuple)):
            if contains_sym(x) or getattr(interp.reg, "c13_symbolic_tensors", True):
                vals = [e.item() if isinstance(e, torch.Tensor) else e for e in x]
                r = V.from_list(vals, kind="real", pylist=False)
                r.as_type = torch.Tensor
                return r
        if isinstance(x, (Sym, SymArr, CArr)):
            return x
        if isinstance(x, (int, float)) and not isinstance(x, bool):
            return x  # 0-d tensor of a python number: the number (A1)
        return interp.native(torch.tensor, x, *a, **kw)

    M[torch.tensor] = m_tensor
    M[torch.as_tensor] = m_tensor

    def m_outer(interp, a, b):
        a, b = to_arr(a), to_arr(b)
        if not (isinstance(a, SymArr) and isinstance(b, SymArr)):
            return interp.native(np.outer, a, b)
        af, bf = a.fn, b.fn
        return SymArr((a.shape[0], b.shape[0]), lambda i, j: S(af(i)) * S(bf(j)), "real", name="outer")

    M[np.outer] = m_outer
    M[torch.outer] = m_outer

    # ---- elementwise ----------------------------------------------------------------------------------------------
    def m_exp(interp, x):
        if isinstance(x, CArr):
            if x.expr[0] != "cart":
                raise OutOfSubset("exp of a structural complex array")
            ef = x.elem
            probe = ef(*[z3.Int(f"i!probe{d}") for d in range(len(x.shape))])
            if not is_zero(probe[1]):
                raise OutOfSubset("exp of a complex array with non-zero real part")
            return x._derive(x.shape, ("ramp", _uid("ramp")), elem=lambda *idx: ("ramp", ef(*idx)[2]))
        if isinstance(x, CScalar):
            if not is_zero(x.re):
                raise OutOfSubset("exp of a complex scalar with non-zero real part")
            return CArr((), ("ramp", _uid("ramp")), elem=lambda: ("ramp", x.im))
        if isinstance(x, SymArr):
            return elementwise(lambda e: reals.app("exp", e), x)
        if isinstance(x, Sym):
            return reals.app("exp", x)
        return NotImplemented

    prev_np_exp, prev_t_exp = M.get(np.exp), M.get(torch.exp)

    def _exp(native, prev):
        def h(interp, x, **kw):
            r = m_exp(interp, x)
            if r is not NotImplemented:
                return r
            if prev is not None:
                return prev(interp, x, **kw)
            return interp.native(native, x, **kw)
        return h

    M[np.exp] = _exp(np.exp, prev_np_exp)
    M[torch.exp] = _exp(torch.exp, prev_t_exp)

    def m_mod(interp, a, n):
        a = to_arr(a, kind="int")
        if isinstance(a, SymArr):
            return elementwise(lambda e: S(e) % n, a, kind=a.kind)
        if isinstance(a, Sym) or isinstance(n, Sym):
            return S(a) % n
        return interp.native(np.mod, a, n)

    M[np.mod] = m_mod
    M[np.remainder] = m_mod

    def _ceil(x):
        t = R(x)
        return Sym(z3.ToReal(-z3.ToInt(-t)))

    def _floor(x):
        return Sym(z3.ToReal(z3.ToInt(R(x))))

    def _round_sym(interp, x):
        t = R(x)
        r = interp.ctx.fresh("round", "int")
        interp.ctx.assume(z3.And(z3.ToReal(r.t) - t <= z3.RealVal("1/2"), t - z3.ToReal(r.t) <= z3.RealVal("1/2")))
        return Sym(z3.ToReal(r.t))

    def _unary(native, f):
        def h(interp, x, *a, **kw):
            if isinstance(x, Sym):
                return f(interp, x)
            if isinstance(x, SymArr):
                ln = [V._dim_lit(d) for d in x.shape]
                if x.ndim == 0:
                    return f(interp, x.fn())
                if x.ndim == 1 and ln[0] is not None:
                    r = V.from_list([f(interp, x.fn(z3.IntVal(i))) for i in range(ln[0])], kind="real", pylist=False)
                    if hasattr(x, "as_type"):
                        r.as_type = x.as_type
                    return r
                raise OutOfSubset(f"{native.__name__} of a symbolic-size array")
            return interp.native(native, x, *a, **kw)
        return h

    M[np.ceil] = _unary(np.ceil, lambda i, x: _ceil(x))
    M[np.floor] = _unary(np.floor, lambda i, x: _floor(x))
    M[torch.ceil] = _unary(torch.ceil, lambda i, x: _ceil(x))
    M[torch.floor] = _unary(torch.floor, lambda i, x: _floor(x))
    M[torch.round] = _unary(torch.round, _round_sym)
    M[np.round] = _unary(np.round, _round_sym)

    # ---- search ---------------------------------------------------------------------------------------------------
    def m_argmax(interp, x, *a, **kw):
        if not isinstance(x, SymArr):
            return interp.native(np.argmax if not isinstance(x, torch.Tensor) else torch.argmax, x, *a, **kw)
        if a or kw.get("axis") is not None or kw.get("dim") is not None:
            raise OutOfSubset("argmax along an axis")
        if x.ndim != 2:
            raise OutOfSubset("argmax of a symbolic array of rank != 2")
        ctx = interp.ctx
        log = ctx.ghost.setdefault("c13_argmax", [])
        x0, y0 = ctx.fresh(f"peak{len(log)}_row", "int"), ctx.fresh(f"peak{len(log)}_col", "int")
        ctx.assume(z3.And(x0.t >= 0, x0.t < lift(x.shape[0]), y0.t >= 0, y0.t < lift(x.shape[1])))
        log.append(dict(arr=x, fn=x.fn, shape=x.shape, x0=x0, y0=y0, real_of=getattr(x, "real_of", None),
                        meta={k: getattr(x, k) for k in ("dft_of", "centre", "callee") if hasattr(x, k)}))
        return FlatIdx(x0, y0, x.shape[1])

    M[np.argmax] = m_argmax
    M[torch.argmax] = m_argmax

    def m_unravel(interp, idx, shape):
        if isinstance(idx, FlatIdx) and len(shape) == 2 and V.dims_equal(shape[1], idx.ncols):
            return (idx.x0, idx.y0)
        if contains_sym((idx, shape)):
            raise OutOfSubset("unravel_index of a symbolic index that is not an argmax of an array of this shape")
        return interp.native(np.unravel_index, idx, shape)

    M[np.unravel_index] = m_unravel

    # ---- ghost log: 2-D slices (patches) cut out of an array that argmax has searched -------------------------------
    prev_get = reg.getitem_models.get(SymArr)

    def arr_getitem(interp, base, key):
        r = prev_get(interp, base, key) if prev_get is not None else NotImplemented
        if getattr(base, "c13_stack", False) and base.ndim == 3 and isinstance(key, (int, Sym)) and not isinstance(key, bool):
            # image `key` of a named stack: a view that remembers WHICH image it is (ghost identity)
            if r is NotImplemented:
                r = base[key]
            if isinstance(r, SymArr):
                r.name = slab_name(base.name, key)
                r.c13_id = lift(key)
                if hasattr(base, "as_type"):
                    r.as_type = base.as_type
            return r
        log = interp.ctx.ghost.get("c13_argmax", [])
        if (isinstance(key, tuple) and len(key) == 2 and all(isinstance(k, slice) for k in key) and base.ndim == 2
                and any(e["arr"] is base for e in log)):
            if r is NotImplemented:
                r = base[key]
            b0, b1 = SymArr._slice_bounds(key[0], base.shape[0]), SymArr._slice_bounds(key[1], base.shape[1])
            interp.ctx.ghost.setdefault("c13_patches", []).append(dict(
                arr=base, result=r, shape=getattr(r, "shape", None), lo=(b0[0], b1[0]), step=(b0[2], b1[2]),
                asked=((key[0].start, key[0].stop), (key[1].start, key[1].stop))))
        return r

    reg.getitem_models[SymArr] = arr_getitem


# ------------------------------------------------------------------------------------------------
# translation model of images (call sites of the estimators): an image is a fixed CONTENT translated by a position vector
# ------------------------------------------------------------------------------------------------


class TImg:
    """Abstract image: content `cid` translated by `pos` = (row, col) real terms relative to the content's own frame.
    Immutable (every operation returns a new value)."""

    _pyvc_value = True

    def __init__(self, pos, cid="content"):
        self.pos = (S(pos[0]), S(pos[1]))
        self.cid = cid

    def __repr__(self):
        return f"TImg({self.cid} @ {self.pos[0].t}, {self.pos[1].t})"


def ite_value(c, a, b):
    """if-then-else over the value kinds stored in abstract lists (2-vectors, translated images, scalars)."""
    if isinstance(a, tuple) and isinstance(b, tuple) and len(a) == len(b):
        return tuple(ite_value(c, x, y) for x, y in zip(a, b))
    if isinstance(a, TImg) and isinstance(b, TImg):
        if a.cid != b.cid:
            raise OutOfSubset("ite over images of different content")
        return TImg((ite(c, a.pos[0], b.pos[0]), ite(c, a.pos[1], b.pos[1])), a.cid)
    if isinstance(a, SymArr) and isinstance(b, SymArr) and a.ndim == 1 and V._dim_lit(a.shape[0]) == V._dim_lit(b.shape[0]) is not None:
        n = V._dim_lit(a.shape[0])
        return V.from_list([ite(c, a.fn(z3.IntVal(i)), b.fn(z3.IntVal(i))) for i in range(n)], kind="real", pylist=False)
    return ite(c, a, b)


class AList:
    """Python list of symbolic length: `n` (Int term) and `get(j)` (value at position j as a function of an Int term).
    `append` is the functional update  get'(j) = v if j == n else get(j),  n' = n + 1  (the object is updated in place, like a list)."""

    _pyvc_value = True

    def __init__(self, n, get):
        self.n = S(n)
        self.get = get
        self.writes = 0

    def append(self, v):
        n0, g0 = self.n, self.get
        self.get = lambda j, _n=n0, _g=g0, _v=v: ite_value(lift(j) == lift(_n), _v, _g(j))
        self.n = n0 + 1
        self.writes += 1

    append._sym_ok = True

    def sym_len(self):
        return self.n

    def __len__(self):
        return self.n.__index__()


def install_translation_model(reg):
    """scipy.ndimage.shift(img, shift=s) translates the content by +s (TRUSTED, A6; periodic and zero-filled translation agree
    for content of compact support, which is what the call sites assume); tqdm(iterable) iterates the iterable."""
    from scipy import ndimage as ndi

    M = reg.models

    def m_shift(interp, img, shift=None, *a, **kw):
        if isinstance(img, TImg):
            s = to_arr(shift)
            if not (isinstance(s, SymArr) and s.ndim == 1 and V._dim_lit(s.shape[0]) == 2):
                raise OutOfSubset("scipy.ndimage.shift of an abstract image by a non-2-vector")
            return TImg((img.pos[0] + S(s.fn(z3.IntVal(0))), img.pos[1] + S(s.fn(z3.IntVal(1)))), img.cid)
        if contains_sym((img, shift)):
            raise OutOfSubset("scipy.ndimage.shift on symbolic pixel data")
        return interp.native(ndi.shift, img, shift, *a, **kw)

    M[ndi.shift] = m_shift
    try:
        import scipy.ndimage._interpolation as _ni

        M[_ni.shift] = m_shift
    except Exception:
        pass

    reg.noop_calls = set(reg.noop_calls) - {"tqdm"}

    def m_tqdm(interp, it=None, *a, **kw):
        return it

    import tqdm as _tq
    import tqdm.auto as _tqa

    for f in {_tq.tqdm, _tqa.tqdm}:
        M[f] = m_tqdm
        reg.ctor_models[f] = m_tqdm

    prev_len = M.get(len)

    def m_len(interp, x):
        if isinstance(x, AList):
            return x.n
        return prev_len(interp, x)

    M[len] = m_len


# ------------------------------------------------------------------------------------------------
# stack shifter (direct_ptycho_utils._fourier_shift_stack): batched transforms, half-spectrum transforms, meshgrid, view
# ------------------------------------------------------------------------------------------------


def install_stack_models(reg):
    """TRUSTED (A5/A6):
      * fft2 / ifft2 over the last two axes of a stack act per image (shape unchanged);
      * rfft2(x) of a real (..., H, W) array has shape (..., H, W div 2 + 1); rfftfreq(n, d)[i] = i/(n d), length n div 2 + 1;
        irfft2(c, s=None) returns a REAL array of shape (..., H, 2 (Wc - 1)) - or (..., s[0], s[1]) when `s` is given;
      * meshgrid(a, b, indexing='ij') = (a[i], b[j]) on the (len a, len b) grid;
      * x.view(-1, 1, .., 1) / reshape of a 1-D array adds trailing unit axes."""
    M = reg.models
    prev_attr = reg.attr_models.get(SymArr)

    def arr_attr(interp, base, name):
        if name in ("view", "reshape") and base.ndim == 1:
            def vw(*shape, _b=base):
                if len(shape) == 1 and isinstance(shape[0], (tuple, list)):
                    shape = tuple(shape[0])
                if len(shape) >= 1 and not isinstance(shape[0], Sym) and shape[0] == -1 and all((not isinstance(d, Sym)) and d == 1 for d in shape[1:]):
                    return _b[(slice(None),) + (None,) * (len(shape) - 1)]
                return SymArr.reshape(_b, *shape)
            return _sym_ok(vw)
        return prev_attr(interp, base, name) if prev_attr is not None else NotImplemented

    reg.attr_models[SymArr] = arr_attr

    def m_meshgrid(interp, *xs, indexing="xy"):
        if not any(isinstance(x, SymArr) for x in xs):
            f = torch.meshgrid if any(isinstance(x, torch.Tensor) for x in xs) else np.meshgrid
            return interp.native(f, *xs, indexing=indexing)
        if len(xs) != 2 or indexing != "ij":
            raise OutOfSubset("meshgrid other than two vectors with indexing='ij'")
        a, b = (to_arr(x) for x in xs)
        af, bf = a.fn, b.fn
        shape = (a.shape[0], b.shape[0])
        return (SymArr(shape, lambda i, j: af(i), a.kind, name="grid0"), SymArr(shape, lambda i, j: bf(j), b.kind, name="grid1"))

    M[torch.meshgrid] = m_meshgrid
    M[np.meshgrid] = m_meshgrid

    def m_rfft2(interp, x, *a, **k):
        if isinstance(x, SymArr):
            if x.ndim < 2:
                raise OutOfSubset("rfft2 of a rank-1 array")
            nm = x.name or _uid("arr")
            c = CArr(tuple(x.shape[:-1]) + (S(x.shape[-1]) // 2 + 1,), ("rfft2", nm))
            c.parts[nm] = c
            c.src = x
            return c
        if isinstance(x, CArr):
            raise OutOfSubset("rfft2 of complex data")
        return interp.native(torch.fft.rfft2 if isinstance(x, torch.Tensor) else np.fft.rfft2, x, *a, **k)

    def m_irfft2(interp, x, s=None, *a, **k):
        if isinstance(x, CArr):
            if s is not None:
                shape = tuple(x.shape[:-2]) + (s[0], s[1])
            else:
                shape = tuple(x.shape[:-1]) + (2 * (S(x.shape[-1]) - 1),)
            c = x._derive(shape, ("irfft2", x.expr, "given-size" if s is not None else "default-size"))
            r = real_part(c)
            r.base = r
            return r
        if isinstance(x, SymArr):
            raise OutOfSubset("irfft2 of a real symbolic array")
        return interp.native(torch.fft.irfft2 if isinstance(x, torch.Tensor) else np.fft.irfft2, x, s, *a, **k)

    def m_rfftfreq(interp, n, d=1.0, **kw):
        if not contains_sym((n, d)):
            return interp.native(np.fft.rfftfreq, n, d)
        nt, dt = lift(n), R(d)
        return SymArr((S(n) // 2 + 1,), lambda i: Sym(z3.ToReal(i) / (z3.ToReal(nt) * dt)), "real", name="rfftfreq")

    for mod_ in (np.fft, torch.fft):
        M[mod_.rfft2] = m_rfft2
        M[mod_.irfft2] = m_irfft2
        M[mod_.rfftfreq] = m_rfftfreq


def install_norm(reg):
    """np.linalg.norm of a short real vector = sqrt(sum of squares) (A4 symbol sqrt)."""
    M = reg.models
    prev = M.get(np.linalg.norm)

    def m_norm(interp, x, *a, **kw):
        x = to_arr(x)
        if isinstance(x, SymArr) and x.ndim == 1 and V._dim_lit(x.shape[0]) is not None and not a and not kw:
            tot = None
            for i in range(V._dim_lit(x.shape[0])):
                e = S(x.fn(z3.IntVal(i)))
                tot = e * e if tot is None else tot + e * e
            return reals.app("sqrt", tot if tot is not None else 0)
        if prev is not None:
            return prev(interp, x, *a, **kw)
        if contains_sym(x):
            raise OutOfSubset("np.linalg.norm of a symbolic array other than a short vector")
        return interp.native(np.linalg.norm, x, *a, **kw)

    M[np.linalg.norm] = m_norm
