"""TRUSTED library contracts used by C18 (centre-of-mass origins).  Nothing here is about quantem.

numpy / torch on index-function arrays (SymArr):
  meshgrid (ij / xy), sum / mean over axes (Sigma-terms), zeros / ones_like / empty / empty_like / as_tensor / tensor,
  stack, isfinite (A1: reals are finite), view / reshape that only merges or splits LEADING axes (row-major),
  expand, advanced-index gather / scatter with an injective index array, floored remainder on reals,
  torch.nn.functional.grid_sample at integer pixel coordinates, itertools.product of ranges, tqdm(iterable) = iterable.
"""
from __future__ import annotations

import itertools
import operator

import numpy as np
import torch
import z3

from .. import values as V
from ..values import Sym, SymArr, S, lift, contains_sym, ite, OutOfSubset, elementwise
from ..interp import RaiseSig, SymRange


class NS_fn:
    """Snapshot of an array's index function (later in-place writes to the array must not leak into derived values)."""

    def __init__(self, a):
        self.fn = a.fn


def _like(r, src=None, as_type=None):
    t = as_type or getattr(src, "as_type", None)
    if t is not None:
        r.as_type = t
    return r


def _same_dim(a, b):
    if isinstance(a, Sym) or isinstance(b, Sym):
        return V.dims_equal(a, b)
    return int(a) == int(b)


def _is_one(d):
    return V._dim_lit(d) == 1


def _prod(ds):
    r = 1
    for d in ds:
        r = r * d
    return r


def entails(t):
    """pc |= t, cached per path (a `True` stays true while the path condition grows; a cached `False` only costs a simplification)."""
    t = z3.simplify(lift(t))
    if z3.is_true(t):
        return True
    if z3.is_false(t):
        return False
    ctx = V.cur()
    cache = ctx.ghost.setdefault("c18_entails", {})
    k = t.get_id()
    if k in cache and cache[k][0]:
        return True
    # a fresh (non-incremental) solver over the LINEAR quantifier-free part of the path condition: fast and complete there.
    # (z3's incremental push/pop core is weak on to_int / to_real and would answer `unknown`.)
    light = ctx.ghost.get("c18_light")
    if light is None:
        light = ctx.ghost["c18_light"] = [[], 0]
    facts, done = light
    for f in ctx.pc[done:]:
        if _is_linear_qf(f):
            facts.append(f)
    light[1] = len(ctx.pc)
    if k in cache and cache[k][2] == len(facts):
        return False
    sol = z3.Solver()
    sol.set("rlimit", 1500000)   # deterministic resource limit (a wall-clock limit made this answer depend on machine load)
    sol.set("timeout", 600000)
    sol.add(*facts)
    sol.add(z3.Not(t))
    r = sol.check() == z3.unsat
    cache[k] = (r, t, len(facts))  # keep `t` alive so the id is not reused
    return r


def _is_linear_qf(t, _memo={}):
    k = t.get_id()
    if k in _memo:
        return _memo[k][0]
    r = True
    if z3.is_quantifier(t) or z3.is_var(t):
        r = False
    elif z3.is_app(t):
        kind = t.decl().kind()
        ch = t.children()
        if kind == z3.Z3_OP_MUL and sum(1 for c in ch if not (z3.is_int_value(c) or z3.is_rational_value(c))) > 1:
            r = False
        elif kind in (z3.Z3_OP_DIV, z3.Z3_OP_IDIV, z3.Z3_OP_MOD, z3.Z3_OP_REM) and not (z3.is_int_value(ch[1]) or z3.is_rational_value(ch[1])):
            r = False
        else:
            r = all(_is_linear_qf(c) for c in ch)
    _memo[k] = (r, t)
    return r


def nonneg_dim(n):
    """max(0, n) of numpy/torch `arange(n)`; just n when the path condition already gives n >= 0."""
    if not isinstance(n, Sym):
        return max(0, n)
    return n if entails(n.t >= 0) else V.smax(0, n)


def cancel_division(t):
    """x * (y / x) -> y for a real product, when the path condition gives x != 0 (one rewriting pass after simplify)."""
    t = z3.simplify(t)
    if not (z3.is_app(t) and t.decl().kind() == z3.Z3_OP_MUL):
        return t
    fs = _ac_children(t)
    for i, f in enumerate(fs):
        if z3.is_app(f) and f.decl().kind() == z3.Z3_OP_DIV:
            num, den = f.arg(0), f.arg(1)
            for j, h in enumerate(fs):
                if j != i and h.eq(den) and entails(den != 0):
                    rest = [x for q, x in enumerate(fs) if q not in (i, j)] + [num]
                    r = rest[0]
                    for x in rest[1:]:
                        r = r * x
                    return z3.simplify(r)
    return t


def _to_real(t):
    t = V._num(lift(t))
    return z3.ToReal(t) if z3.is_int(t) else t


# ------------------------------------------------------------------------------------------------
# Finite sums, first-order ("lambda-lifted") encoding - independent of pyvc.reals.sigma:
#     Sum_{j<n} body(j)   |->   F_shape(n, t_1, ..., t_m)
# where t_1..t_m are the maximal subterms of the summand that do not mention j and `shape` is the summand with those
# replaced by placeholders (arguments of + and * in a canonical order).  Two sums with the same shape are the SAME
# uninterpreted function, so "equal bounds and equal parameters => equal sums" (congruence of finite sums, the only
# fact used) is plain EUF congruence; no lambda terms, no quantifiers, and the parameters may mention symbols that a
# contract later binds with ForAll.  A summand that does not mention j at all is summed exactly: max(n,0) * c.
# ------------------------------------------------------------------------------------------------

_SIG_FUNCS = {}
_SIG_DEPTH = [0]


def _contains(e, j, memo):
    k = e.get_id()
    if k in memo:
        return memo[k]
    if e.eq(j):
        r = True
    elif z3.is_quantifier(e):
        r = _contains(e.body(), j, memo)
    else:
        r = any(_contains(c, j, memo) for c in e.children())
    memo[k] = r
    return r


def _is_value(e):
    return z3.is_int_value(e) or z3.is_rational_value(e) or z3.is_true(e) or z3.is_false(e)


def _ac_children(e):
    """Children of an n-ary + or * flattened."""
    kind = e.decl().kind()
    out = []
    for c in e.children():
        if z3.is_app(c) and c.decl().kind() == kind and c.num_args() > 1:
            out.extend(_ac_children(c))
        else:
            out.append(c)
    return out


def _anon(e, j, memo, amemo):
    k = e.get_id()
    if k in amemo:
        return amemo[k]
    if not _contains(e, j, memo):
        r = f"?{e.sort()}"
    elif e.eq(j):
        r = "J"
    elif z3.is_quantifier(e):
        raise OutOfSubset("quantifier inside a summand")
    else:
        kind = e.decl().kind()
        if kind in (z3.Z3_OP_ADD, z3.Z3_OP_MUL):
            kids = sorted(_anon(c, j, memo, amemo) for c in _ac_children(e))
        else:
            kids = [_anon(c, j, memo, amemo) for c in e.children()]
        r = f"({e.decl().name()} {' '.join(kids)})"
    amemo[k] = r
    return r


def sigma(n, body_fn):
    """Sum_{j=0}^{n-1} body_fn(j) (real-valued) as a first-order term."""
    _SIG_DEPTH[0] += 1
    try:
        j = z3.Int(f"j!c18sum{_SIG_DEPTH[0]}")
        b = V._num(lift(body_fn(j)))
    finally:
        _SIG_DEPTH[0] -= 1
    if z3.is_int(b):
        b = z3.ToReal(b)
    b = z3.simplify(b)
    nt = lift(n)
    memo, amemo = {}, {}
    if not _contains(b, j, memo):
        return Sym(z3.ToReal(z3.If(nt >= 0, nt, z3.IntVal(0))) * b)
    params, pindex = [], {}

    def build(e):
        if not _contains(e, j, memo):
            # every j-free maximal subterm (numerals included) is a parameter, so instances at a literal index and at
            # a symbolic index are applications of the same function
            k = e.get_id()
            if k not in pindex:
                pindex[k] = len(params)
                params.append(e)
            return f"P{pindex[k]}:{e.sort()}"
        if e.eq(j):
            return "J"
        kind = e.decl().kind()
        if kind in (z3.Z3_OP_ADD, z3.Z3_OP_MUL):
            kids = sorted(_ac_children(e), key=lambda c: _anon(c, j, memo, amemo))
        else:
            kids = list(e.children())
        return f"({e.decl().name()} {' '.join(build(c) for c in kids)})"

    shape = build(b)
    if shape not in _SIG_FUNCS:
        _SIG_FUNCS[shape] = z3.Function(f"Sum{len(_SIG_FUNCS)}", z3.IntSort(), *[q.sort() for q in params], z3.RealSort())
    return Sym(_SIG_FUNCS[shape](nt, *params))


def reduce_sum(arr, axis=None, keepdims=False):
    """numpy / torch sum over axes of an index-function array (axes summed outermost-first in axis order)."""
    if not isinstance(arr, SymArr):
        raise OutOfSubset("sum of a non-array")
    nd = arr.ndim
    if axis is None:
        axes = tuple(range(nd))
    elif isinstance(axis, (tuple, list)):
        axes = tuple(a % nd for a in axis)
    else:
        axes = (axis % nd,)
    axes = tuple(sorted(axes))
    keep = [i for i in range(nd) if i not in axes]
    arrfn = arr.fn  # snapshot

    def fn(*idx):
        idx = list(idx)
        outer = {i: idx[i] for i in keep} if keepdims else {a: idx[p] for p, a in enumerate(keep)}

        def rec(ai, bound):
            if ai == len(axes):
                return arrfn(*[bound[i] if i in bound else outer[i] for i in range(nd)])
            a = axes[ai]
            n = arr.shape[a]
            ln = V._dim_lit(n)
            if ln is not None and ln <= 4:
                tot = None
                for jv in range(ln):
                    term = S(rec(ai + 1, {**bound, a: z3.IntVal(jv)}))
                    tot = term if tot is None else tot + term
                return tot if tot is not None else 0.0
            return sigma(n, lambda j, _a=a, _ai=ai: rec(_ai + 1, {**bound, _a: j}))

        return rec(0, {})

    shape = tuple(1 if i in axes else d for i, d in enumerate(arr.shape)) if keepdims else tuple(arr.shape[i] for i in keep)
    out = SymArr(shape, fn, "real")
    if not shape:
        return S(out.fn())
    return _like(out, arr)


def reduce_mean(arr, axis=None, keepdims=False):
    s = reduce_sum(arr, axis, keepdims)
    if axis is None:
        cnt = arr.numel()
    else:
        axs = (axis,) if not isinstance(axis, (tuple, list)) else tuple(axis)
        cnt = 1
        for a in axs:
            cnt = cnt * arr.shape[a % arr.ndim]
    if isinstance(s, SymArr):
        return _like(elementwise(lambda e: V._realdiv(e, cnt), s, kind="real"), arr)
    return V._realdiv(s, cnt)


# ------------------------------------------------------------------------------------------------
# view / reshape restricted to what is decidable: common trailing (and leading) axes are kept, size-1 axes may be
# inserted / dropped, and ONE group of axes is merged into one axis or one axis split into a group (row-major order).
# ------------------------------------------------------------------------------------------------


def smart_view(x, shape):
    if len(shape) == 1 and isinstance(shape[0], (tuple, list, torch.Size)):
        shape = tuple(shape[0])
    shape = tuple(shape)
    old = tuple(x.shape)

    def is_neg1(d):
        return (not isinstance(d, Sym)) and int(d) == -1

    if sum(1 for d in shape if is_neg1(d)) > 1:
        raise RaiseSig(RuntimeError("only one dimension can be inferred"))
    # common trailing axes
    t = 0
    while t < min(len(old), len(shape)) and not is_neg1(shape[-1 - t]) and _same_dim(old[-1 - t], shape[-1 - t]):
        t += 1
    old_l, new_l = old[: len(old) - t], shape[: len(shape) - t]
    # common leading axes
    h = 0
    while h < min(len(old_l), len(new_l)) and not is_neg1(new_l[h]) and _same_dim(old_l[h], new_l[h]):
        h += 1
    old_m, new_m = old_l[h:], new_l[h:]
    old_pos = [i for i, d in enumerate(old_m) if not _is_one(d)]       # axes of the middle group that carry an index
    new_pos = [i for i, d in enumerate(new_m) if not (not is_neg1(d) and _is_one(d))]
    old_g = [old_m[i] for i in old_pos]
    new_g = [new_m[i] for i in new_pos]
    if any(is_neg1(d) for d in new_g):
        if len(new_g) != 1:
            return None  # -1 next to other changed axes: leave to the generic reshape
        new_g = [_prod(old_g) if old_g else 1]
        if not old_g:
            new_pos_is_one = True
    mode = None
    if len(old_g) == len(new_g) and all(_same_dim(a, b) for a, b in zip(old_g, new_g)):
        mode = "same"
    elif len(new_g) == 1 and len(old_g) >= 2:
        if not _same_dim(new_g[0], _prod(old_g)):
            return None
        mode = "merge"
    elif len(old_g) == 1 and len(new_g) >= 2:
        if not _same_dim(old_g[0], _prod(new_g)):
            return None
        mode = "split"
    elif len(old_g) == 0 and len(new_g) == 1 and _is_one(new_g[0]):
        mode = "same"
        new_pos = []
        new_g = []
    else:
        return None
    out_shape = list(old[:h])
    k = 0
    for i, d in enumerate(new_m):
        if i in new_pos:
            out_shape.append(new_g[k] if k < len(new_g) else 1)
            k += 1
        else:
            out_shape.append(1)
    out_shape += list(old[len(old) - t:])
    n_new_m, n_old_m = len(new_m), len(old_m)
    srcfn = V._snap_fn(x, view=True)

    def fn(*idx):
        idx = list(idx)
        lead, mid, trail = idx[:h], idx[h:h + n_new_m], idx[h + n_new_m:]
        g = [mid[i] for i in new_pos]
        if mode == "same":
            og = g
        elif mode == "merge":
            m = g[0]
            og = []
            for d in reversed(old_g[1:]):
                d = lift(d)
                og.append(m % d)
                m = m / d
            og.append(m)
            og.reverse()
        else:  # split
            lin = g[0]
            for i, d in zip(g[1:], new_g[1:]):
                lin = lin * lift(d) + i
            og = [lin]
        omid = [z3.IntVal(0)] * n_old_m
        for p, v in zip(old_pos, og):
            omid[p] = v
        return srcfn(*(lead + omid + trail))

    r = SymArr(tuple(out_shape), fn, x.kind, False, base=x.base)
    r._guards = tuple(getattr(x, "_guards", ())) + (srcfn,)
    return _like(r, x)


def expand(x, shape):
    if len(shape) == 1 and isinstance(shape[0], (tuple, list, torch.Size)):
        shape = tuple(shape[0])
    shape = tuple(shape)
    if len(shape) < x.ndim:
        raise RaiseSig(RuntimeError("expand: fewer sizes than tensor dimensions"))
    off = len(shape) - x.ndim
    plan = []  # per new axis: None (broadcast) | source axis
    out = []
    for j, d in enumerate(shape):
        if j < off:
            plan.append(None)
            out.append(d)
            continue
        od = x.shape[j - off]
        if (not isinstance(d, Sym)) and int(d) == -1:
            plan.append(j - off)
            out.append(od)
        elif V._dim_lit(od) is not None and V._dim_lit(d) is not None:
            if V._dim_lit(od) == V._dim_lit(d):
                plan.append(j - off)
            elif V._dim_lit(od) == 1:
                plan.append(None)
            else:
                raise RaiseSig(RuntimeError("expanded size must match the existing size at non-singleton dimension"))
            out.append(d)
        elif V.cur().branch(lift(od) == lift(d)):
            plan.append(j - off)
            out.append(d)
        elif V.cur().branch(lift(od) == 1):
            plan.append(None)
            out.append(d)
        else:
            raise RaiseSig(RuntimeError("expanded size must match the existing size at non-singleton dimension"))

    srcfn = V._snap_fn(x, view=True)
    nd_src = x.ndim

    def fn(*idx):
        src = [z3.IntVal(0)] * nd_src
        for j, p in enumerate(plan):
            if p is not None:
                src[p] = idx[j]
        return srcfn(*src)

    r = SymArr(tuple(out), fn, x.kind, False, base=x.base)
    r._guards = tuple(getattr(x, "_guards", ())) + (srcfn,)
    return _like(r, x)


def flip(x, dims):
    """torch.flip(x, dims): a COPY with the listed axes reversed."""
    if len(dims) == 1 and isinstance(dims[0], (tuple, list)):
        dims = tuple(dims[0])
    axes = {int(d) % x.ndim for d in dims}
    xf, shape = x.fn, tuple(x.shape)

    def fn(*idx):
        return xf(*[lift(shape[a]) - 1 - i if a in axes else i for a, i in enumerate(idx)])

    return _like(SymArr(shape, fn, x.kind), x)


def fresh_like(ctx, name, shape, kind="real", as_type=None):
    a = ctx.fresh_arr(name, tuple(shape), kind if kind in ("int", "real", "bool") else "real")
    if as_type is not None:
        a.as_type = as_type
    return a


def const_arr(shape, val, kind="real", as_type=None):
    a = SymArr(tuple(shape), lambda *i, _v=val: _v, kind)
    if as_type is not None:
        a.as_type = as_type
    return a


def stack(xs, axis=0, as_type=None):
    xs = [V.as_arr(x) if not isinstance(x, SymArr) else x for x in xs]
    base = xs[0]
    d = axis % (base.ndim + 1)

    def fn(*idx, _xs=[x.fn for x in xs], _d=d):
        idx = list(idx)
        j = idx.pop(_d)
        r = _xs[-1](*idx)
        for q in range(len(_xs) - 2, -1, -1):
            r = ite(j == q, _xs[q](*idx), r)
        return r

    shape = list(base.shape)
    shape.insert(d, len(xs))
    kind = "real" if any(x.kind == "real" for x in xs) else base.kind
    return _like(SymArr(tuple(shape), fn, kind), base, as_type)


def real_mod(a, b):
    """Floored remainder a - b*floor(a/b) (Python %, numpy.mod, torch.remainder share it).  For integer-valued real
    operands the same value is written with the integer `mod`, which keeps obligations decidable."""
    ta, tb = V._num(lift(a)), V._num(lift(b))
    if z3.is_int(ta) and z3.is_int(tb):
        return S(a) % b
    ra, rb = _to_real(ta), _to_real(tb)
    generic = ra - rb * z3.ToReal(z3.ToInt(ra / rb))
    ia, ib = z3.simplify(z3.ToInt(ra)), z3.simplify(z3.ToInt(rb))
    cond = z3.simplify(z3.And(z3.IsInt(ra), z3.IsInt(rb), ib != 0))
    # evaluated under the current path condition: when it already decides the case distinction the simpler term is used
    if entails(ib > 0):
        integral = z3.ToReal(ia % ib)  # positive divisor: floored and Euclidean remainder coincide
    else:
        integral = z3.ToReal(V.py_mod(ia, ib))
    if entails(cond):
        return Sym(integral)
    return Sym(z3.If(cond, integral, generic))


def install(reg):
    M = reg.models
    F = torch.nn.functional

    # ---------------------------------------------------------------- attribute protocol on SymArr
    prev_attr = reg.attr_models.get(SymArr)

    def arr_attr(interp, base, name):
        if name in ("view", "reshape") and not base.pylist:
            def bound(*shape, _b=base):
                r = smart_view(_b, shape)
                if r is None:
                    r = _like(_b.reshape(*shape), _b)
                return r
            bound._sym_ok = True
            return bound
        if name in ("sum", "mean") and not base.pylist:
            red = reduce_sum if name == "sum" else reduce_mean

            def bound_r(axis=None, dim=None, keepdim=False, keepdims=False, _b=base, _red=red, **kw):
                return _red(_b, axis if axis is not None else dim, keepdim or keepdims)
            bound_r._sym_ok = True
            return bound_r
        if name == "flip" and not base.pylist:
            def bound_f(*dims, _b=base):
                return flip(_b, dims)
            bound_f._sym_ok = True
            return bound_f
        if name in ("min", "max") and not base.pylist:
            def bound_m(*a, _b=base, _n=name, **kw):
                if a or kw:
                    raise OutOfSubset(f"{_n}() with arguments on a symbolic array")
                # the extreme value of the array: some real number (unspecified - no contract in scope depends on which)
                return interp.ctx.fresh(f"array_{_n}", "real")
            bound_m._sym_ok = True
            return bound_m
        if name == "type" and not base.pylist and getattr(base, "as_type", None) is torch.Tensor:
            def bound_t(dtype=None, _b=base, **kw):
                # Tensor.type(dtype): a cast COPY (real -> integer dtype truncates toward zero; every other cast keeps the values, A1)
                if dtype is None:
                    raise OutOfSubset("Tensor.type() without a dtype on a symbolic tensor")
                return _like(_b.astype(dtype), _b)
            bound_t._sym_ok = True
            return bound_t
        if name == "numpy" and not base.pylist and getattr(base, "as_type", None) is torch.Tensor:
            def bound_n(_b=base, **kw):
                # Tensor.numpy(): an ndarray VIEW of the same memory (a write through it is a write into the tensor)
                srcfn = V._snap_fn(_b, view=True)
                r = SymArr(tuple(_b.shape), lambda *i: srcfn(*i), _b.kind, False, base=_b.base)
                r._guards = tuple(getattr(_b, "_guards", ())) + (srcfn,)
                r.as_type = np.ndarray
                return r
            bound_n._sym_ok = True
            return bound_n
        if name == "movedim" and not base.pylist:
            def bound_md(source, destination, _b=base):
                # Tensor.movedim(source, destination) for single integer axes: a VIEW with that axis moved, the others keep their order
                if isinstance(source, (Sym, tuple, list)) or isinstance(destination, (Sym, tuple, list)):
                    raise OutOfSubset("movedim with symbolic / several axes")
                nd = _b.ndim
                if not (-nd <= source < nd and -nd <= destination < nd):
                    raise RaiseSig(IndexError("movedim: dimension out of range"))
                src_ax, dst_ax = source % nd, destination % nd
                order = [a for a in range(nd) if a != src_ax]
                order.insert(dst_ax, src_ax)  # order[new axis] = old axis
                srcfn = V._snap_fn(_b, view=True)

                def fn(*idx, _order=tuple(order)):
                    old = [None] * nd
                    for new_ax, old_ax in enumerate(_order):
                        old[old_ax] = idx[new_ax]
                    return srcfn(*old)

                r = SymArr(tuple(_b.shape[a] for a in order), fn, _b.kind, False, base=_b.base)
                r._guards = tuple(getattr(_b, "_guards", ())) + (srcfn,)
                return _like(r, _b)
            bound_md._sym_ok = True
            return bound_md
        if name == "expand" and not base.pylist:
            def bound_e(*shape, _b=base):
                return expand(_b, shape)
            bound_e._sym_ok = True
            return bound_e
        if prev_attr is not None:
            return prev_attr(interp, base, name)
        return NotImplemented

    reg.attr_models[SymArr] = arr_attr

    # isinstance of an array stand-in that carries a library tag (`as_type`): decided by the tag alone (a torch tensor is not an ndarray)
    prev_isinstance = getattr(reg, "isinstance_model", None)

    def tagged_isinstance(interp, x, t):
        if isinstance(x, SymArr) and not x.pylist and getattr(x, "as_type", None) in (torch.Tensor, np.ndarray):
            ts = t if isinstance(t, tuple) else (t,)
            return any(isinstance(k, type) and issubclass(x.as_type, k) for k in ts)
        if prev_isinstance is not None:
            return prev_isinstance(interp, x, t)
        return NotImplemented

    reg.isinstance_model = tagged_isinstance

    # ---------------------------------------------------------------- gather / scatter with an index array
    prev_get = reg.getitem_models.get(SymArr)

    def arr_getitem(interp, base, key):
        keys = key if isinstance(key, tuple) else (key,)
        ax = 0
        for k in keys:
            if k is None or k is Ellipsis:
                if k is Ellipsis:
                    break
                continue
            if isinstance(k, SymArr) and k.ndim == 1 and k.kind == "int" and not base.pylist and ax < base.ndim:
                b = z3.Int("b!idx")
                n = lift(base.shape[ax])
                v = lift(k.fn(b))
                interp.ctx.prove("gather:index-array-in-range",
                                 z3.ForAll([b], z3.Implies(z3.And(b >= 0, b < lift(k.shape[0])), z3.And(v >= 0, v < n))), kind="safety", assume_after=False)
            ax += 1
        if prev_get is not None:
            r = prev_get(interp, base, key)
            if r is not NotImplemented:
                return _like(r, base) if isinstance(r, SymArr) and not hasattr(r, "as_type") else r
        r = SymArr.__getitem__(base, key)
        if isinstance(r, SymArr) and not hasattr(r, "as_type"):
            _like(r, base)
        if isinstance(r, SymArr) and not base.pylist:
            _restore_full_slice_dims(base, keys, r)
        return r

    def _restore_full_slice_dims(base, keys, r):
        """a[..., :, ...]: a full slice keeps the axis length exactly (the generic slice rule writes max(0, n))."""
        n_real = sum(1 for k in keys if k is not None and k is not Ellipsis)
        if any(k is Ellipsis for k in keys):
            e = [i for i, k in enumerate(keys) if k is Ellipsis][0]
            keys = keys[:e] + (slice(None),) * (base.ndim - n_real) + keys[e + 1:]
        else:
            keys = tuple(keys) + (slice(None),) * (base.ndim - n_real)
        shape = list(r.shape)
        pos, ax = 0, 0
        for k in keys:
            if k is None:
                pos += 1
                continue
            if isinstance(k, slice):
                if k.start is None and k.stop is None and k.step is None and pos < len(shape):
                    shape[pos] = base.shape[ax]
                pos += 1
            elif isinstance(k, SymArr) and k.ndim >= 1:
                pos += k.ndim
            elif isinstance(k, list):
                pos += 1
            ax += 1
        if len(shape) == len(r.shape):
            r.shape = tuple(shape)

    reg.getitem_models[SymArr] = arr_getitem

    # 0-dim reduction result (numpy scalar / 0-dim tensor) indexed with new axes only: x[..., None] / x[None] -> shape (1,)*k
    prev_sget = reg.getitem_models.get(Sym)

    def scalar_getitem(interp, base, key):
        keys = key if isinstance(key, tuple) else (key,)
        if base.is_real and keys and all(k is None or k is Ellipsis for k in keys) and sum(1 for k in keys if k is Ellipsis) <= 1:
            k = sum(1 for q in keys if q is None)
            if k == 0:
                return base
            return SymArr((1,) * k, lambda *i, _v=base: _v, "real")
        if prev_sget is not None:
            return prev_sget(interp, base, key)
        return NotImplemented

    reg.getitem_models[Sym] = scalar_getitem

    prev_set = reg.setitem_models.get(SymArr)

    def arr_setitem(interp, base, key, value):
        keys = key if isinstance(key, tuple) else (key,)
        if keys and isinstance(keys[0], SymArr) and keys[0].ndim == 1 and not base.pylist \
                and all(not isinstance(k, (slice, SymArr, list)) and k is not None and k is not Ellipsis for k in keys[1:]):
            idx = keys[0]
            if not (hasattr(idx, "mem") and hasattr(idx, "inv")):
                raise OutOfSubset("scatter through an index array without injectivity ghosts (mem / inv)")
            rest = [lift(base._norm_index(k, n)) for k, n in zip(keys[1:], base.shape[1:])]
            b = z3.Int("b!idx")
            n0 = lift(base.shape[0])
            v = lift(idx.fn(b))
            interp.ctx.prove("scatter:index-array-in-range",
                             z3.ForAll([b], z3.Implies(z3.And(b >= 0, b < lift(idx.shape[0])), z3.And(v >= 0, v < n0))), kind="safety", assume_after=False)
            val = value if isinstance(value, SymArr) else V.as_arr(value)
            n_free = base.ndim - 1 - len(rest)
            want = (idx.shape[0],) + tuple(base.shape[1 + len(rest):])
            # value must broadcast to (len(idx), *free axes)
            vshape = V.broadcast_shapes(tuple(val.shape), want)
            if len(vshape) != len(want) or not all(_same_dim(a, c) for a, c in zip(vshape, want)):
                raise RaiseSig(RuntimeError("shape mismatch in indexed assignment"))
            if base.base is not base:
                base.detach_from_base()
            old = base.fn
            nr = len(rest)
            valfn, valshape, valnd = val.fn, tuple(val.shape), val.ndim

            def fn(*ix, _old=old, _idx=idx, _rest=rest):
                p = ix[0]
                fixed = ix[1:1 + nr]
                free = list(ix[1 + nr:])
                cond = [_idx.mem(p)] + [a == c for a, c in zip(fixed, _rest)]
                full = [_idx.inv(p)] + free
                off = len(full) - valnd
                sub = [z3.IntVal(0) if _is_one(valshape[j]) else full[off + j] for j in range(valnd)]
                return ite(z3.And(*cond), valfn(*sub), _old(*ix))

            base.fn = fn
            base.writes += 1
            return None
        if prev_set is not None:
            return prev_set(interp, base, key, value)
        return NotImplemented

    reg.setitem_models[SymArr] = arr_setitem

    # ---------------------------------------------------------------- floored remainder on real arrays
    def arr_mod(interp, op, a, b):
        if isinstance(a, SymArr) and a.pylist or isinstance(b, SymArr) and b.pylist:
            return NotImplemented
        kinds = [getattr(x, "kind", None) for x in (a, b)]
        if all(k == "int" for k in kinds if k is not None) and not any(isinstance(x, Sym) and x.is_real or isinstance(x, float) for x in (a, b)):
            return NotImplemented
        r = elementwise(real_mod, a, b, kind="real")
        return _like(r, a if isinstance(a, SymArr) else b)

    reg.binop_models[(SymArr, operator.mod)] = arr_mod

    # ---------------------------------------------------------------- matrix @ vector (and vector @ vector): sum over the shared axis
    def arr_matmul(interp, op, a, b):
        if not (isinstance(a, SymArr) and isinstance(b, SymArr)) or a.pylist or b.pylist or b.ndim != 1 or a.ndim not in (1, 2):
            return NotImplemented
        if not _same_dim(a.shape[-1], b.shape[0]):
            raise RaiseSig(RuntimeError("matmul: size mismatch of the contracted axis"))
        af, bf, n = a.fn, b.fn, a.shape[-1]
        ln = V._dim_lit(n)

        def dot(row):
            if ln is not None and ln <= 4:
                tot = None
                for j in range(ln):
                    term = S(af(*row, z3.IntVal(j))) * S(bf(z3.IntVal(j)))
                    tot = term if tot is None else tot + term
                return tot if tot is not None else 0.0
            return sigma(n, lambda j: S(af(*row, j)) * S(bf(j)))

        if a.ndim == 1:
            return S(dot(()))
        return _like(SymArr((a.shape[0],), lambda p: dot((p,)), "real"), a)

    reg.binop_models[(SymArr, operator.matmul)] = arr_matmul

    # ---------------------------------------------------------------- constructors
    def _shape_args(a):
        if len(a) == 1 and isinstance(a[0], (tuple, list, torch.Size)):
            return tuple(a[0])
        return tuple(a)

    def m_t_arange(interp, *a, **kw):
        if not contains_sym(a):
            return interp.native(torch.arange, *a, **kw)
        if len(a) != 1:
            raise OutOfSubset("torch.arange(start, stop) with symbolic bounds")
        r = SymArr((nonneg_dim(a[0]),), lambda i: Sym(i), "int")
        r.as_type = torch.Tensor
        return r

    M[torch.arange] = m_t_arange

    def m_np_arange(interp, *a, dtype=None, **kw):
        if not contains_sym(a):
            return interp.native(np.arange, *a, dtype=dtype, **kw)
        if len(a) != 1:
            raise OutOfSubset("np.arange(start, stop) with symbolic bounds")
        from . import numpy_ as npm
        n = nonneg_dim(a[0])
        nt = lift(n)
        return npm.index_array(n, lambda i: Sym(i), lambda v: z3.And(lift(v) >= 0, lift(v) < nt), lambda v: lift(v), name="arange")

    M[np.arange] = m_np_arange

    def m_t_empty(interp, *a, dtype=None, device=None, **kw):
        shape = _shape_args(a)
        if not contains_sym(shape):
            return interp.native(torch.empty, *a, dtype=dtype, device=device, **kw)
        return fresh_like(interp.ctx, "empty", shape, "real", torch.Tensor)

    M[torch.empty] = m_t_empty

    def m_t_empty_like(interp, x, **kw):
        if isinstance(x, SymArr):
            return fresh_like(interp.ctx, "empty_like", x.shape, x.kind, torch.Tensor)
        return interp.native(torch.empty_like, x, **kw)

    M[torch.empty_like] = m_t_empty_like

    def _as_tensor(f):
        def h(interp, x, dtype=None, device=None, **kw):
            if isinstance(x, SymArr):
                if x.pylist:
                    r = x.copy()
                    r.pylist = False
                    return _like(r, None, torch.Tensor)
                if f is torch.tensor:
                    r = x.copy()
                    return _like(r, None, torch.Tensor)
                x.as_type = torch.Tensor if getattr(x, "as_type", None) in (None, torch.Tensor) else x.as_type
                if x.as_type is not torch.Tensor:
                    r = x.copy()
                    return _like(r, None, torch.Tensor)
                return x
            if contains_sym(x):
                if isinstance(x, (list, tuple)) and all(not isinstance(e, (list, tuple, SymArr)) for e in x):
                    return _like(V.from_list(list(x), kind="real", pylist=False), None, torch.Tensor)
                raise OutOfSubset("torch.tensor of a nested symbolic sequence")
            kw2 = dict(kw)
            if dtype is not None:
                kw2["dtype"] = dtype
            if device is not None:
                kw2["device"] = device
            return interp.native(f, x, **kw2)
        return h

    M[torch.as_tensor] = _as_tensor(torch.as_tensor)
    M[torch.tensor] = _as_tensor(torch.tensor)

    def m_np_zeros(interp, shape, dtype=None, **kw):
        if not contains_sym(shape):
            return interp.native(np.zeros, shape, dtype=dtype, **kw) if dtype is not None else interp.native(np.zeros, shape, **kw)
        shape = tuple(shape) if isinstance(shape, (tuple, list)) else (shape,)
        return const_arr(shape, 0.0, "real", np.ndarray)

    M[np.zeros] = m_np_zeros

    def m_np_ones_like(interp, x, **kw):
        if isinstance(x, SymArr):
            return const_arr(x.shape, 1.0 if x.kind != "int" else 1, x.kind, np.ndarray)
        return interp.native(np.ones_like, x, **kw)

    M[np.ones_like] = m_np_ones_like

    # ---------------------------------------------------------------- meshgrid
    def _meshgrid(xs, indexing, as_type):
        if len(xs) != 2 or any(not isinstance(x, SymArr) or x.ndim != 1 for x in xs):
            raise OutOfSubset("meshgrid: only two 1-D symbolic inputs are modelled")
        a, b = xs
        if indexing == "ij":
            shape = (a.shape[0], b.shape[0])
            g0 = SymArr(shape, lambda i, j, _a=a.fn: _a(i), a.kind)
            g1 = SymArr(shape, lambda i, j, _b=b.fn: _b(j), b.kind)
        elif indexing == "xy":
            shape = (b.shape[0], a.shape[0])
            g0 = SymArr(shape, lambda i, j, _a=a.fn: _a(j), a.kind)
            g1 = SymArr(shape, lambda i, j, _b=b.fn: _b(i), b.kind)
        else:
            raise RaiseSig(ValueError("indexing must be 'ij' or 'xy'"))
        g0.as_type = g1.as_type = as_type
        return (g0, g1)

    def m_t_meshgrid(interp, *xs, indexing=None):
        if len(xs) == 1 and isinstance(xs[0], (tuple, list)):
            xs = tuple(xs[0])
        if not any(isinstance(x, SymArr) for x in xs):
            return interp.native(torch.meshgrid, *xs, indexing=indexing) if indexing else interp.native(torch.meshgrid, *xs)
        return _meshgrid(xs, indexing or "ij", torch.Tensor)

    M[torch.meshgrid] = m_t_meshgrid

    def m_np_meshgrid(interp, *xs, indexing="xy", **kw):
        if not any(isinstance(x, SymArr) for x in xs):
            return interp.native(np.meshgrid, *xs, indexing=indexing, **kw)
        return _meshgrid(xs, indexing, np.ndarray)

    M[np.meshgrid] = m_np_meshgrid

    # ---------------------------------------------------------------- reductions / misc numpy
    def m_np_sum(interp, x, axis=None, keepdims=False, **kw):
        if isinstance(x, SymArr):
            return reduce_sum(x, axis, keepdims)
        if contains_sym(x):
            raise OutOfSubset("np.sum of a symbolic non-array")
        return interp.native(np.sum, x, axis=axis, keepdims=keepdims, **kw)

    M[np.sum] = m_np_sum

    def m_np_mean(interp, x, axis=None, keepdims=False, **kw):
        if isinstance(x, SymArr):
            return reduce_mean(x, axis, keepdims)
        return interp.native(np.mean, x, axis=axis, keepdims=keepdims, **kw)

    M[np.mean] = m_np_mean

    def m_np_stack(interp, xs, axis=0, **kw):
        xs = list(xs)
        if not any(isinstance(x, SymArr) for x in xs):
            return interp.native(np.stack, xs, axis=axis, **kw)
        return stack(xs, axis, np.ndarray)

    M[np.stack] = m_np_stack

    def m_t_stack(interp, xs, dim=0, **kw):
        xs = list(xs)
        if not any(isinstance(x, SymArr) for x in xs):
            return interp.native(torch.stack, xs, dim=dim)
        return stack(xs, dim, torch.Tensor)

    M[torch.stack] = m_t_stack
    if torch.cat in M:
        for alias in (getattr(torch, "concatenate", None), getattr(torch, "concat", None)):
            if alias is not None and alias not in M:
                M[alias] = M[torch.cat]  # documented aliases of torch.cat

    def m_np_isfinite(interp, x, **kw):
        if isinstance(x, SymArr):
            return const_arr(x.shape, True, "bool", np.ndarray)  # A1: every real is finite
        if isinstance(x, Sym):
            return True
        return interp.native(np.isfinite, x, **kw)

    M[np.isfinite] = m_np_isfinite

    def m_np_array_equal(interp, a, b, **kw):
        """np.array_equal of two SHAPE tuples (ints / symbolic ints): same length and equal entries."""
        if not contains_sym((a, b)):
            return interp.native(np.array_equal, a, b, **kw)
        if not all(isinstance(x, (tuple, list, torch.Size)) for x in (a, b)):
            raise OutOfSubset("np.array_equal of symbolic arrays")
        if len(a) != len(b):
            return False
        return Sym(z3.And(*[lift(x) == lift(y) for x, y in zip(a, b)])) if len(a) else True

    M[np.array_equal] = m_np_array_equal

    def _array_of_arrays(prev, real):
        def h(interp, x, *a, **kw):
            # np.array / np.asarray of a tuple / list of equal-shape arrays: the arrays stacked along a new leading axis
            if isinstance(x, (tuple, list)) and len(x) >= 1 and all(isinstance(e, SymArr) and not e.pylist and e.ndim >= 1 for e in x):
                if not all(e.ndim == x[0].ndim and all(_same_dim(p, q) for p, q in zip(e.shape, x[0].shape)) for e in x[1:]):
                    raise OutOfSubset("np.array of arrays whose shapes are not known to be equal")
                return stack(list(x), 0, np.ndarray)
            if prev is not None:
                return prev(interp, x, *a, **kw)
            return interp.native(real, x, *a, **kw)
        return h

    for _f in (np.array, np.asarray):
        M[_f] = _array_of_arrays(M.get(_f), _f)

    def m_t_sum(interp, x, dim=None, keepdim=False, **kw):
        if "axis" in kw and dim is None:
            dim = kw.pop("axis")
        if isinstance(x, SymArr):
            return reduce_sum(x, dim, keepdim)
        return interp.native(torch.sum, x, dim=dim, keepdim=keepdim) if dim is not None else interp.native(torch.sum, x)

    M[torch.sum] = m_t_sum

    def m_t_mean(interp, x, dim=None, keepdim=False, **kw):
        if "axis" in kw and dim is None:
            dim = kw.pop("axis")
        if isinstance(x, SymArr):
            return reduce_mean(x, dim, keepdim)
        return interp.native(torch.mean, x, dim=dim, keepdim=keepdim) if dim is not None else interp.native(torch.mean, x)

    M[torch.mean] = m_t_mean

    def m_t_deg2rad(interp, x, **kw):
        if isinstance(x, SymArr):
            return _like(elementwise(lambda e: S(e) * Sym(V.PI) / 180, x, kind="real"), x)
        if isinstance(x, Sym):
            return x * Sym(V.PI) / 180
        return interp.native(torch.deg2rad, x, **kw)

    M[torch.deg2rad] = m_t_deg2rad

    def m_t_flip(interp, x, dims):
        if isinstance(x, SymArr):
            return flip(x, (dims,))
        return interp.native(torch.flip, x, dims)

    M[torch.flip] = m_t_flip

    def m_t_argmin(interp, x, dim=None, keepdim=False):
        if isinstance(x, SymArr):
            if dim is not None or x.ndim != 1:
                raise OutOfSubset("torch.argmin along an axis of a symbolic array")
            i = interp.ctx.fresh("argmin", "int")  # some position of the array (which one is unspecified)
            interp.ctx.assume(z3.And(i.t >= 0, i.t < lift(x.shape[0])))
            return i
        return interp.native(torch.argmin, x) if dim is None else interp.native(torch.argmin, x, dim=dim, keepdim=keepdim)

    M[torch.argmin] = m_t_argmin
    M[torch.argmax] = m_t_argmin

    # element of a CONCRETE tensor at a symbolic position: some real number (its value is unspecified)
    prev_tget = reg.getitem_models.get(torch.Tensor)

    def tensor_getitem(interp, base, key):
        if isinstance(key, Sym) and base.ndim == 1:
            n = base.shape[0]
            if interp.ctx.branch(z3.Or(key.t < -n, key.t >= n)):
                raise RaiseSig(IndexError("index out of range"))
            return interp.ctx.fresh("tensor_element", "real")
        if prev_tget is not None:
            return prev_tget(interp, base, key)
        return NotImplemented

    reg.getitem_models[torch.Tensor] = tensor_getitem

    # ---------------------------------------------------------------- grid_sample at integer pixel coordinates
    def m_grid_sample(interp, inp, grid, mode="bilinear", padding_mode="zeros", align_corners=None):
        if not (isinstance(inp, SymArr) or isinstance(grid, SymArr)):
            return interp.native(F.grid_sample, inp, grid, mode=mode, padding_mode=padding_mode, align_corners=align_corners)
        if mode not in ("bilinear", "nearest"):
            raise OutOfSubset(f"grid_sample mode {mode!r} is not modelled")
        if inp.ndim != 4 or grid.ndim != 4:
            raise OutOfSubset("grid_sample: only 4-D input / grid are modelled")
        if V._dim_lit(grid.shape[3]) != 2:
            raise RaiseSig(RuntimeError("grid_sample: grid must have size 2 in the last dimension"))
        if not _same_dim(inp.shape[0], grid.shape[0]):
            raise RaiseSig(RuntimeError("grid_sample: grid and input must have the same batch size"))
        Hin, Win = lift(inp.shape[2]), lift(inp.shape[3])
        ctx = interp.ctx
        other = z3.Function(ctx.fresh_name("grid_sample_interp"), z3.IntSort(), z3.IntSort(), z3.IntSort(), z3.IntSort(), z3.RealSort())

        def unnorm(g, n):
            g = _to_real(g)
            if align_corners:
                return (g + 1) / 2 * z3.ToReal(n - 1)
            return ((g + 1) * z3.ToReal(n) - 1) / 2

        def fn(n, c, y, x, _inp=NS_fn(inp), _grid=NS_fn(grid)):
            ix = cancel_division(unnorm(_grid.fn(n, y, x, z3.IntVal(0)), Win))
            iy = cancel_division(unnorm(_grid.fn(n, y, x, z3.IntVal(1)), Hin))
            px, py = z3.simplify(z3.ToInt(ix)), z3.simplify(z3.ToInt(iy))
            exact = z3.And(ix == z3.ToReal(px), iy == z3.ToReal(py), px >= 0, px < Win, py >= 0, py < Hin)
            pixel = lift(_inp.fn(n, c, py, px))
            if entails(exact):
                return Sym(pixel)
            return Sym(z3.If(exact, pixel, other(n, c, y, x)))

        r = SymArr((inp.shape[0], inp.shape[1], grid.shape[1], grid.shape[2]), fn, "real")
        r.as_type = torch.Tensor
        return r

    M[F.grid_sample] = m_grid_sample

    # ---------------------------------------------------------------- itertools.product of ranges, tqdm
    def m_product(interp, *its, repeat=1):
        if repeat != 1 or not any(isinstance(i, SymRange) and not i.is_concrete() for i in its):
            its2 = [i.concrete() if isinstance(i, SymRange) else i for i in its]
            return interp.native(itertools.product, *its2, repeat=repeat)
        if len(its) != 2:
            raise OutOfSubset("itertools.product: only two ranges are modelled symbolically")
        fams = []
        for it in its:
            if isinstance(it, range):
                it = SymRange(it.start, it.stop, it.step)
            if not isinstance(it, SymRange):
                raise OutOfSubset("itertools.product of a non-range with symbolic length")
            n = it.count()
            if isinstance(n, Sym) and it.step == 1 and V.cur().entails(lift(S(it.stop) - S(it.start)) > 0):
                n = S(it.stop) - S(it.start)  # non-empty range: the count is stop - start
            fams.append((n, it))
        (n0, r0), (n1, r1) = fams
        n1t = lift(n1)

        n0t = lift(n0)

        def fn(k):
            # hint (proved as an obligation, then available to path pruning): the k-th pair lies inside the two ranges
            V.cur().prove("itertools.product:k-th-pair-in-range",
                          z3.Implies(z3.And(k >= 0, k < n0t * n1t, n1t > 0), z3.And(k / n1t >= 0, k / n1t < n0t, k % n1t >= 0, k % n1t < n1t)), kind="hint")
            return (S(r0.start) + Sym(k / n1t) * r0.step, S(r1.start) + Sym(k % n1t) * r1.step)

        r = SymArr((S(n0) * S(n1),), fn, "obj", True)
        return r

    M[itertools.product] = m_product

    import tqdm as _tq
    import tqdm.auto as _tqa

    def m_tqdm(interp, iterable=None, *a, **kw):
        return iterable

    reg.noop_calls.discard("tqdm")
    for f in {_tq.tqdm, _tqa.tqdm}:
        M[f] = m_tqdm
