"""TRUSTED library models needed by C10 (object / probe constraints).  Nothing here is about quantem: every entry states the
contract of a Python / torch facility on symbolic values (A1 floats are reals, A4 transcendental symbols, A5 Parseval, A6 torch).

Two value domains for complex tensors:

1. PIXEL domain  - `CT(re, im)`: a complex tensor as two real index-function arrays (or two real scalars).  Arithmetic is
   the field arithmetic of C; `angle` = atan2(im, re); `abs` = sqrt(re^2+im^2); `exp(a+ib)` = exp(a)(cos b, sin b).
   Used for the pointwise object constraints (one generic pixel).

2. INNER-PRODUCT domain - `AT(lead, fn)`: a stack of complex images whose two trailing (pixel) axes are *abstract*: every
   image is an element of a complex vector space, represented as a finite linear combination of atoms of an uninterpreted
   sort `Vec` (case splits allowed).  The only observations are pixel sums:
        torch.sum(x.conj() * y)                 =  <x, y>      (conjugate-linear in x, linear in y)
        torch.sum(x.real.square()+x.imag.square()) = torch.sum(torch.abs(x).square()) = Re <x, x>
   `<.,.>` is the uninterpreted pair (ip_re, ip_im) on atoms; the model expands pixel sums of linear combinations by
   sesquilinearity (finite sums commute - textbook); conjugate symmetry / positivity / Parseval (fft2 with norm="ortho"
   preserves <.,.>, A5) are the axioms `ip_axioms()` that a contract assumes explicitly.
   `cj` is pointwise conjugation (conj(conj x) = x, <cj x, cj y> = conj <x, y>).

Other models: torch.argsort (a permutation sorting the keys - trusted), tensor.max/min/any (abstract scalars with the
defining bound), boolean-mask gather, torch.max(a, b), mean, complex(), stack, tensor(), full-slice assignment.
"""
from __future__ import annotations

import operator

import numpy as np
import torch
import z3

from .. import values as V
from .. import reals
from ..values import Sym, SymArr, S, lift, contains_sym, OutOfSubset, elementwise, ite
from ..interp import RaiseSig

R = z3.RealSort()
ZERO, ONE = z3.RealVal(0), z3.RealVal(1)


def rterm(x):
    """python number / Sym -> z3 Real term"""
    t = V._num(lift(x))
    return z3.ToReal(t) if z3.is_int(t) else t


def _is_num(x):
    return isinstance(x, (int, float)) and not isinstance(x, bool)


def _is0(x):
    return _is_num(x) and x == 0


def _is1(x):
    return _is_num(x) and x == 1


# real "parts" are SymArr | Sym | python number; python 0 / 1 are kept symbolic-free so terms stay small
def p_add(a, b):
    if _is0(a):
        return b
    if _is0(b):
        return a
    return a + b


def p_neg(a):
    if _is0(a):
        return 0
    return -a


def p_sub(a, b):
    if _is0(b):
        return a
    if _is0(a):
        return p_neg(b)
    return a - b


def p_mul(a, b):
    if _is0(a) or _is0(b):
        return 0
    if _is1(a):
        return b
    if _is1(b):
        return a
    if isinstance(a, Sym) and isinstance(b, SymArr):
        return b * a
    return a * b


def p_div(a, b):
    if _is0(a):
        return 0
    if _is1(b):
        return a
    if isinstance(a, SymArr) or isinstance(b, SymArr):
        if not isinstance(a, SymArr):
            return elementwise(lambda y: V._realdiv(a, y), b)
        return a / b
    return V._realdiv(a, b)


def p_fun(name, a):
    if isinstance(a, SymArr):
        return elementwise(lambda e: reals.app(name, e), a)
    return reals.app(name, a)


def p_index(a, key):
    return a[key] if isinstance(a, SymArr) else a


# ------------------------------------------------------------------------------------------------------------------
# 1. pixel domain
# ------------------------------------------------------------------------------------------------------------------


class CT:
    """Complex tensor / complex scalar as (re, im) real parts."""

    _pyvc_value = True
    as_type = torch.Tensor

    def __init__(self, re, im):
        self.re, self.im = re, im
        self.writes = 0

    def _arr(self):
        for p in (self.re, self.im):
            if isinstance(p, SymArr):
                return p
        return None

    @property
    def _version(self):
        # torch's in-place modification counter: the write counters of this tensor and of its parts stand for it
        return self.writes + sum(getattr(p, "writes", 0) for p in (self.re, self.im) if isinstance(p, SymArr))

    @property
    def shape(self):
        a = self._arr()
        return a.shape if a is not None else ()

    @property
    def ndim(self):
        return len(self.shape)

    def dim(self):
        return self.ndim

    @property
    def real(self):
        return self.re

    @property
    def imag(self):
        return self.im

    device = "cpu"
    dtype = torch.complex64

    def is_complex(self):
        return True

    def numel(self):
        a = self._arr()
        return a.numel() if a is not None else 1

    def conj(self):
        return CT(self.re, p_neg(self.im))

    def angle(self):
        re, im = self.re, self.im
        if isinstance(re, SymArr) or isinstance(im, SymArr):
            return elementwise(lambda y, x: reals.app("atan2", y, x), im, re)
        return reals.app("atan2", im, re)

    def abs(self):
        return p_fun("sqrt", p_add(p_mul(self.re, self.re), p_mul(self.im, self.im)))

    __abs__ = abs

    def square(self):
        return c_mul(self, self)

    def clone(self):
        return CT(self.re.copy() if isinstance(self.re, SymArr) else self.re, self.im.copy() if isinstance(self.im, SymArr) else self.im)

    copy = clone

    def detach(self):
        return self

    def to(self, *a, **k):
        return self

    def type(self, *a, **k):
        return self

    def contiguous(self):
        return self

    def cpu(self):
        return self

    def _red(self, name, dim, keepdim):
        def one(p):
            if isinstance(p, SymArr):
                return getattr(p, name)(dim=dim, keepdim=keepdim)
            if name == "mean":
                return p
            raise OutOfSubset("sum of a scalar part of a complex tensor")
        return CT(one(self.re), one(self.im))

    def mean(self, dim=None, keepdim=False, axis=None, keepdims=False):
        return self._red("mean", dim if dim is not None else axis, keepdim or keepdims)

    def sum(self, dim=None, keepdim=False, axis=None, keepdims=False):
        return self._red("sum", dim if dim is not None else axis, keepdim or keepdims)

    def __getitem__(self, key):
        return CT(p_index(self.re, key), p_index(self.im, key))

    def __setitem__(self, key, value):
        full_slice_assign(self, key, value)

    def _pyvc_inplace(self, op, new):
        if isinstance(new, CT):
            self.re, self.im = new.re, new.im
            self.writes += 1
            return self
        return new

    def __repr__(self):
        return f"CT(shape={self.shape})"

    # python operators (the interpreter normally goes through the registered binop models; these are for model code)
    def __mul__(self, o):
        return c_mul(self, o)

    __rmul__ = __mul__

    def __add__(self, o):
        return c_add(self, o)

    __radd__ = __add__

    def __sub__(self, o):
        return c_sub(self, o)

    def __rsub__(self, o):
        return c_sub(o, self)

    def __truediv__(self, o):
        return c_div(self, o)

    def __rtruediv__(self, o):
        return c_div(o, self)

    def __neg__(self):
        return CT(p_neg(self.re), p_neg(self.im))


def parts(x):
    if isinstance(x, CT):
        return x.re, x.im
    if isinstance(x, complex):
        return x.real, x.imag
    return x, 0


def c_add(a, b):
    (ar, ai), (br, bi) = parts(a), parts(b)
    return CT(p_add(ar, br), p_add(ai, bi))


def c_sub(a, b):
    (ar, ai), (br, bi) = parts(a), parts(b)
    return CT(p_sub(ar, br), p_sub(ai, bi))


def c_mul(a, b):
    (ar, ai), (br, bi) = parts(a), parts(b)
    return CT(p_sub(p_mul(ar, br), p_mul(ai, bi)), p_add(p_mul(ar, bi), p_mul(ai, br)))


def c_div(a, b):
    (ar, ai), (br, bi) = parts(a), parts(b)
    if _is0(bi):
        return CT(p_div(ar, br), p_div(ai, br))
    d = p_add(p_mul(br, br), p_mul(bi, bi))
    return CT(p_div(p_add(p_mul(ar, br), p_mul(ai, bi)), d), p_div(p_sub(p_mul(ai, br), p_mul(ar, bi)), d))


def c_exp(x):
    re, im = parts(x)
    c, s = p_fun("cos", im), p_fun("sin", im)
    if _is0(re):
        return CT(c, s)
    m = p_fun("exp", re)
    return CT(p_mul(m, c), p_mul(m, s))


def _broadcast_to(val, shape):
    """real part `val` (SymArr of broadcast-compatible shape or scalar) as an index function of `shape`."""
    if not isinstance(val, SymArr):
        return lambda *idx, _v=val: _v
    nd = len(shape)
    off = nd - val.ndim
    if off < 0:
        raise OutOfSubset("assignment of a higher-rank value")
    for j in range(val.ndim):
        if V._dim_lit(val.shape[j]) != 1 and not V.dims_equal(val.shape[j], shape[off + j]):
            raise OutOfSubset("cannot prove broadcast compatibility in slice assignment")
    vfn = val.fn

    def fn(*idx, _v=val, _f=vfn):
        sub = [z3.IntVal(0) if V._dim_lit(_v.shape[j]) == 1 else idx[off + j] for j in range(_v.ndim)]
        return _f(*sub)

    return fn


def _is_full_slice(key):
    ks = key if isinstance(key, tuple) else (key,)
    return all(isinstance(k, slice) and k.start is None and k.stop is None and k.step is None for k in ks) or key is Ellipsis


def full_slice_assign(base, key, value):
    """x[:] = v  (v broadcast to x's shape); in place: aliases of x see it."""
    if not _is_full_slice(key):
        raise OutOfSubset("only full-slice assignment x[:] = v is modelled for symbolic tensors")
    if isinstance(base, CT):
        vr, vi = parts(value)
        for name, v in (("re", vr), ("im", vi)):
            p = getattr(base, name)
            if isinstance(p, SymArr):
                p.fn = _broadcast_to(v, p.shape)
                p.writes += 1
            else:
                raise OutOfSubset("slice assignment into a scalar complex part")
        base.writes += 1
        return
    if isinstance(value, CT):
        raise RaiseSig(TypeError("cannot assign a complex tensor into a real tensor"))
    base.fn = _broadcast_to(value, base.shape)
    base.writes += 1


def _tensor_copy(x):
    r = x.copy()
    r.as_type = getattr(x, "as_type", torch.Tensor)
    return r


def fresh_complex(ctx, name, shape):
    return CT(ctx.fresh_arr(name + "_re", shape, "real"), ctx.fresh_arr(name + "_im", shape, "real"))


# ------------------------------------------------------------------------------------------------------------------
# 2. inner-product domain
# ------------------------------------------------------------------------------------------------------------------

VS = z3.DeclareSort("Vec")
IPR = z3.Function("ip_re", VS, VS, R)
IPI = z3.Function("ip_im", VS, VS, R)
FT = z3.Function("fft2_ortho", VS, VS)
CJ = z3.Function("cj", VS, VS)


def ip_axioms():
    """The axioms of the abstract complex inner-product space (assumed explicitly by the contracts that use it)."""
    x, y = z3.Const("x!v", VS), z3.Const("y!v", VS)
    return [
        ("conjugate-symmetry", z3.ForAll([x, y], z3.And(IPR(x, y) == IPR(y, x), IPI(x, y) == -IPI(y, x)), patterns=[IPR(x, y), IPI(x, y)])),
        ("positivity", z3.ForAll([x], z3.And(IPR(x, x) >= 0, IPI(x, x) == 0), patterns=[IPR(x, x), IPI(x, x)])),
    ]


def _simp(t):
    return z3.simplify(t)


def _zero_term(t):
    s = _simp(t)
    return z3.is_rational_value(s) and s.numerator_as_long() == 0


def cmul(a, b):
    """complex product of coefficient pairs (z3 real terms)"""
    (ar, ai), (br, bi) = a, b
    return (_simp(ar * br - ai * bi), _simp(ar * bi + ai * br))


def atom_cj(a):
    if z3.is_app(a) and a.decl().eq(CJ):
        return a.arg(0)
    return CJ(a)


def ip_atoms(a, b):
    """<a, b> for atoms, using Parseval (both under fft2_ortho) and <cj x, cj y> = conj <x, y> structurally."""
    if z3.is_app(a) and z3.is_app(b):
        if a.decl().eq(FT) and b.decl().eq(FT):
            return ip_atoms(a.arg(0), b.arg(0))
        if a.decl().eq(CJ) and b.decl().eq(CJ):
            r, i = ip_atoms(a.arg(0), b.arg(0))
            return r, -i
    return IPR(a, b), IPI(a, b)


class AV:
    """abstract vector: ('lin', [(cr, ci, atom)])  or  ('ite', cond, AV, AV)"""

    __slots__ = ("kind", "terms", "cond", "a", "b")

    def __init__(self, kind, terms=None, cond=None, a=None, b=None):
        self.kind, self.terms, self.cond, self.a, self.b = kind, terms, cond, a, b


def av_lin(terms):
    merged = []
    for cr, ci, at in terms:
        for k, (mr, mi, ma) in enumerate(merged):
            if ma.eq(at):
                merged[k] = (mr + cr, mi + ci, ma)
                break
        else:
            merged.append((cr, ci, at))
    out = []
    for cr, ci, at in merged:
        cr, ci = _simp(cr), _simp(ci)
        if _zero_term(cr) and _zero_term(ci):
            continue
        out.append((cr, ci, at))
    return AV("lin", out)


def av_atom(at):
    return AV("lin", [(ONE, ZERO, at)])


def av_ite(cond, a, b):
    c = _simp(cond)
    if z3.is_true(c):
        return a
    if z3.is_false(c):
        return b
    return AV("ite", cond=cond, a=a, b=b)


def av_map(x, f):
    if x.kind == "ite":
        return av_ite(x.cond, av_map(x.a, f), av_map(x.b, f))
    return f(x)


def av_scale(x, c):
    return av_map(x, lambda l: av_lin([(*cmul((cr, ci), c), at) for cr, ci, at in l.terms]))


def av_add(x, y, sign=1):
    if x.kind == "ite":
        return av_ite(x.cond, av_add(x.a, y, sign), av_add(x.b, y, sign))
    if y.kind == "ite":
        return av_ite(y.cond, av_add(x, y.a, sign), av_add(x, y.b, sign))
    return av_lin(list(x.terms) + [(cr * sign, ci * sign, at) for cr, ci, at in y.terms])


def av_conj(x):
    return av_map(x, lambda l: av_lin([(cr, -ci, atom_cj(at)) for cr, ci, at in l.terms]))


def av_ft(x):
    return av_map(x, lambda l: av_lin([(cr, ci, FT(at)) for cr, ci, at in l.terms]))


def ip(x, y):
    """<x, y> = sum_pixels conj(x) * y  as a pair of z3 real terms (sesquilinear expansion)."""
    if x.kind == "ite":
        ar, ai = ip(x.a, y)
        br, bi = ip(x.b, y)
        return z3.If(x.cond, ar, br), z3.If(x.cond, ai, bi)
    if y.kind == "ite":
        ar, ai = ip(x, y.a)
        br, bi = ip(x, y.b)
        return z3.If(y.cond, ar, br), z3.If(y.cond, ai, bi)
    re, im = ZERO, ZERO
    for ar, ai, aa in x.terms:
        for br, bi, ba in y.terms:
            kr, ki = cmul((ar, -ai), (br, bi))
            gr, gi = ip_atoms(aa, ba)
            pr, pi = cmul((kr, ki), (gr, gi))
            re, im = re + pr, im + pi
    return _simp(re), _simp(im)


def av_same(x, y):
    if x.kind != y.kind:
        return False
    if x.kind == "ite":
        return x.cond.eq(y.cond) and av_same(x.a, y.a) and av_same(x.b, y.b)
    if len(x.terms) != len(y.terms):
        return False
    return all(a[0].eq(b[0]) and a[1].eq(b[1]) and a[2].eq(b[2]) for a, b in zip(x.terms, y.terms))


class AT:
    """Stack of abstract complex images: lead = () (one image) or (n,) ; fn(*lead index terms) -> AV."""

    _pyvc_value = True
    as_type = torch.Tensor
    device = "cpu"
    dtype = torch.complex64

    def __init__(self, lead, fn, hw=None):
        self.lead = tuple(lead)
        self.fn = fn
        self.hw = hw or (Sym(z3.Int("H!px")), Sym(z3.Int("W!px")))
        self.writes = 0

    @property
    def shape(self):
        return self.lead + tuple(self.hw)

    @property
    def ndim(self):
        return len(self.lead) + 2

    def dim(self):
        return self.ndim

    def is_complex(self):
        return True

    def at(self, *idx):
        return self.fn(*[lift(i) for i in idx])

    def clone(self):
        return AT(self.lead, self.fn, self.hw)

    copy = clone

    def detach(self):
        return self

    def to(self, *a, **k):
        return self

    def type(self, *a, **k):
        return self

    def cpu(self):
        return self

    def contiguous(self):
        return self

    def conj(self):
        f = self.fn
        return AT(self.lead, lambda *i: av_conj(f(*i)), self.hw)

    @property
    def real(self):
        return AR("re", self)

    @property
    def imag(self):
        return AR("im", self)

    def abs(self):
        return AABS(self)

    __abs__ = abs

    def __getitem__(self, key):
        if isinstance(key, tuple):
            if len(key) >= 1 and all(_is_full_slice(k) for k in key[1:]):
                key = key[0]
            else:
                raise OutOfSubset("indexing into the abstract pixel axes of an image stack")
        if isinstance(key, slice):
            if _is_full_slice(key):
                return self
            raise OutOfSubset("partial slice of an abstract image stack")
        if not self.lead:
            raise OutOfSubset("indexing into the abstract pixel axes of an image")
        f = self.fn
        if isinstance(key, SymArr) and key.ndim == 1:
            kf = key.fn
            return AT((key.shape[0],), lambda i: f(lift(kf(i))), self.hw)
        i = SymArr._norm_index(None, key, self.lead[0])
        it = lift(i)
        return AT((), lambda: f(it), self.hw)

    def reshape(self, *shape):
        """only the flattening of the pixel axes is representable: image.reshape(-1) is the same abstract vector"""
        if len(shape) == 1 and isinstance(shape[0], (tuple, list)):
            shape = tuple(shape[0])
        if not self.lead and len(shape) == 1 and _is_num(shape[0]) and shape[0] == -1:
            return AT((), self.fn, self.hw)
        if len(self.lead) == 1 and len(shape) == 2 and _is_num(shape[1]) and shape[1] == -1 and (
                _is_num(shape[0]) and shape[0] == -1 or V.dims_equal(shape[0], self.lead[0])):
            return AT(self.lead, self.fn, self.hw)
        raise OutOfSubset("reshape of an abstract image stack other than flattening the pixel axes")

    view = reshape

    def flatten(self, *a, **k):
        if not self.lead and not a and not k:
            return AT((), self.fn, self.hw)
        raise OutOfSubset("flatten of an abstract image stack")

    ravel = flatten

    def norm(self, p=None, dim=None, keepdim=False):
        return a_norm(self, p, dim, keepdim)

    def square(self):
        return AP(self, self)

    def _pyvc_inplace(self, op, new):
        if isinstance(new, AT):
            self.fn = new.fn
            self.writes += 1
            return self
        return new

    def __repr__(self):
        return f"AT(lead={self.lead})"


class AR:
    """x.real / x.imag of an abstract image stack (only usable through square() + pixel sums, indexing, torch.complex)."""

    _pyvc_value = True

    def __init__(self, part, src):
        self.part, self.src = part, src

    def square(self):
        return ARS(self.part, self.src)

    def __getitem__(self, key):
        return AR(self.part, self.src[key])


class ARS:
    """a * x.real.square() + b * x.imag.square()  (real quadratic pointwise form; a, b python numbers).
    Pixel sum:  sum re^2 = (N + B)/2,  sum im^2 = (N - B)/2  with N = Re <x, x>, B = Re sum x*x = Re <cj x, x>."""

    _pyvc_value = True

    def __init__(self, part, src, a=None, b=None):
        self.part, self.src = part, src
        self.a = a if a is not None else (1 if part == "re" else 0)
        self.b = b if b is not None else (1 if part == "im" else 0)

    def sum(self, dim=None, keepdim=False, axis=None, keepdims=False):
        return pixel_sum(self, dim if dim is not None else axis, keepdim or keepdims)


class AABS:
    """torch.abs(x) of an abstract image stack"""

    _pyvc_value = True

    def __init__(self, src):
        self.src = src

    def square(self):
        return AAS(self.src)


class AAS:
    """|x|^2 pointwise (real, non-negative)"""

    _pyvc_value = True

    def __init__(self, src):
        self.src = src

    def sum(self, dim=None, keepdim=False, axis=None, keepdims=False):
        return pixel_sum(self, dim if dim is not None else axis, keepdim or keepdims)


class AP:
    """pointwise product x * y of two abstract images (bilinear)"""

    _pyvc_value = True

    def __init__(self, x, y):
        self.x, self.y = x, y

    def sum(self, dim=None, keepdim=False, axis=None, keepdims=False):
        return pixel_sum(self, dim if dim is not None else axis, keepdim or keepdims)


def _generic_idx(lead):
    return [z3.Int(f"g!{d}") for d in range(len(lead))]


def at_same(x, y):
    if x is y:
        return True
    if len(x.lead) != len(y.lead):
        return False
    for a, b in zip(x.lead, y.lead):
        if not V.dims_equal(a, b):
            return False
    g = _generic_idx(x.lead)
    return av_same(x.fn(*g), y.fn(*g))


def at_scale_fn(x, coef_fn):
    f = x.fn
    return AT(x.lead, lambda *i: av_scale(f(*i), coef_fn(*i)), x.hw)


def _coef_of(v, lead):
    """scalar or per-lead-index scale factor -> function(*lead idx) -> (re, im) coefficient terms"""
    if isinstance(v, CT):
        if v.ndim == 0:
            cr, ci = rterm(v.re), rterm(v.im)
            return lambda *i: (cr, ci)
        raise OutOfSubset("complex tensor factor on an abstract image stack")
    if isinstance(v, complex):
        cr, ci = rterm(v.real), rterm(v.imag)
        return lambda *i: (cr, ci)
    if isinstance(v, SymArr):
        if v.ndim == 0:
            t = rterm(v.fn())
            return lambda *i: (t, ZERO)
        if v.ndim == len(lead) + 2 and all(V._dim_lit(d) == 1 for d in v.shape[len(lead):]) and lead:
            if not (V._dim_lit(v.shape[0]) == 1 or V.dims_equal(v.shape[0], lead[0])):
                raise OutOfSubset("cannot prove broadcast compatibility of the per-mode factor")
            one = V._dim_lit(v.shape[0]) == 1 and V._dim_lit(lead[0]) != 1
            vf = v.fn
            return lambda *i: (rterm(vf(*([z3.IntVal(0)] if one else list(i)), *([z3.IntVal(0)] * 2))), ZERO)
        raise OutOfSubset(f"real tensor factor of shape {v.shape} on an abstract image stack (pixel-dependent factors are not representable)")
    t = rterm(v)
    return lambda *i: (t, ZERO)


def a_binop(interp, op, a, b):
    """arithmetic of the inner-product domain"""
    if isinstance(a, ARS) and isinstance(b, ARS) and op in (operator.add, operator.sub):
        if not at_same(a.src, b.src):
            raise OutOfSubset("sum of squared parts of different abstract images")
        sg = 1 if op is operator.add else -1
        ca, cb = a.a + sg * b.a, a.b + sg * b.b
        if ca == 1 and cb == 1:
            return AAS(a.src)
        return ARS("mix", a.src, ca, cb)
    if isinstance(a, ARS) and _is_num(b) and op in (operator.mul, operator.truediv) or isinstance(b, ARS) and _is_num(a) and op is operator.mul:
        q, c = (a, b) if isinstance(a, ARS) else (b, a)
        c = c if op is operator.mul else 1.0 / c
        return ARS("mix", q.src, q.a * c, q.b * c)
    if isinstance(a, AT) and isinstance(b, AT):
        if op is operator.mul:
            return AP(a, b)
        if op in (operator.add, operator.sub):
            if len(a.lead) != len(b.lead) or any(not V.dims_equal(x, y) for x, y in zip(a.lead, b.lead)):
                raise OutOfSubset("abstract image stacks of different leading shape")
            fa, fb, sg = a.fn, b.fn, (1 if op is operator.add else -1)
            return AT(a.lead, lambda *i: av_add(fa(*i), fb(*i), sg), a.hw)
        raise OutOfSubset(f"{op.__name__} of two abstract image stacks")
    if isinstance(a, AT) and not isinstance(b, (AR, ARS, AABS, AAS, AP)):
        if op is operator.mul:
            return at_scale_fn(a, _coef_of(b, a.lead))
        if op is operator.truediv:
            cf = _coef_of(b, a.lead)

            def inv(*i):
                cr, ci = cf(*i)
                if not _zero_term(ci):
                    raise OutOfSubset("division of an abstract image by a complex scalar")
                return (ONE / cr, ZERO)

            return at_scale_fn(a, inv)
        if op in (operator.add, operator.sub) and _is0(b):
            return a
        raise OutOfSubset(f"{op.__name__} of an abstract image stack and {type(b).__name__}")
    if isinstance(b, AT) and not isinstance(a, (AR, ARS, AABS, AAS, AP)):
        if op is operator.mul:
            return at_scale_fn(b, _coef_of(a, b.lead))
        raise OutOfSubset(f"{op.__name__} of {type(a).__name__} and an abstract image stack")
    raise OutOfSubset(f"{op.__name__} on {type(a).__name__}, {type(b).__name__} in the inner-product domain")


def pixel_sum(x, dim=None, keepdim=False):
    """torch.sum over (at least) the two abstract pixel axes."""
    if isinstance(x, AAS):
        src = x.src
        val = lambda *i: Sym(ip(src.fn(*i), src.fn(*i))[0])
        lead = src.lead
        is_c = False
    elif isinstance(x, ARS):
        src, qa, qb = x.src, x.a, x.b

        def val(*i):
            v = src.fn(*i)
            N = ip(v, v)[0]
            B = ip(av_conj(v), v)[0]
            half = z3.RealVal("1/2")
            return Sym(_simp(rterm(qa) * half * (N + B) + rterm(qb) * half * (N - B)))

        lead = src.lead
        is_c = False
    elif isinstance(x, AP):
        if x.x.lead != () or x.y.lead != ():
            if len(x.x.lead) != len(x.y.lead) or any(not V.dims_equal(p, q) for p, q in zip(x.x.lead, x.y.lead)):
                raise OutOfSubset("pixel sum of a product of stacks with different leading shape")
        lead = x.x.lead
        fx, fy = x.x.fn, x.y.fn
        val = lambda *i: ip(av_conj(fx(*i)), fy(*i))
        is_c = True
    else:
        raise OutOfSubset(f"pixel sum of {type(x).__name__}")
    nd = len(lead) + 2
    if dim is None:
        dims = tuple(range(nd))
    else:
        dims = tuple(sorted(d % nd for d in (dim if isinstance(dim, (tuple, list)) else (dim,))))
    if not (nd - 1 in dims and nd - 2 in dims):
        raise OutOfSubset("partial sum over the abstract pixel axes")
    over_lead = 0 in dims and len(lead) == 1
    if not lead:
        v = val()
        if is_c:
            return CT(Sym(v[0]), Sym(v[1]))
        return v
    shape = lead + ((1, 1) if keepdim else ())

    def mk(k):
        def fn(*idx):
            r = val(idx[0])
            return Sym(r[k]) if is_c else r
        a = SymArr(shape, fn, "real")
        a.as_type = torch.Tensor
        return a

    if is_c:
        out = CT(mk(0), mk(1))
        if over_lead:
            return out.sum(dim=0, keepdim=keepdim)
        return out
    out = mk(0)
    if over_lead:
        return out.sum(dim=0, keepdim=keepdim) if keepdim else out.sum()
    return out


def a_norm(x, p=None, dim=None, keepdim=False):
    """Frobenius / 2-norm over the pixel axes: sqrt(Re <x, x>)"""
    if p not in (None, 2, "fro", 2.0):
        raise OutOfSubset("norm of an abstract image other than the 2-norm")
    if not isinstance(x, AT):
        raise OutOfSubset("norm of this abstract value")
    if not x.lead and dim is None or x.lead == () and dim is not None:
        r = pixel_sum(AAS(x), None, False)
        return reals.app("sqrt", r)
    if dim is None:
        return reals.app("sqrt", pixel_sum(AAS(x), None, False))
    r = pixel_sum(AAS(x), dim, keepdim)
    return p_fun("sqrt", r) if isinstance(r, SymArr) else reals.app("sqrt", r)


def a_vdot(x, y, conj_first=True):
    """torch.vdot(x, y) = sum conj(x) * y = <x, y>;  torch.dot(x, y) = sum x * y = <cj x, y>"""
    if not (isinstance(x, AT) and isinstance(y, AT) and x.lead == () and y.lead == ()):
        raise OutOfSubset("vdot / dot of values that are not single abstract images")
    a = x.fn() if conj_first else av_conj(x.fn())
    r, i = ip(a, y.fn())
    return CT(Sym(r), Sym(i))


class AList:
    """A Python list of abstract images with symbolic length (loop-carried `xs.append(..)` lists)."""

    _pyvc_value = True

    def __init__(self, n, fn, hw=None):
        self.n, self.fn, self.hw = n, fn, hw

    def append(self, x):
        if not (isinstance(x, AT) and x.lead == ()):
            raise OutOfSubset("append of a non-image to a symbolic list of images")
        old, n, v = self.fn, lift(self.n), x.fn()
        self.fn = lambda i, _o=old, _n=n, _v=v: av_ite(i == _n, _v, _o(i))
        self.n = S(self.n) + 1
        if self.hw is None:
            self.hw = x.hw

    def __getitem__(self, key):
        i = SymArr._norm_index(None, key, self.n)
        it, f = lift(i), self.fn
        return AT((), lambda: f(it), self.hw)

    def __len__(self):
        return S(self.n).__index__()

    def sym_len(self):
        return self.n


def as_alist(x):
    if isinstance(x, AList):
        return x
    if isinstance(x, list) and all(isinstance(e, AT) and e.lead == () for e in x):
        els = [e.fn() for e in x]

        def fn(i, _els=els):
            if not _els:
                return AV("lin", [])
            r = _els[-1]
            for j in range(len(_els) - 2, -1, -1):
                r = av_ite(i == j, _els[j], r)
            return r

        return AList(len(x), fn, x[0].hw if x else None)
    raise OutOfSubset("list of abstract images expected")


def fresh_vec_fn(ctx, name, nargs=1):
    f = z3.Function(ctx.fresh_name(name), *([z3.IntSort()] * nargs), VS) if nargs else z3.Const(ctx.fresh_name(name), VS)
    if nargs:
        return (lambda *i: av_atom(f(*i))), f
    return (lambda: av_atom(f)), f


def fresh_stack(ctx, name, n):
    fn, f = fresh_vec_fn(ctx, name, 1)
    t = AT((n,), fn)
    t.func = f
    return t


def fresh_image(ctx, name):
    fn, f = fresh_vec_fn(ctx, name, 0)
    t = AT((), fn)
    t.func = f
    return t


def fresh_alist(ctx, name, n):
    fn, f = fresh_vec_fn(ctx, name, 1)
    l = AList(n, fn)
    l.func = f
    return l


# ------------------------------------------------------------------------------------------------------------------
# install
# ------------------------------------------------------------------------------------------------------------------

_A_TYPES = (AT, AR, ARS, AABS, AAS, AP, AList)
_OPS = (operator.add, operator.sub, operator.mul, operator.truediv)


def install(reg):
    M = reg.models

    # ---- arithmetic ------------------------------------------------------------------------------------------------
    def ct_binop(interp, op, a, b):
        if isinstance(a, _A_TYPES) or isinstance(b, _A_TYPES):
            return a_binop(interp, op, a, b)
        if not (isinstance(a, (CT, complex)) or isinstance(b, (CT, complex))):
            return NotImplemented
        other = b if isinstance(a, (CT, complex)) else a
        if isinstance(a, complex) and isinstance(b, complex):
            return NotImplemented
        if not isinstance(other, (CT, complex, Sym, SymArr, int, float)):
            return NotImplemented
        if isinstance(a, complex) and not isinstance(b, (CT, Sym, SymArr)) or isinstance(b, complex) and not isinstance(a, (CT, Sym, SymArr)):
            return NotImplemented
        f = {operator.add: c_add, operator.sub: c_sub, operator.mul: c_mul, operator.truediv: c_div}.get(op)
        if f is None:
            raise OutOfSubset(f"{op.__name__} on complex tensors")
        return f(a, b)

    for op in _OPS:
        for t in (CT, complex) + _A_TYPES:
            reg.binop_models[(t, op)] = ct_binop

    def a_pow(interp, op, a, b):
        e = b.literal() if isinstance(b, Sym) else b
        if _is_num(e) and e == 2:
            if isinstance(a, AABS):
                return AAS(a.src)
            if isinstance(a, AR):
                return ARS(a.part, a.src)
            if isinstance(a, CT):
                return c_mul(a, a)
            if isinstance(a, AT):
                return AP(a, a)
        raise OutOfSubset(f"power of {type(a).__name__}")

    for t in (CT,) + _A_TYPES:
        reg.binop_models[(t, operator.pow)] = a_pow

    # unknown attributes of the model value classes are "outside the modelled subset", not an AttributeError of the program
    def strict_attr(interp, base, name):
        if hasattr(base, name):
            return NotImplemented
        raise OutOfSubset(f"attribute {name!r} of {type(base).__name__} is not modelled")

    for t in (CT,) + _A_TYPES:
        reg.attr_models[t] = strict_attr

    # ---- name-independent loop support: arbitrary value of an abstract image / stack; iteration over a symbolic list of images
    reg.havoc_models = dict(getattr(reg, "havoc_models", {}))
    reg.havoc_models[AT] = lambda ctx, name, old: fresh_image(ctx, name) if old.lead == () else fresh_stack(ctx, name, old.lead[0])
    reg.iter_models = dict(getattr(reg, "iter_models", {}))

    def iter_alist(interp, l):
        f, hw = l.fn, l.hw
        return l.n, (lambda k: AT((), (lambda _k=lift(k): f(_k)), hw))

    reg.iter_models[AList] = iter_alist

    # ---- isinstance / len / list methods ---------------------------------------------------------------------------
    old_isinst = getattr(reg, "isinstance_model", None)

    def isinstance_model(interp, x, t):
        if isinstance(x, (CT, AT)):
            ts = t if isinstance(t, tuple) else (t,)
            return any(k in (torch.Tensor, object) for k in ts)
        if isinstance(x, AList):
            ts = t if isinstance(t, tuple) else (t,)
            return any(k in (list, object) for k in ts)
        if old_isinst:
            return old_isinst(interp, x, t)
        return NotImplemented

    reg.isinstance_model = isinstance_model

    old_len = M[len]

    def m_len(interp, x):
        if isinstance(x, AList):
            return x.n
        if isinstance(x, (CT, AT)):
            if not x.shape:
                raise RaiseSig(TypeError("len() of a 0-d tensor"))
            return x.shape[0]
        return old_len(interp, x)

    M[len] = m_len

    # ---- attributes of symbolic scalars / arrays -------------------------------------------------------------------
    prev_sym_attr = reg.attr_models.get(Sym)

    def sym_attr(interp, base, name):
        if name in ("detach", "clone", "cpu", "item", "float"):
            return lambda *a, **k: base
        if name == "to":
            return lambda *a, **k: base
        if name == "square":
            return lambda: base * base
        if name == "abs":
            return lambda: abs(base)
        if name == "clamp_min":
            return lambda m: V.smax(base, m)
        if name == "clamp_max":
            return lambda m: V.smin(base, m)
        if name == "clamp":
            return lambda min=None, max=None: _clamp_scalar(base, min, max)
        if name == "sqrt":
            return lambda: reals.app("sqrt", base)
        if name in ("shape",):
            return ()
        if name == "ndim":
            return 0
        if prev_sym_attr is not None:
            return prev_sym_attr(interp, base, name)
        return NotImplemented

    reg.attr_models[Sym] = sym_attr

    def _clamp_scalar(x, lo, hi):
        r = x
        if lo is not None:
            r = V.smax(r, lo)
        if hi is not None:
            r = V.smin(r, hi)
        return r

    prev_arr_attr = reg.attr_models.get(SymArr)

    def _extreme(base, which):
        """x.max() / x.min(): an abstract scalar with its defining bound (attained-ness is not needed by any C10 statement)."""
        ctx = V.cur()
        key = "_c10_" + which
        cached = getattr(base, key, None)
        if cached is not None and cached[1] == base.writes:
            return cached[0]
        m = ctx.fresh(which, "real")
        idx = [z3.Int(f"i!{which}{d}") for d in range(base.ndim)]
        rng = z3.And(*[z3.And(i >= 0, i < lift(d)) for i, d in zip(idx, base.shape)]) if idx else z3.BoolVal(True)
        e = rterm(base.fn(*idx))
        body = (e <= m.t) if which == "max" else (e >= m.t)
        ctx.assume(z3.ForAll(idx, z3.Implies(rng, body)) if idx else body)
        setattr(base, key, (m, base.writes))
        return m

    def arr_attr(interp, base, name):
        if base.pylist:
            return prev_arr_attr(interp, base, name) if prev_arr_attr is not None else NotImplemented
        if name == "square":
            return lambda: base * base
        if name == "abs":
            return lambda: abs(base)
        if name == "sqrt":
            return lambda: p_fun("sqrt", base)
        if name in ("max", "min"):
            def ext(*a, **k):
                if a or k:
                    raise OutOfSubset("tensor.max/min with arguments")
                return _extreme(base, name)
            return ext
        if name == "any":
            def any_(*a, **k):
                if a or k:
                    raise OutOfSubset("tensor.any with arguments")
                return V.cur().fresh("any", "bool")
            return any_
        if name == "is_complex":
            return lambda: False
        if name == "angle":
            raise OutOfSubset("angle() of a real tensor")
        if name == "clamp_min":
            return lambda m: elementwise(lambda e: V.smax(e, m), base)
        if name == "clamp":
            return lambda min=None, max=None: elementwise(lambda e: _clamp_scalar(e, min, max), base)
        if name == "type":
            return lambda *a, **k: base
        if name == "real":
            return base
        if name == "conj":
            return lambda: base
        if prev_arr_attr is not None:
            return prev_arr_attr(interp, base, name)
        return NotImplemented

    reg.attr_models[SymArr] = arr_attr

    # ---- boolean-mask gather:  x[mask] = 1-D tensor of the selected entries (row-major) ----------------------------
    def bool_mask_gather(base, mask):
        ctx = V.cur()
        g = getattr(mask, "_gather_ghost", None)
        if g is None:
            nm = ctx.fresh_name("sel")
            count = ctx.fresh(nm + "_count", "int")
            ctx.assume(count.t >= 0)
            pos = [z3.Function(f"{nm}_pos{d}", z3.IntSort(), z3.IntSort()) for d in range(mask.ndim)]
            g = (count, pos)
            mask._gather_ghost = g
        count, pos = g
        if base.ndim != mask.ndim:
            raise OutOfSubset("boolean mask of different rank")
        bf = base.fn
        r = SymArr((count,), lambda j, _p=pos: bf(*[p(j) for p in _p]), base.kind)
        r.as_type = torch.Tensor
        return r

    prev_gi = reg.getitem_models.get(SymArr)

    def gi(interp, base, key):
        if isinstance(key, SymArr) and key.kind == "bool" and not base.pylist:
            return bool_mask_gather(base, key)
        if prev_gi is not None:
            return prev_gi(interp, base, key)
        return NotImplemented

    reg.getitem_models[SymArr] = gi

    prev_si = reg.setitem_models.get(SymArr)

    def si(interp, base, key, value):
        if not base.pylist and (isinstance(key, slice) or key is Ellipsis or isinstance(key, tuple) and any(isinstance(k, slice) for k in key)):
            full_slice_assign(base, key, value)
            return True
        if prev_si is not None:
            return prev_si(interp, base, key, value)
        return NotImplemented

    reg.setitem_models[SymArr] = si

    # ---- torch functions -------------------------------------------------------------------------------------------
    def wrap(f, handler):
        prev = M.get(f)

        def h(interp, *a, **kw):
            r = handler(interp, *a, **kw)
            if r is not NotImplemented:
                return r
            if prev is not None:
                return prev(interp, *a, **kw)
            if contains_sym((a, kw)):
                raise OutOfSubset(f"no model for torch.{getattr(f, '__name__', f)} on these arguments")
            return interp.native(f, *a, **kw)

        M[f] = h

    def m_abs(interp, x):
        if isinstance(x, CT):
            return x.abs()
        if isinstance(x, AT):
            return AABS(x)
        return NotImplemented

    wrap(torch.abs, m_abs)

    def m_angle(interp, x):
        if isinstance(x, CT):
            return x.angle()
        if isinstance(x, (Sym, SymArr, AT)):
            raise OutOfSubset("torch.angle on this value")
        return NotImplemented

    wrap(torch.angle, m_angle)

    def m_exp(interp, x, **kw):
        if isinstance(x, CT):
            return c_exp(x)
        if isinstance(x, AT):
            raise OutOfSubset("exp of an abstract image")
        return NotImplemented

    wrap(torch.exp, m_exp)

    def m_sum(interp, x, dim=None, keepdim=False, **kw):
        if "axis" in kw and dim is None:
            dim = kw["axis"]
        if isinstance(x, (AAS, AP, ARS)):
            return pixel_sum(x, dim, keepdim)
        if isinstance(x, CT):
            return x.sum(dim=dim, keepdim=keepdim)
        if isinstance(x, (AT, AR, AABS)):
            raise OutOfSubset(f"pixel sum of {type(x).__name__} (only quadratic forms and products are observable)")
        return NotImplemented

    wrap(torch.sum, m_sum)

    def m_mean(interp, x, dim=None, keepdim=False, **kw):
        if isinstance(x, (CT, SymArr)):
            if dim is not None:
                # ghost: snapshot of the tensor that is averaged (contracts state "result = mean over axis of THIS tensor")
                V.cur().ghost["c10_mean_src"] = x.clone() if isinstance(x, CT) else _tensor_copy(x)
            return x.mean(dim=dim, keepdim=keepdim)
        if isinstance(x, _A_TYPES):
            raise OutOfSubset("mean of an abstract image")
        return NotImplemented

    wrap(torch.mean, m_mean)

    def m_sqrt(interp, x, **kw):
        if isinstance(x, (CT,) + _A_TYPES):
            raise OutOfSubset("sqrt of a complex tensor")
        return NotImplemented

    wrap(torch.sqrt, m_sqrt)

    def m_max(interp, a, b=None, **kw):
        if b is None or kw:
            if isinstance(a, SymArr) and not kw:
                return _extreme(a, "max")
            if contains_sym((a, kw)) or isinstance(a, (CT,) + _A_TYPES):
                raise OutOfSubset("torch.max reduction form")
            return NotImplemented
        if isinstance(a, (SymArr, Sym)) or isinstance(b, (SymArr, Sym)):
            if isinstance(a, SymArr) or isinstance(b, SymArr):
                return elementwise(lambda p, q: V.smax(p, q), a, b)
            return V.smax(a, b)
        return NotImplemented

    wrap(torch.max, m_max)
    wrap(torch.maximum, m_max)

    def m_min(interp, a, b=None, **kw):
        if b is None or kw:
            if isinstance(a, SymArr) and not kw:
                return _extreme(a, "min")
            if contains_sym((a, kw)):
                raise OutOfSubset("torch.min reduction form")
            return NotImplemented
        if isinstance(a, (SymArr, Sym)) or isinstance(b, (SymArr, Sym)):
            if isinstance(a, SymArr) or isinstance(b, SymArr):
                return elementwise(lambda p, q: V.smin(p, q), a, b)
            return V.smin(a, b)
        return NotImplemented

    wrap(torch.min, m_min)
    wrap(torch.minimum, m_min)

    def m_clamp(interp, x, min=None, max=None):
        if isinstance(x, (CT,) + _A_TYPES):
            raise RaiseSig(RuntimeError("clamp is not supported for complex types"))
        return NotImplemented

    wrap(torch.clamp, m_clamp)

    def m_zeros_like(interp, x, **kw):
        if isinstance(x, CT):
            z = x._arr()
            return CT(SymArr(z.shape, lambda *i: 0.0, "real"), SymArr(z.shape, lambda *i: 0.0, "real"))
        return NotImplemented

    wrap(torch.zeros_like, m_zeros_like)

    def m_complex(interp, re, im):
        if isinstance(re, AR) and isinstance(im, AR):
            # re(X) + i im(Y) = (X + cj X)/2 + (Y - cj Y)/2 ; like atoms merge, so X == Y gives X back
            if re.part != "re" and re.part != "im" or im.part not in ("re", "im"):
                raise OutOfSubset("torch.complex parts")
            X, Y = re.src, im.src
            if len(X.lead) != len(Y.lead) or any(not V.dims_equal(p, q) for p, q in zip(X.lead, Y.lead)):
                raise OutOfSubset("torch.complex of stacks with different leading shape")
            half = z3.RealVal("1/2")
            fx, fy = X.fn, Y.fn

            def part(av, which):
                c = av_conj(av)
                if which == "re":   # (v + cj v)/2
                    return av_scale(av_add(av, c, 1), (half, ZERO))
                # im(v) = (v - cj v)/(2i) = -i/2 (v - cj v)
                return av_scale(av_add(av, c, -1), (ZERO, -half))

            def fn(*i):
                a = part(fx(*i), re.part)
                b = av_scale(part(fy(*i), im.part), (ZERO, ONE))
                return av_add(a, b, 1)

            return AT(X.lead, fn, X.hw)
        if isinstance(re, (SymArr, Sym)) or isinstance(im, (SymArr, Sym)):
            return CT(re, im)
        if isinstance(re, _A_TYPES) or isinstance(im, _A_TYPES):
            raise OutOfSubset("torch.complex on these abstract values")
        return NotImplemented

    wrap(torch.complex, m_complex)

    def m_stack(interp, xs, dim=0):
        if isinstance(xs, AList) or isinstance(xs, (list, tuple)) and xs and all(isinstance(e, AT) for e in xs):
            if dim != 0:
                raise OutOfSubset("stack of abstract images along a non-leading axis")
            l = as_alist(list(xs) if not isinstance(xs, AList) else xs)
            f = l.fn
            V.cur().ghost["c10_stack_src"] = (l.n, f)
            return AT((l.n,), lambda i: f(i), l.hw)
        if isinstance(xs, (list, tuple)) and xs and all(isinstance(e, CT) for e in xs):
            prev = M_prev_stack
            return CT(prev(interp, [e.re for e in xs], dim), prev(interp, [e.im for e in xs], dim))
        return NotImplemented

    M_prev_stack = M.get(torch.stack)
    wrap(torch.stack, m_stack)

    def m_argsort(interp, x, dim=-1, descending=False, stable=False):
        """TRUSTED: argsort returns a permutation sigma of [0, n) with the keys x[sigma(.)] sorted."""
        if not isinstance(x, SymArr):
            if isinstance(x, (CT,) + _A_TYPES):
                raise OutOfSubset("argsort of a non-real tensor")
            return NotImplemented
        if x.ndim != 1:
            raise OutOfSubset("argsort of a tensor that is not 1-D")
        ctx = V.cur()
        n = x.shape[0]
        nt = lift(n)
        nm = ctx.fresh_name("argsort")
        SG = z3.Function(nm, z3.IntSort(), z3.IntSort())
        TAU = z3.Function(nm + "_inv", z3.IntSort(), z3.IntSort())
        i, a, b = z3.Int("i!q"), z3.Int("a!q"), z3.Int("b!q")
        ctx.assume(z3.ForAll([i], z3.Implies(z3.And(i >= 0, i < nt), z3.And(SG(i) >= 0, SG(i) < nt, TAU(SG(i)) == i)), patterns=[SG(i)]))
        ctx.assume(z3.ForAll([i], z3.Implies(z3.And(i >= 0, i < nt), z3.And(TAU(i) >= 0, TAU(i) < nt, SG(TAU(i)) == i)), patterns=[TAU(i)]))
        xa, xb = rterm(x.fn(SG(a))), rterm(x.fn(SG(b)))
        ctx.assume(z3.ForAll([a, b], z3.Implies(z3.And(a >= 0, a < b, b < nt), (xa >= xb) if descending else (xa <= xb)),
                             patterns=[z3.MultiPattern(SG(a), SG(b))]))
        r = SymArr((n,), lambda k: Sym(SG(k)), "int", name=nm)
        r.as_type = torch.Tensor
        r.sigma, r.tau, r.keys, r.descending = SG, TAU, x, descending
        ctx.ghost["c10_argsort"] = r
        return r

    wrap(torch.argsort, m_argsort)

    def m_fft2(interp, x, s=None, dim=(-2, -1), norm=None, **kw):
        """A5 (Parseval): fft2 over the two pixel axes is sqrt(HW)^e times a unitary map, e = 0 for norm='ortho',
        +1 for the default 'backward', -1 for 'forward'."""
        if not isinstance(x, AT):
            if isinstance(x, (CT, Sym, SymArr)):
                raise OutOfSubset("fft2 of a pixel-level tensor")
            return NotImplemented
        if s is not None or tuple(d % x.ndim for d in dim) != (x.ndim - 2, x.ndim - 1):
            raise OutOfSubset("fft2 over other than the two trailing axes")
        f = x.fn
        u = AT(x.lead, lambda *i: av_ft(f(*i)), x.hw)
        if norm == "ortho":
            return u
        hw = rterm(S(x.hw[0]) * S(x.hw[1]))
        rt = reals.F["sqrt"](hw)
        if norm in (None, "backward"):
            return at_scale_fn(u, lambda *i: (rt, ZERO))
        if norm == "forward":
            return at_scale_fn(u, lambda *i: (ONE / rt, ZERO))
        raise RaiseSig(RuntimeError("fft2: unknown norm"))

    wrap(torch.fft.fft2, m_fft2)

    def m_tensor(interp, data, dtype=None, device=None, requires_grad=False, **kw):
        if isinstance(data, (Sym, CT, AT)):
            return data
        if isinstance(data, SymArr):
            r = data.copy()
            r.pylist = False
            r.as_type = torch.Tensor
            return r
        if contains_sym(data) and isinstance(data, (list, tuple)):
            r = V.from_list(list(data), kind="real", pylist=False)
            r.as_type = torch.Tensor
            return r
        return NotImplemented

    wrap(torch.tensor, m_tensor)
    wrap(torch.as_tensor, m_tensor)

    def m_vdot(interp, x, y):
        if isinstance(x, AT) or isinstance(y, AT):
            return a_vdot(x, y, True)
        if contains_sym((x, y)) or isinstance(x, CT) or isinstance(y, CT):
            raise OutOfSubset("vdot of pixel-level tensors")
        return NotImplemented

    wrap(torch.vdot, m_vdot)

    def m_dot(interp, x, y):
        if isinstance(x, AT) or isinstance(y, AT):
            return a_vdot(x, y, False)
        if contains_sym((x, y)) or isinstance(x, CT) or isinstance(y, CT):
            raise OutOfSubset("dot of pixel-level tensors")
        return NotImplemented

    wrap(torch.dot, m_dot)
    wrap(torch.inner, m_dot)

    def m_norm(interp, x, p=None, dim=None, keepdim=False, ord=None, **kw):
        if isinstance(x, AT):
            return a_norm(x, p if p is not None else ord, dim, keepdim)
        if isinstance(x, (CT, Sym, SymArr)) or isinstance(x, _A_TYPES):
            raise OutOfSubset("norm of this symbolic value")
        return NotImplemented

    wrap(torch.norm, m_norm)
    wrap(torch.linalg.norm, m_norm)
    wrap(torch.linalg.vector_norm, m_norm)

    def m_normalize(interp, x, p=2.0, dim=1, eps=1e-12, out=None):
        """torch.nn.functional.normalize(x, p, dim, eps) = x / max(||x||_p, eps) along dim (p in {1, 2})"""
        if not isinstance(x, (SymArr, Sym)):
            if isinstance(x, (CT,) + _A_TYPES):
                raise OutOfSubset("F.normalize of a complex / abstract tensor")
            return NotImplemented
        if not isinstance(x, SymArr) or x.ndim != 1 or dim not in (0, -1):
            raise OutOfSubset("F.normalize is modelled for 1-D real tensors only")
        pv = p.literal() if isinstance(p, Sym) else p
        if pv in (2, 2.0):
            nrm = reals.app("sqrt", (x * x).sum())
        elif pv in (1, 1.0):
            nrm = abs(x).sum()
        else:
            raise OutOfSubset("F.normalize with p other than 1 or 2")
        d = V.smax(nrm, eps)
        r = elementwise(lambda e: V._realdiv(e, d), x)
        r.as_type = torch.Tensor
        return r

    wrap(torch.nn.functional.normalize, m_normalize)

    def m_conj(interp, x):
        if isinstance(x, (CT, AT)):
            return x.conj()
        if isinstance(x, (Sym, SymArr)):
            return x
        return NotImplemented

    wrap(torch.conj, m_conj)

    def m_real(interp, x):
        if isinstance(x, (CT, AT)):
            return x.real
        if isinstance(x, (Sym, SymArr)):
            return x
        return NotImplemented

    wrap(torch.real, m_real)

    def m_square(interp, x):
        if isinstance(x, (Sym, SymArr)):
            return x * x
        if isinstance(x, (CT, AR, AABS)):
            return x.square()
        return NotImplemented

    wrap(torch.square, m_square)
