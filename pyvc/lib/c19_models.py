"""C19 library models (TRUSTED): nested dict values with symbolic string keys, str methods, torch.device parsing.

Nothing here describes quantem code.  What is modelled:

* ``dict`` objects holding a nested configuration: a *tree state* ``t`` of the uninterpreted sort CfgTree with observers
  ``K(t)[key]`` (1 = scalar entry, 2 = nested dict entry, anything else = key absent), ``L(t)[key]`` (identity of the scalar
  value) and ``C(t)[key]`` (state of the nested dict).  A Python dict object is a handle (root, path); reading goes through
  the root's current state, writing replaces the root's state by a fresh state constrained by array ``store`` equations, so
  aliases of the same nested dict see each other's writes (dict reference semantics for tree-shaped configurations).
* ``str``: equality, ``in`` (substring), ``lower``, ``split('.')`` (at most MAX_PARTS components, join(parts) == s),
  ``replace('_','-')`` / ``replace('-','_')`` as the uninterpreted maps to_hy / to_us with ground instances of the
  single-character-replace facts listed in STRING_FACTS (validated against CPython by `validate_string_facts`),
  ``replace('__','.')`` uninterpreted.
* ``torch.device(s)``: parse result as uninterpreted functions of the string with the facts in `device_facts`.
* ``torch.cuda.is_available / torch.mps.is_available / torch.cuda.current_device / torch.cuda.set_device``: a symbolic
  environment fixed per path (ghost ``env``).
"""
from __future__ import annotations

import ast
import collections.abc
import itertools

import z3

from .. import values as V
from ..values import Sym, S, lift, OutOfSubset, contains_sym
from ..interp import RaiseSig, PathEnd

STR, INT, BOOL = z3.StringSort(), z3.IntSort(), z3.BoolSort()
TREE = z3.DeclareSort("CfgTree")
KF = z3.Function("cfgK", TREE, z3.ArraySort(STR, INT))
LF = z3.Function("cfgL", TREE, z3.ArraySort(STR, INT))
CF = z3.Function("cfgC", TREE, z3.ArraySort(STR, TREE))
NE = z3.Function("cfgNonEmpty", TREE, BOOL)
EMPTY = z3.Const("cfgEMPTY", TREE)
EMPTY_FACTS = [KF(EMPTY) == z3.K(STR, z3.IntVal(0)), z3.Not(NE(EMPTY))]

TO_US = z3.Function("to_us", STR, STR)      # s.replace('-', '_')
TO_HY = z3.Function("to_hy", STR, STR)      # s.replace('_', '-')
D2D = z3.Function("dunder_to_dot", STR, STR)  # s.replace('__', '.')
LOWER = z3.Function("lower", STR, STR)
NPARTS = z3.Function("nparts", STR, INT)     # len(s.split('.'))
PART = z3.Function("part", STR, INT, STR)    # s.split('.')[i]
ISTR = z3.Function("int_str", INT, STR)      # str(i)
SVAL = z3.Function("str_value_id", STR, INT)  # identity of a str used as configuration value
SVAL_INV = z3.Function("str_value_id_inv", INT, STR)
IVAL = z3.Function("int_value_id", INT, INT)
TRUTHY = z3.Function("truthy", INT, BOOL)
DEV_OK = z3.Function("torch_device_ok", STR, BOOL)
DEV_TYPE = z3.Function("torch_device_type", STR, STR)
DEV_HAS_INDEX = z3.Function("torch_device_has_index", STR, BOOL)
DEV_INDEX = z3.Function("torch_device_index", STR, INT)
NONE_ID = z3.Int("value_id_None")
# iteration order of a dict in state t (TRUSTED): its keys are KEYAT(t, 0) .. KEYAT(t, NKEYS(t)-1); every listed key is present,
# every present key e is listed at position KIDX(t, e)
NKEYS = z3.Function("dict_len", TREE, INT)
KEYAT = z3.Function("dict_key_at", TREE, INT, STR)
KIDX = z3.Function("dict_key_index", TREE, STR, INT)

MAX_PARTS = 3
LEAF, DICT = 1, 2


def sterm(x):
    """python str / Sym(String) / z3 string term -> z3 string term."""
    if isinstance(x, str):
        return z3.StringVal(x)
    if isinstance(x, Sym):
        return x.t
    if V.is_z3(x):
        return x
    raise OutOfSubset(f"not a string: {type(x).__name__}")


def is_strsym(x):
    return isinstance(x, Sym) and z3.is_string(x.t)


def is_strlike(x):
    return isinstance(x, str) or is_strsym(x)


def norm(x):
    """Spelling-normalised key ('-' -> '_'): concrete for python str, to_us(term) otherwise."""
    if isinstance(x, str):
        return z3.StringVal(x.replace("-", "_"))
    t = sterm(x)
    if z3.is_string_value(t):
        return z3.StringVal(t.as_string().replace("-", "_"))
    return TO_US(t)


def has_us(t):
    return z3.Contains(sterm(t), z3.StringVal("_"))


def has_hy(t):
    return z3.Contains(sterm(t), z3.StringVal("-"))


def pure(t):
    """The key uses one spelling only (not both '-' and '_')."""
    return z3.Not(z3.And(has_us(t), has_hy(t)))


STRING_FACTS = """single-character str.replace (us = s.replace('-','_'), hy = s.replace('_','-')):
 us.replace('_','-') == hy ; hy.replace('-','_') == us ; us.replace('-','_') == us ; hy.replace('_','-') == hy ;
 '-' not in us ; '_' not in hy ; '-' not in s => us == s ; '_' not in s => hy == s ; len(us) == len(hy) == len(s) ;
 '-' in s => '_' in us ; '_' in s => '-' in hy ; '_' in s => '_' in us ; '-' in s => '-' in hy ;
 '.' in us <=> '.' in s <=> '.' in hy"""


def string_facts(t):
    """Ground instances of STRING_FACTS for the string term t (closed one level: also for to_us(t), to_hy(t))."""
    t = sterm(t)
    if z3.is_string_value(t):
        return []
    us, hy = TO_US(t), TO_HY(t)
    U, H, D = z3.StringVal("_"), z3.StringVal("-"), z3.StringVal(".")
    c = z3.Contains
    return [
        TO_HY(us) == hy, TO_US(hy) == us, TO_US(us) == us, TO_HY(hy) == hy,
        z3.Not(c(us, H)), z3.Not(c(hy, U)),
        z3.Implies(z3.Not(c(t, H)), us == t), z3.Implies(z3.Not(c(t, U)), hy == t),
        z3.Length(us) == z3.Length(t), z3.Length(hy) == z3.Length(t),
        z3.Implies(c(t, H), c(us, U)), z3.Implies(c(t, U), c(hy, H)),
        z3.Implies(c(t, U), c(us, U)), z3.Implies(c(t, H), c(hy, H)),
        c(us, D) == c(t, D), c(hy, D) == c(t, D),
    ]


def validate_string_facts(max_len=4, alphabet="a-_."):
    """Conformance of STRING_FACTS with CPython's str.replace on all strings over `alphabet` up to max_len."""
    n = 0
    bad = []
    for ln in range(max_len + 1):
        for tup in itertools.product(alphabet, repeat=ln):
            s = "".join(tup)
            us, hy = s.replace("-", "_"), s.replace("_", "-")
            n += 1
            ok = (us.replace("_", "-") == hy and hy.replace("-", "_") == us and us.replace("-", "_") == us and hy.replace("_", "-") == hy
                  and "-" not in us and "_" not in hy and ("-" in s or us == s) and ("_" in s or hy == s)
                  and len(us) == len(s) == len(hy) and ("-" not in s or "_" in us) and ("_" not in s or "-" in hy)
                  and ("_" not in s or "_" in us) and ("-" not in s or "-" in hy) and (("." in us) == ("." in s) == ("." in hy)))
            parts = s.split(".")
            ok = ok and ".".join(parts) == s and all("." not in p for p in parts) and len(parts) >= 1
            if not ok:
                bad.append(s)
    return n, bad


def present_t(t, key):
    k = KF(t)[sterm(key)]
    return z3.Or(k == LEAF, k == DICT)


def key_listed_facts(t, e):
    """A present key occurs in the iteration order (ground instance for key e)."""
    e = sterm(e)
    i = KIDX(t, e)
    return [z3.Implies(present_t(t, e), z3.And(i >= 0, i < NKEYS(t), KEYAT(t, i) == e)), NKEYS(t) >= 0]


def assume_str(ctx, t):
    for f in string_facts(t):
        ctx.assume(f)


def fresh_str(ctx, name):
    """Fresh symbolic string with the replace facts available."""
    s = ctx.fresh(name, "str")
    assume_str(ctx, s.t)
    return s


def init_ctx(ctx):
    for f in EMPTY_FACTS:
        ctx.assume(f)


# ------------------------------------------------------------------------------------------------
# values stored in a configuration
# ------------------------------------------------------------------------------------------------


class Leaf:
    """Opaque scalar configuration value; only its identity `id` (z3 Int) is known."""

    _pyvc_value = True

    def __init__(self, id_):
        self.id = S(id_)

    def __repr__(self):
        return f"Leaf({self.id.t})"

    def __bool__(self):
        return V.cur().branch(TRUTHY(self.id.t))

    def __eq__(self, other):  # native comparisons inside the engine only
        return self is other

    __hash__ = object.__hash__


def leaf_id(v):
    """z3 Int identity of a scalar python / symbolic value stored as a configuration entry."""
    if isinstance(v, Leaf):
        return v.id.t
    if v is None:
        return NONE_ID
    if isinstance(v, bool):
        return IVAL(z3.IntVal(int(v)))
    if isinstance(v, int):
        return IVAL(z3.IntVal(v))
    if isinstance(v, str):
        return SVAL(z3.StringVal(v))
    if isinstance(v, Sym):
        if z3.is_string(v.t):
            return SVAL(v.t)
        if v.is_int:
            return IVAL(v.t)
        if v.is_bool:
            return IVAL(z3.If(v.t, 1, 0))
    raise OutOfSubset(f"configuration value of type {type(v).__name__} is not modelled")


def leaf_facts(v):
    """strings used as values are identified by content (SVAL injective): ground instance of the inverse."""
    if isinstance(v, str):
        return [SVAL_INV(SVAL(z3.StringVal(v))) == z3.StringVal(v)]
    if is_strsym(v):
        return [SVAL_INV(SVAL(v.t)) == v.t]
    return []


class DictRoot:
    def __init__(self, tree, name="dict"):
        self.tree = tree
        self.name = name
        try:
            V.cur().ghost.setdefault("dict_roots", []).append(self)  # every dict object of the path (pointwise loop rule: who was written?)
        except RuntimeError:
            pass
        self.writes = 0
        self.stored = False
        self.handles = []  # live handles below the root (so that overwriting an entry detaches the handles into it)


class SymDict:
    """Handle to a (nested) dict: root object + path of key terms from the root."""

    _pyvc_value = True

    def __init__(self, root, path=()):
        self.root = root
        self.path = tuple(path)
        if self.path:
            root.handles.append(self)

    def detach_below(self, kt):
        """The entry `kt` of this dict is about to be overwritten / removed: handles into the old nested dict keep denoting that
        (now detached) dict object - they get their own root holding its current state."""
        prefix = self.path + (kt,)
        n = len(prefix)
        hs = [h for h in self.root.handles
              if h.root is self.root and len(h.path) >= n and all(a.get_id() == b.get_id() for a, b in zip(h.path[:n], prefix))]
        if hs:
            t = self.root.tree
            for k in prefix:
                t = CF(t)[k]
            newroot = DictRoot(t, "detached")
            for h in hs:
                self.root.handles.remove(h)
                h.root, h.path = newroot, h.path[n:]
                if h.path:
                    newroot.handles.append(h)

    def __repr__(self):
        return f"SymDict({self.root.name}{''.join('[' + str(k) + ']' for k in self.path)})"

    @staticmethod
    def fresh(ctx, name="d"):
        t = z3.Const(ctx.fresh_name(name), TREE)
        return SymDict(DictRoot(t, name))

    @staticmethod
    def empty(ctx, name="empty"):
        return SymDict(DictRoot(EMPTY, name))

    # ---- state
    def tree(self):
        t = self.root.tree
        for k in self.path:
            t = CF(t)[k]
        return t

    def check_live(self, ctx):
        """The handle still denotes a nested dict of the root (not replaced since it was obtained)."""
        t = self.root.tree
        for k in self.path:
            if not ctx.entails(KF(t)[k] == DICT):
                raise OutOfSubset("access through a dict handle that may have been detached from its parent (aliasing not modelled)")
            t = CF(t)[k]

    def kind(self, key):
        return KF(self.tree())[sterm(key)]

    def present(self, key):
        k = self.kind(key)
        return z3.Or(k == LEAF, k == DICT)

    def _install(self, ctx, t2):
        """Replace this handle's state by t2 and rebuild the ancestors."""
        if self.root.stored and False:
            raise OutOfSubset("mutation of a dict after it was stored into another dict")
        for i in range(len(self.path) - 1, -1, -1):
            p = self.root.tree
            for k in self.path[:i]:
                p = CF(p)[k]
            p2 = z3.Const(ctx.fresh_name("tree"), TREE)
            ctx.assume(z3.And(KF(p2) == KF(p), LF(p2) == LF(p), CF(p2) == z3.Store(CF(p), self.path[i], t2), NE(p2)))
            t2 = p2
        self.root.tree = t2
        self.root.writes += 1

    def store(self, ctx, key, value):
        """d[key] = value"""
        self.check_live(ctx)
        kt = sterm(key)
        self.detach_below(kt)
        t = self.tree()
        t2 = z3.Const(ctx.fresh_name("tree"), TREE)
        if isinstance(value, (SymDict, ItemsMap)) and getattr(value, "external", False):
            # ghost: a mapping object that came in as (part of) an argument is stored BY REFERENCE (store and argument now share it)
            ctx.ghost.setdefault("aliased", []).append((self, key, value))
        if isinstance(value, SymDict):
            child = value.tree()
            value.root.stored = True
            facts = [KF(t2) == z3.Store(KF(t), kt, DICT), LF(t2) == LF(t), CF(t2) == z3.Store(CF(t), kt, child)]
        elif isinstance(value, ItemsMap):
            child = value.as_tree(ctx)
            facts = [KF(t2) == z3.Store(KF(t), kt, DICT), LF(t2) == LF(t), CF(t2) == z3.Store(CF(t), kt, child)]
        else:
            for f in leaf_facts(value):
                ctx.assume(f)
            facts = [KF(t2) == z3.Store(KF(t), kt, LEAF), LF(t2) == z3.Store(LF(t), kt, leaf_id(value)), CF(t2) == CF(t)]
        ctx.assume(z3.And(*facts, NE(t2)))
        self._install(ctx, t2)

    def clear(self, ctx):
        self.check_live(ctx)
        self._install(ctx, EMPTY)

    def remove(self, ctx, key):
        """del d[key] (the key becomes absent; scalar identity / nested state left behind are unobservable)."""
        self.check_live(ctx)
        kt = sterm(key)
        self.detach_below(kt)
        t = self.tree()
        t2 = z3.Const(ctx.fresh_name("tree"), TREE)
        ctx.assume(z3.And(KF(t2) == z3.Store(KF(t), kt, 0), LF(t2) == LF(t), CF(t2) == CF(t)))
        self._install(ctx, t2)

    def lookup(self, interp, key):
        """d[key]: nested dict handle, Leaf, or KeyError."""
        ctx = interp.ctx
        self.check_live(ctx)
        kt = sterm(key)
        k = self.kind(kt)
        if ctx.branch(k == DICT):
            return SymDict(self.root, self.path + (kt,))
        if ctx.branch(k == LEAF):
            return Leaf(Sym(LF(self.tree())[kt]))
        raise RaiseSig(KeyError("<key>"))

    def __bool__(self):
        return V.cur().branch(NE(self.tree()))

    def __delitem__(self, key):
        ctx = V.cur()
        if not is_strlike(key):
            raise RaiseSig(KeyError("<non-string key>"))
        if not ctx.branch(self.present(key)):
            raise RaiseSig(KeyError("<key>"))
        self.remove(ctx, key)

    def __eq__(self, other):
        return self is other

    __hash__ = object.__hash__


class KeySubset:
    """The list `[key for key in d if cond(key)]`: a snapshot of the keys of d (state t0 when the list was built) that satisfy phi
    (a z3 Bool over the bound string `var`)."""

    _pyvc_value = True

    def __init__(self, src, t0, var, phi):
        self.src, self.t0, self.var, self.phi = src, t0, var, phi

    def member(self, e):
        e = sterm(e)
        return z3.And(present_t(self.t0, e), z3.substitute(self.phi, (self.var, e)))

    def __repr__(self):
        return f"KeySubset({self.src!r}: {self.phi})"


class ItemsMap:
    """A mapping with an enumerated list of (key, value) items (keys python str or symbolic strings, pairwise distinct)."""

    _pyvc_value = True

    def __init__(self, items):
        self._items = list(items)

    def __repr__(self):
        return f"ItemsMap({[k for k, _ in self._items]})"

    def items(self):
        return list(self._items)

    def __bool__(self):
        return bool(self._items)

    def __len__(self):
        return len(self._items)

    def set(self, key, value):
        for i, (k, _) in enumerate(self._items):
            if k is key or (is_strlike(k) and is_strlike(key) and z3.is_true(z3.simplify(sterm(k) == sterm(key)))):
                self._items[i] = (k, value)
                return
        for k, _ in self._items:
            if not z3.is_false(z3.simplify(sterm(k) == sterm(key))):
                raise OutOfSubset("ItemsMap store with a key whose identity with an existing key is undetermined")
        self._items.append((key, value))

    def as_tree(self, ctx):
        d = SymDict.empty(ctx)
        for k, v in self._items:
            d.store(ctx, k, v)
        return d.tree()

    def __eq__(self, other):
        return self is other

    __hash__ = object.__hash__


class DevVal:
    """Abstract torch.device: `type` (Sym String or str), `index` (None or Sym Int / int)."""

    _pyvc_value = True

    def __init__(self, type_, index):
        self.type = type_
        self.index = index

    def __repr__(self):
        return f"DevVal({self.type}, {self.index})"


class Env:
    """Symbolic hardware environment fixed on a path."""

    def __init__(self, ctx):
        self.cuda = ctx.fresh("cuda_available", "bool")
        self.mps = ctx.fresh("mps_available", "bool")
        self.cur = ctx.fresh("cuda_current_device", "int")
        self.num = ctx.fresh("NUM_DEVICES", "int")
        ctx.assume(self.cur.t >= 0)
        ctx.assume(self.num.t >= 0)
        self.cuda_set = []   # ghost: arguments of torch.cuda.set_device
        self.cupy_set = []


def env_of(ctx):
    e = ctx.ghost.get("env")
    if e is None:
        e = ctx.ghost["env"] = Env(ctx)
    return e


def device_facts(t):
    """torch.device(s) for a string s (TRUSTED): valid strings are '<type>' or '<type>:<non-negative int>';
    the only device type whose valid string contains 'cuda' (case-insensitively) is 'cuda' itself."""
    t = sterm(t)
    ty, ix = DEV_TYPE(t), DEV_INDEX(t)
    return [
        z3.Implies(DEV_OK(t), z3.If(DEV_HAS_INDEX(t), z3.And(t == z3.Concat(ty, z3.StringVal(":"), ISTR(ix)), ix >= 0), t == ty)),
        z3.Implies(z3.And(DEV_OK(t), z3.Contains(LOWER(t), z3.StringVal("cuda"))), ty == z3.StringVal("cuda")),
        z3.Implies(t == z3.StringVal("cuda"), z3.And(DEV_OK(t), z3.Not(DEV_HAS_INDEX(t)), ty == z3.StringVal("cuda"))),
        z3.Implies(t == z3.StringVal("cpu"), z3.And(DEV_OK(t), z3.Not(DEV_HAS_INDEX(t)), ty == z3.StringVal("cpu"))),
        z3.Implies(t == z3.StringVal("mps"), z3.And(DEV_OK(t), z3.Not(DEV_HAS_INDEX(t)), ty == z3.StringVal("mps"))),
        z3.Not(z3.Contains(ty, z3.StringVal(":"))),
        z3.Implies(z3.And(DEV_OK(t), ty == z3.StringVal("cuda")), z3.And(z3.PrefixOf(z3.StringVal("cuda"), t), z3.Contains(LOWER(t), z3.StringVal("cuda")))),
    ] + istr_facts(ix)


LOWER_WORDS = ("cuda", "cpu", "mps", "gpu")


def lower_facts(t):
    """str.lower (TRUSTED): idempotent, length preserving, fixes the lowercase words cuda / cpu / mps / gpu."""
    t = sterm(t)
    lo = LOWER(t)
    out = [LOWER(lo) == lo, z3.Length(lo) == z3.Length(t)]
    for w in LOWER_WORDS:
        w = z3.StringVal(w)
        out += [z3.Implies(t == w, lo == w)]
    return out


def istr_facts(i):
    s = ISTR(lift(i))
    return [z3.Not(z3.Contains(s, z3.StringVal(p))) for p in ("c", "g", "m", ".", ":", "_")] + [z3.Length(s) >= 1, LOWER(s) == s]


# ------------------------------------------------------------------------------------------------
# installation
# ------------------------------------------------------------------------------------------------


def _fn(f):
    f._sym_ok = True
    return f


def install(reg):
    import torch

    M = reg.models
    reg.noop_calls = set(reg.noop_calls) - {"collect"}

    # ---- dict displays
    def dict_factory(interp, d):
        if not d:
            return SymDict.empty(interp.ctx)
        return ItemsMap(list(d.items()))

    reg.dict_factory = dict_factory

    # ---- isinstance
    def isinstance_model(interp, x, t):
        ts = t if isinstance(t, tuple) else (t,)
        if isinstance(x, (SymDict, ItemsMap)):
            return any(k in (dict, collections.abc.Mapping, collections.abc.MutableMapping, object) for k in ts)
        if isinstance(x, Leaf):
            if any(k is object for k in ts):
                return True
            return False
        if isinstance(x, DevVal):
            return any(k in (torch.device, object) for k in ts)
        return NotImplemented

    reg.isinstance_model = isinstance_model

    # ---- comparisons
    def cmp_sym(interp, op, a, b):
        if is_strsym(a) or is_strsym(b):
            if is_strlike(a) and is_strlike(b):
                t = sterm(a) == sterm(b)
                if op is ast.Eq:
                    return Sym(t)
                if op is ast.NotEq:
                    return Sym(z3.Not(t))
                raise OutOfSubset("ordering of symbolic strings")
            if op is ast.Eq:
                return False
            if op is ast.NotEq:
                return True
        return NotImplemented

    reg.cmp_models[Sym] = cmp_sym

    def cmp_val(interp, op, a, b):
        if op not in (ast.Eq, ast.NotEq):
            raise RaiseSig(TypeError("ordering of configuration values"))
        if isinstance(a, Leaf) and isinstance(b, Leaf):
            t = a.id.t == b.id.t
        elif isinstance(a, SymDict) and isinstance(b, SymDict):
            t = a.tree() == b.tree()
        elif isinstance(a, (Leaf, SymDict)) and isinstance(b, (Leaf, SymDict)):
            t = z3.BoolVal(False)
        else:
            other = b if isinstance(a, (Leaf, SymDict)) else a
            me = a if isinstance(a, (Leaf, SymDict)) else b
            if isinstance(me, Leaf):
                try:
                    t = me.id.t == leaf_id(other)
                except OutOfSubset:
                    t = z3.BoolVal(False)
            else:
                t = z3.BoolVal(False)
        return Sym(t if op is ast.Eq else z3.Not(t))

    reg.cmp_models[Leaf] = cmp_val
    reg.cmp_models[SymDict] = cmp_val

    # ---- containment
    def contains_sym_str(interp, container, item):
        if is_strsym(container):
            if is_strlike(item):
                return Sym(z3.Contains(container.t, sterm(item)))
            raise RaiseSig(TypeError("'in <string>' requires string as left operand"))
        raise RaiseSig(TypeError("argument of symbolic scalar type is not iterable"))

    reg.contains_models[Sym] = contains_sym_str

    def contains_dict(interp, d, item):
        if not is_strlike(item):
            return False
        d.check_live(interp.ctx)
        p = d.present(item)
        interp.ctx.assume(z3.Implies(p, NE(d.tree())))
        return Sym(p)

    reg.contains_models[SymDict] = contains_dict

    def contains_leaf(interp, leaf, item):
        raise RaiseSig(TypeError("argument of scalar configuration value is not iterable"))

    reg.contains_models[Leaf] = contains_leaf

    def contains_items(interp, m, item):
        terms = []
        for k, _ in m._items:
            r = interp.compare(ast.Eq(), item, k)
            if r is True:
                return True
            if r is False:
                continue
            terms.append(lift(r))
        return Sym(z3.Or(*terms)) if terms else False

    reg.contains_models[ItemsMap] = contains_items

    # ---- item access
    def getitem_dict(interp, d, key):
        if not is_strlike(key):
            raise RaiseSig(KeyError("<non-string key>"))
        return d.lookup(interp, key)

    reg.getitem_models[SymDict] = getitem_dict

    def getitem_leaf(interp, leaf, key):
        raise RaiseSig(TypeError("scalar configuration value is not subscriptable"))

    reg.getitem_models[Leaf] = getitem_leaf

    def getitem_items(interp, m, key):
        for k, v in m._items:
            if interp.truth(interp.compare(ast.Eq(), key, k)):
                return v
        raise RaiseSig(KeyError("<key>"))

    reg.getitem_models[ItemsMap] = getitem_items

    def setitem_dict(interp, d, key, v):
        if not is_strlike(key):
            raise OutOfSubset("non-string configuration key")
        d.store(interp.ctx, key, v)

    reg.setitem_models[SymDict] = setitem_dict

    def setitem_leaf(interp, leaf, key, v):
        raise RaiseSig(TypeError("scalar configuration value does not support item assignment"))

    reg.setitem_models[Leaf] = setitem_leaf

    def setitem_items(interp, m, key, v):
        m.set(key, v)

    reg.setitem_models[ItemsMap] = setitem_items

    # ---- iteration over the keys (symbolic loop: needs a LoopSpec in the function under contract)
    def iter_dict(interp, d):
        ctx = interp.ctx
        d.check_live(ctx)
        t = d.tree()
        ctx.assume(NKEYS(t) >= 0)

        def getter(k):
            kt = KEYAT(t, lift(k))
            ctx.assume(z3.Implies(z3.And(lift(k) >= 0, lift(k) < NKEYS(t)), present_t(t, kt)))
            assume_str(ctx, kt)
            return Sym(kt)

        return Sym(NKEYS(t)), getter

    if not hasattr(reg, "iter_models"):
        reg.iter_models = {}
    reg.iter_models[SymDict] = iter_dict

    # ---- [key for key in d if cond(key)]  and  `for key in <that list>: body`  (pointwise loop rule)
    def comp_dict(interp, node, env, d):
        from ..interp import Env
        gen = node.generators[0]
        if not isinstance(node, (ast.ListComp, ast.GeneratorExp)) or not isinstance(gen.target, ast.Name) \
                or not (isinstance(node.elt, ast.Name) and node.elt.id == gen.target.id):
            return NotImplemented
        ctx = interp.ctx
        d.check_live(ctx)
        var = z3.String(ctx.fresh_name("key!bound"))
        env2 = Env(env.globs, env)
        env2.vars[gen.target.id] = Sym(var)
        n_dec = len(ctx.decisions)
        conds = []
        for c in gen.ifs:
            v = interp.eval(c, env2)
            if isinstance(v, bool):
                v = Sym(z3.BoolVal(v))
            if not (isinstance(v, Sym) and v.is_bool):
                raise OutOfSubset("comprehension condition over dict keys is not a boolean term")
            conds.append(v.t)
        if len(ctx.decisions) != n_dec:
            raise OutOfSubset("comprehension condition over dict keys forks the path")
        return KeySubset(d, d.tree(), var, z3.And(*conds) if conds else z3.BoolVal(True))

    if not hasattr(reg, "comp_models"):
        reg.comp_models = {}
    reg.comp_models[SymDict] = comp_dict

    def loop_key_subset(interp, node, env, ks):
        """Pointwise loop rule: the body, run for ONE generic member key from an arbitrary intermediate state that agrees with the
        pre-loop state at that key, must touch only the entry of its own key (obligation) - then the loop's total effect is the
        per-key effect applied to every member.  Recognised per-key effects: the entry is removed / nothing changes."""
        from ..interp import BreakSig, ContinueSig
        ctx = interp.ctx
        src = ks.src
        root = src.root
        if src.path or not isinstance(node.target, ast.Name):
            raise OutOfSubset("pointwise loop over the keys of a nested dict handle")
        if root.tree.get_id() != ks.t0.get_id():
            raise OutOfSubset("dict changed between building the key list and the loop")
        t0 = ks.t0
        memo = reg.__dict__.setdefault("_pointwise_effects", {})
        lid = (ctx.frames[-1] if ctx.frames else "?", node.lineno)
        if ctx.branch(ctx.fresh("loop_has_a_member_key", "bool").t):
            g = fresh_str(ctx, "member_key")
            ctx.assume(ks.member(g.t))
            t_mid = z3.Const(ctx.fresh_name("tree_mid"), TREE)
            ctx.assume(z3.And(KF(t_mid)[g.t] == KF(t0)[g.t], LF(t_mid)[g.t] == LF(t0)[g.t], CF(t_mid)[g.t] == CF(t0)[g.t]))
            root.tree = t_mid
            roots = list(ctx.ghost.get("dict_roots", []))
            before = {id(r): r.tree.get_id() for r in roots}
            interp.assign(node.target, g, env)
            try:
                interp.exec_block(node.body, env)
            except ContinueSig:
                pass
            except BreakSig:
                raise OutOfSubset("break inside a pointwise loop over dict keys")
            changed = [r for r in roots if r.tree.get_id() != before[id(r)]] + [r for r in ctx.ghost.get("dict_roots", []) if id(r) not in before and r.stored]
            if any(r is not root for r in changed):
                raise OutOfSubset("pointwise loop over dict keys writes another dict")
            effect = "none"
            if changed:
                post = root.tree
                gt = g.t
                only = z3.And(KF(post) == z3.Store(KF(t_mid), gt, KF(post)[gt]), LF(post) == z3.Store(LF(t_mid), gt, LF(post)[gt]),
                              CF(post) == z3.Store(CF(t_mid), gt, CF(post)[gt]))
                ctx.prove(f"loop@{lid[0]}:over-dict-keys:body-touches-only-the-entry-of-its-own-key", only, kind="loop-pointwise")
                if ctx.entails(z3.Not(present_t(post, gt))):
                    effect = "remove"
                else:
                    raise OutOfSubset("per-key effect of a loop over dict keys is neither 'remove the key' nor 'no change'")
            memo[lid] = effect
            raise PathEnd("generic iteration of a pointwise loop verified")
        effect = memo.get(lid)
        if effect is None:
            raise OutOfSubset("pointwise loop: per-key effect unknown on the exit path")
        if effect == "remove":
            if root.handles:
                raise OutOfSubset("pointwise removal from a dict with live handles into its sections")
            if z3.is_true(z3.simplify(ks.phi)):
                # every key is removed: the dict is empty (what is left behind for absent keys is unobservable), i.e. the state of `{}`
                root.tree = EMPTY
            else:
                e = z3.String("e!lam")
                t_fin = z3.Const(ctx.fresh_name("tree"), TREE)
                ctx.assume(z3.And(KF(t_fin) == z3.Lambda([e], z3.If(ks.member(e), z3.IntVal(0), KF(t0)[e])), LF(t_fin) == LF(t0), CF(t_fin) == CF(t0)))
                root.tree = t_fin
            root.writes += 1
        interp.exec_block(node.orelse, env)
        return True

    if not hasattr(reg, "loop_models"):
        reg.loop_models = {}
    reg.loop_models[KeySubset] = loop_key_subset

    def m_reversed(interp, xs):
        if isinstance(xs, (list, tuple)):
            return list(reversed(xs))
        return interp.native(reversed, xs)

    M[reversed] = m_reversed

    # ---- attributes / methods
    def attr_dict(interp, d, name):
        ctx = interp.ctx
        if name == "clear":
            return _fn(lambda: d.clear(ctx))
        if name == "get":
            def get(key, default=None):
                if not is_strlike(key):
                    return default
                try:
                    return d.lookup(interp, key)
                except RaiseSig as r:
                    if isinstance(r.exc, KeyError):
                        return default
                    raise
            return _fn(get)
        if name == "setdefault":
            def setdefault(key, default=None):
                if not is_strlike(key):
                    raise OutOfSubset("non-string configuration key")
                if not ctx.branch(d.present(key)):
                    d.store(ctx, key, default)
                return d.lookup(interp, key)
            return _fn(setdefault)
        if name == "pop":
            def pop(key, *default):
                if not is_strlike(key):
                    raise OutOfSubset("non-string configuration key")
                if ctx.branch(d.present(key)):
                    old = d.lookup(interp, key)
                    d.remove(ctx, key)
                    return old
                if default:
                    return default[0]
                raise RaiseSig(KeyError("<key>"))
            return _fn(pop)
        if name in ("items", "keys", "values", "__iter__", "__len__"):
            raise OutOfSubset(f"dict.{name}() on a dict with symbolic key set")
        raise OutOfSubset(f"dict.{name} is not modelled")

    reg.attr_models[SymDict] = attr_dict

    def attr_items(interp, m, name):
        if name == "items":
            return _fn(lambda: m.items())
        if name == "get":
            def get(key, default=None):
                try:
                    return getitem_items(interp, m, key)
                except RaiseSig:
                    return default
            return _fn(get)
        raise OutOfSubset(f"mapping.{name} is not modelled")

    reg.attr_models[ItemsMap] = attr_items

    def attr_leaf(interp, leaf, name):
        if name in ("pop", "setdefault", "get", "items", "keys", "clear", "update"):
            raise RaiseSig(AttributeError(f"scalar configuration value has no attribute {name!r}"))  # scalars are not containers
        raise OutOfSubset(f"attribute {name} of an opaque configuration value")

    reg.attr_models[Leaf] = attr_leaf

    def attr_dev(interp, d, name):
        if name in ("type", "index"):
            return getattr(d, name)
        raise OutOfSubset(f"torch.device.{name}")

    reg.attr_models[DevVal] = attr_dev

    def attr_sym(interp, s, name):
        if not is_strsym(s):
            return NotImplemented
        ctx = interp.ctx
        t = s.t
        if name == "replace":
            def replace(old, new, count=-1):
                if count != -1:
                    raise OutOfSubset("str.replace with count")
                assume_str(ctx, t)
                if (old, new) == ("_", "-"):
                    r = TO_HY(t)
                elif (old, new) == ("-", "_"):
                    r = TO_US(t)
                elif (old, new) == ("__", "."):
                    r = D2D(t)
                else:
                    raise OutOfSubset(f"str.replace({old!r}, {new!r}) on a symbolic string")
                assume_str(ctx, r)
                return Sym(r)
            return _fn(replace)
        if name == "lower":
            def lower():
                for f in lower_facts(t):
                    ctx.assume(f)
                return Sym(LOWER(t))
            return _fn(lower)
        if name == "split":
            def split(sep=None, maxsplit=-1):
                if sep != "." or maxsplit != -1:
                    raise OutOfSubset("str.split other than split('.') on a symbolic string")
                n = NPARTS(t)
                for cnt in range(1, MAX_PARTS + 1):
                    if ctx.branch(n == cnt):
                        parts = [PART(t, z3.IntVal(i)) for i in range(cnt)]
                        joined = parts[0] if cnt == 1 else z3.Concat(*[x for i, p in enumerate(parts) for x in ((p,) if i == 0 else (z3.StringVal("."), p))])
                        ctx.assume(t == joined)
                        for p in parts:
                            ctx.assume(z3.Not(z3.Contains(p, z3.StringVal("."))))
                            assume_str(ctx, p)
                        res = [Sym(p) for p in parts]
                        ctx.ghost.setdefault("splits", []).append((s, res))
                        return res
                raise PathEnd(f"key with more than {MAX_PARTS} dotted components (outside the enumerated range)")
            return _fn(split)
        raise OutOfSubset(f"str.{name} on a symbolic string")

    reg.attr_models[Sym] = attr_sym

    # ---- str() / f-strings
    def m_str(interp, x=""):
        if is_strsym(x):
            return x
        if isinstance(x, Sym) and x.is_int:
            for f in istr_facts(x):
                interp.ctx.assume(f)
            return Sym(ISTR(x.t))
        if isinstance(x, DevVal):
            if x.index is None:
                return x.type if isinstance(x.type, Sym) else str(x.type)
            return Sym(z3.Concat(sterm(x.type), z3.StringVal(":"), ISTR(lift(x.index))))
        if isinstance(x, Leaf):
            # str() of an arbitrary object is an arbitrary string (fixed per object)
            if getattr(x, "strsym", None) is None:
                x.strsym = interp.ctx.fresh("str_of_value", "str")
            return x.strsym
        if isinstance(x, (SymDict, ItemsMap)):
            raise OutOfSubset(f"str() of {type(x).__name__}")
        if contains_sym(x):
            return "<str of symbolic value>"
        return interp.native(str, x)

    M[str] = m_str

    def format_model(interp, x, spec):
        if spec:
            return NotImplemented
        if is_strsym(x):
            return x
        if isinstance(x, Sym) and x.is_int:
            for f in istr_facts(x):
                interp.ctx.assume(f)
            return Sym(ISTR(x.t))
        return NotImplemented

    reg.format_model = format_model

    # ---- torch
    def m_device(interp, arg, index=None):
        ctx = interp.ctx
        if index is not None:
            raise OutOfSubset("torch.device(type, index)")
        if isinstance(arg, DevVal):
            return arg
        if isinstance(arg, str):
            try:
                d = torch.device(arg)
            except Exception as e:  # RuntimeError for malformed strings
                raise RaiseSig(e)
            return DevVal(d.type, d.index)
        if is_strsym(arg):
            t = arg.t
            # f"cuda:{n}" built from a non-negative index
            if z3.is_app(t) and t.decl().kind() == z3.Z3_OP_SEQ_CONCAT and t.num_args() == 2:
                a0, a1 = t.arg(0), t.arg(1)
                if z3.is_string_value(a0) and a0.as_string() == "cuda:" and z3.is_app(a1) and a1.decl().eq(ISTR):
                    n = a1.arg(0)
                    if ctx.branch(n >= 0):
                        return DevVal("cuda", Sym(n))
                    raise RaiseSig(RuntimeError("invalid device string"))
            for f in device_facts(t) + lower_facts(t):
                ctx.assume(f)
            if not ctx.branch(DEV_OK(t)):
                raise RaiseSig(RuntimeError("invalid device string"))
            ty = Sym(DEV_TYPE(t))
            if ctx.branch(DEV_HAS_INDEX(t)):
                return DevVal(ty, Sym(DEV_INDEX(t)))
            return DevVal(ty, None)
        raise OutOfSubset(f"torch.device({type(arg).__name__})")

    reg.ctor_models[torch.device] = m_device

    M[torch.cuda.is_available] = lambda interp: env_of(interp.ctx).cuda
    M[torch.mps.is_available] = lambda interp: env_of(interp.ctx).mps
    M[torch.cuda.current_device] = lambda interp: env_of(interp.ctx).cur

    def m_set_device(interp, idx):
        env_of(interp.ctx).cuda_set.append(idx)

    M[torch.cuda.set_device] = m_set_device
    return reg


class CupyStub:
    """Stand-in for the (absent) cupy module global `cp`: records setDevice calls in the ghost environment."""

    _pyvc_value = True

    class _RT:
        _pyvc_value = True

        @staticmethod
        def setDevice(idx):
            env_of(V.cur()).cupy_set.append(idx)

    class _Cuda:
        _pyvc_value = True

    def __init__(self):
        self.cuda = CupyStub._Cuda()
        self.cuda.runtime = CupyStub._RT()
