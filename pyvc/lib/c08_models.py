"""TRUSTED library contracts for C08 (failed saves / write-once): a ghost filesystem and the effects of
os / os.path / shutil / tempfile / zipfile / zarr on it, plus the fault-injection points.

Nothing in this file knows about quantem.  Every model states what the *library* call does to the ghost world:

  World.fs     GhostFS: path -> absent | file | dir, as the old state (uninterpreted functions of the path string)
               overridden by a chronological log of writes (path term, node).  Aliasing between path terms is decided
               by the solver (string equality), never assumed.
  nodes        Absent, DirNode(group | None), ZipNode(zipfile ghost)  (live: the node shows the CURRENT state of
               the group / zip written through it - a directory store is written in place).
  may_fault    every state-changing library call may fail: the path forks, the exception is raised BEFORE the call has
               any effect (exactly what the run-time fault injection of the bounded stand-in does).  One fault per path.

What is trusted here (also listed in contracts/C08.py TRUSTED):
  * os.path.exists/isdir, os.remove, shutil.rmtree, os.makedirs, os.replace/rename: the obvious effects on one node;
  * os.listdir/scandir(p): the listing of a directory - NENT0(p) >= 0 entries for an untouched directory (0 = an existing
    EMPTY directory), 0 for a directory created during the call, >= 1 once zarr.group created a group in it; raises for a
    missing name (also a dangling symbolic link) and for a file; os.path.islink / getsize read the old state;
    os.remove on a directory / rmtree on a file / makedirs over a file raise;
  * tempfile.TemporaryDirectory(): creates a directory at a FRESH path (did not exist, different from every path the
    program names that is not derived from it) and its context manager removes it on normal AND exceptional exit;
  * zipfile.ZipFile(p, 'w'): truncates/creates p at construction (an unreadable archive until closed), write() appends one
    entry, close()/__exit__ writes the central directory EVEN IF the body raised (the archive becomes readable with the
    entries written so far);
  * zarr.group(store=LocalStore(p), overwrite=True): p becomes a directory holding an EMPTY root group; group/attrs/array
    writes go straight to that directory (no staging); the root attributes live in the file `zarr.json` directly in p;
  * os.walk(top): top-down, enumerates every file of the tree exactly once, the root directory first.
"""
from __future__ import annotations

import operator
import os
import shutil
import tempfile
import zipfile

import z3

from .. import values as V
from ..values import Sym, OutOfSubset, lift, contains_sym
from ..interp import RaiseSig, GhostGen

STR, INT, BOOL = z3.StringSort(), z3.IntSort(), z3.BoolSort()

ABSENT, FILE, DIR = 0, 1, 2


# ------------------------------------------------------------------------------------------------
# strings
# ------------------------------------------------------------------------------------------------


def is_strsym(x):
    return isinstance(x, Sym) and z3.is_string(x.t)


def is_str(x):
    return isinstance(x, str) or is_strsym(x) or (V.is_z3(x) and z3.is_string(x))


def sterm(x):
    """python str / Sym(String) / z3 string term -> z3 string term."""
    if isinstance(x, str):
        return z3.StringVal(x)
    if isinstance(x, Sym):
        if z3.is_string(x.t):
            return x.t
        raise OutOfSubset(f"non-string symbolic value {x.t} used as a path / key")
    if V.is_z3(x) and z3.is_string(x):
        return x
    if isinstance(x, os.PathLike):
        return z3.StringVal(os.fspath(x))
    raise OutOfSubset(f"{type(x).__name__} used as a path / key")


def sval(t):
    """z3 string term -> python str if literal, else Sym."""
    s = z3.simplify(t)
    if z3.is_string_value(s):
        return s.as_string()
    return Sym(t)


def _subterm(t, sub):
    todo, seen = [t], set()
    while todo:
        e = todo.pop()
        if e.eq(sub):
            return True
        i = e.get_id()
        if i in seen:
            continue
        seen.add(i)
        todo.extend(e.children())
    return False


JOIN = z3.Function("path_join", STR, STR, STR)
REL = z3.Function("path_relpath", STR, STR, STR)
EXT = z3.Function("path_splitext_ext", STR, STR)
ROOTOF = z3.Function("path_splitext_root", STR, STR)


# ------------------------------------------------------------------------------------------------
# faults
# ------------------------------------------------------------------------------------------------


class FaultMarkerBase(BaseException):
    """Common base of EVERY injected failure (key of the `raises` tables); adds nothing a handler could name."""


FaultMarkerBase.__name__ = "Fault"


class FaultMarker(FaultMarkerBase, Exception):
    """Injected failures that are ordinary errors (Exception subclasses)."""


def _mk(bases, catch):
    return type("Fault", bases, {"__module__": __name__, "_catch": catch})


# disjoint exception classes (a handler for one must not be credited with catching the others); they share the display
# name "Fault" so that obligation names do not depend on which one a path injected.
FaultPlain = _mk((FaultMarker,), Exception)
FaultOS = _mk((FaultMarker, OSError), OSError)
FaultType = _mk((FaultMarker, TypeError), TypeError)
# "fails part-way for ANY reason": an abort that is NOT an Exception (KeyboardInterrupt, SystemExit, CancelledError,
# GeneratorExit) - caught by `except BaseException` / bare `except`, by-passes `except Exception`
FaultInterrupt = _mk((FaultMarkerBase,), BaseException)
FAULTS = (FaultPlain, FaultOS, FaultType, FaultInterrupt)
_DYN = {}


def fault_class_for(C):
    """A fault class caught by `except C` (and by nothing narrower)."""
    if C is BaseException:
        return FaultInterrupt
    for F in FAULTS:
        if issubclass(F, C):
            return F
    if C not in _DYN:
        _DYN[C] = _mk((FaultMarker, C) if issubclass(C, Exception) else (FaultMarkerBase, C), C)
    return _DYN[C]


def fault_classes_for_handlers(handler_classes):
    """The classes a failing call is forked over: the standard four (Exception / OSError / TypeError / a BaseException that
    is no Exception) plus one per exception class named in an `except` clause of the code under verification (so every
    handler is actually taken on some path)."""
    out = list(FAULTS)
    for C in handler_classes:
        if isinstance(C, type) and issubclass(C, BaseException):
            F = fault_class_for(C)
            if F not in out:
                out.append(F)
    return tuple(out)


def is_fault(E):
    return isinstance(E, type) and issubclass(E, FaultMarkerBase)


class World:
    """All ghost state of one symbolic path."""

    def __init__(self, ctx):
        self.ctx = ctx
        self.inject = True
        self.fault_classes = FAULTS
        # the class of a fault is observable only through `except` clauses: when the code under verification contains no
        # `try` statement one class suffices (set by the contract module from the AST of the functions it verifies)
        self.handlers_in_scope = True
        self.faults = []      # sites at which a fault was injected on this path (at most one)
        self.refusals = []    # sites that raised because a value cannot be serialised
        self.fault_class = None
        self.sites = []       # every may-fault site passed, in order
        self.effects = 0      # number of state-changing operations performed
        self.fs = GhostFS(self)
        self.tmp_terms = []
        self.tmpdirs = []
        self.walks = []
        self.zips = []
        self.roots = []       # root groups created through zarr.group / open_group


def world(ctx):
    w = ctx.ghost.get("c08.world")
    if w is None:
        w = World(ctx)
        ctx.ghost["c08.world"] = w
    return w


def raise_fault(ctx, site, why="fault", injected=True):
    """Fork over the (disjoint) exception classes a failing operation may raise.
    injected=False: not a write failure but a value that cannot be serialised (recorded separately)."""
    w = world(ctx)
    (w.faults if injected else w.refusals).append(site)
    cls = w.fault_classes if w.handlers_in_scope else w.fault_classes[:1]
    for c in cls[:-1]:
        if ctx.branch(ctx.fresh("fault_class_is_" + c._catch.__name__, "bool").t):
            w.fault_class = c
            raise RaiseSig(c(f"{why} at {site}"))
    w.fault_class = cls[-1]
    raise RaiseSig(cls[-1](f"{why} at {site}"))


def may_fault(ctx, site):
    """The operation at `site` may fail before having any effect (single-fault model)."""
    w = world(ctx)
    w.sites.append(site)
    if not w.inject or w.faults:
        return
    b = ctx.fresh(f"fault@{site}", "bool")
    if ctx.branch(b.t):
        raise_fault(ctx, site)


# ------------------------------------------------------------------------------------------------
# ghost filesystem
# ------------------------------------------------------------------------------------------------


class Node:
    pass


class Absent(Node):
    def __repr__(self):
        return "Absent"


class DirNode(Node):
    """A directory; `group` is the root zarr group stored in it (None: a plain directory without zarr metadata)."""

    def __init__(self, group=None):
        self.group = group

    def __repr__(self):
        return f"DirNode({self.group})"


class ZipNode(Node):
    def __init__(self, zf):
        self.zf = zf

    def __repr__(self):
        return "ZipNode"


class Moved(Node):
    """Content moved here from the OLD state of another path (os.replace / os.rename of an untouched node)."""

    def __init__(self, src):
        self.src = src


class GhostFS:
    def __init__(self, w):
        self.w = w
        # the state before the call: kind, "a load of this path succeeds", "it is a complete object"
        self.K0 = z3.Function("fs0_kind", STR, INT)
        self.L0 = z3.Function("fs0_loadable", STR, BOOL)
        self.C0 = z3.Function("fs0_complete", STR, BOOL)
        # which file a name resolves to (following symbolic links): two different names with the same value are hard links of
        # one file or a symlink and its destination.  Only meaningful for names of kind FILE.
        self.INO0 = z3.Function("fs0_inode", STR, INT)
        # a name can also be a DANGLING symbolic link: it resolves to nothing (kind ABSENT, os.path.exists is False) but the
        # directory entry exists (lexists) and creating a file "at" the name creates it at the link's destination
        self.DANG0 = z3.Function("fs0_dangling_link", STR, BOOL)
        self.DEST0 = z3.Function("fs0_link_destination", STR, STR)
        # a directory has a LISTING: NENT0(p) entries ENT0(p, 0..NENT0-1) (0 = an empty directory, e.g. one that was only
        # pre-created with mkdir).  Only meaningful for names of kind DIR.  SIZE0: byte size of a name of kind FILE.
        # LINK0: the directory entry itself is a symbolic link (dangling or not).
        self.NENT0 = z3.Function("fs0_dir_entries", STR, INT)
        self.ENT0 = z3.Function("fs0_dir_entry", STR, INT, STR)
        self.SIZE0 = z3.Function("fs0_file_size", STR, INT)
        self.LINK0 = z3.Function("fs0_is_symlink", STR, BOOL)
        self.log = []
        self.through = set()

    def well_formed_old(self):
        """Facts about every old node: kinds are 0/1/2, only existing nodes load."""
        q = z3.String("q!wf")
        return z3.ForAll([q], z3.And(self.K0(q) >= 0, self.K0(q) <= 2, z3.Implies(self.L0(q), self.K0(q) != ABSENT)),
                         patterns=[self.K0(q)])

    def mention(self, p):
        """A path named by the program: it is not the fresh temporary directory unless it is derived from it."""
        p = sterm(p)
        ctx = self.w.ctx
        for t in self.w.tmp_terms:
            if not _subterm(p, t):
                ctx.assume(p != t)
        ctx.assume(z3.And(self.K0(p) >= 0, self.K0(p) <= 2, z3.Implies(self.L0(p), self.K0(p) != ABSENT)))
        d = self.DEST0(p)
        ctx.assume(z3.Implies(self.DANG0(p), z3.And(self.K0(p) == ABSENT, d != p, self.K0(d) == ABSENT, z3.Not(self.DANG0(d)), z3.Not(self.L0(d)))))
        # listings: a directory has >= 0 entries; a directory that loads holds at least its root `zarr.json`; sizes are >= 0;
        # a dangling link is a link
        ctx.assume(z3.And(self.NENT0(p) >= 0, self.SIZE0(p) >= 0, z3.Implies(self.DANG0(p), self.LINK0(p)),
                          z3.Implies(z3.And(self.K0(p) == DIR, self.L0(p)), self.NENT0(p) >= 1)))
        return p

    def dangling(self, q):
        """q is (still) a dangling symbolic link: it was one before the call and its directory entry has not been replaced."""
        q = sterm(q)
        return z3.And(self.untouched(q), self.DANG0(q))

    def write(self, p, node, through=False):
        """through=False: the directory entry p now holds `node` (created / replaced / removed).
        through=True : the EXISTING file p resolves to was written in place (open(p, 'w') on an existing name follows
        symbolic links and keeps the inode): every other name that resolves to the same file - a hard link, a symlink to
        it, the file a symlink p points to - shows the new content as well."""
        if through:
            self.through.add(len(self.log))
        self.log.append((sterm(p), node))
        self.w.effects += 1

    def matches(self, q):
        """m_i(q): does the i-th write define what the name q shows (at the time it is made)?"""
        q = sterm(q)
        ms = []
        for i, (p, node) in enumerate(self.log):
            m = q == p
            if i in self.through:
                shares = z3.And(q != p, self.K0(q) == FILE, self.INO0(q) == self.INO0(p))
                # ... unless q's own directory entry was already replaced / removed by an earlier write
                m = z3.Or(m, z3.And(shares, *[z3.Not(x) for x in ms]))
            ms.append(m)
        return ms

    def view(self, q):
        """[(guard, node | None)]: mutually exclusive, exhaustive; None = the old state of q."""
        ms = self.matches(q)
        out, later = [], []
        for i in range(len(self.log) - 1, -1, -1):
            out.append((z3.And(ms[i], *[z3.Not(x) for x in later]), self.log[i][1]))
            later.append(ms[i])
        out.append((z3.And(*[z3.Not(x) for x in later]) if later else z3.BoolVal(True), None))
        return out

    def old_file_written_in_place(self, q):
        """Some write went INTO the file the name q resolved to before the call (instead of replacing q's directory entry)."""
        q = sterm(q)
        alts = [z3.Or(q == self.log[i][0], z3.And(self.K0(q) == FILE, self.INO0(q) == self.INO0(self.log[i][0]))) for i in sorted(self.through)]
        return z3.Or(*alts) if alts else z3.BoolVal(False)

    def fold(self, q, f, old):
        """ite-chain over the view of q; f(node) for written nodes, `old` for the untouched case."""
        v = self.view(q)
        r = old
        for g, node in reversed(v[:-1]):
            r = z3.If(g, f(node), r)
        return r

    def kind(self, q):
        q = sterm(q)

        def k(node):
            if isinstance(node, Absent):
                return z3.IntVal(ABSENT)
            if isinstance(node, DirNode):
                return z3.IntVal(DIR)
            if isinstance(node, ZipNode):
                return z3.IntVal(FILE)
            if isinstance(node, Moved):
                return self.K0(node.src)
            raise OutOfSubset(f"node {node!r}")

        return z3.simplify(self.fold(q, k, self.K0(q)))

    def nentries(self, q):
        """Number of entries in the listing of the directory q NOW: 0 for a directory this call created and has not yet put a
        zarr tree into, >= 1 (the root `zarr.json`) for a directory holding a group created through zarr.group, the old
        count for an untouched directory.  (Meaningless - 0 - for names that are not directories.)"""
        q = sterm(q)
        ctx = self.w.ctx

        def n(node):
            if isinstance(node, DirNode):
                if node.group is None:
                    return z3.IntVal(0)
                if getattr(node, "nent", None) is None:
                    node.nent = z3.Int(ctx.fresh_name("group_dir_entries"))
                    ctx.assume(node.nent >= 1)
                return node.nent
            if isinstance(node, Moved):
                return self.NENT0(node.src)
            return z3.IntVal(0)

        return z3.simplify(self.fold(q, n, self.NENT0(q)))

    def untouched(self, q):
        """q still holds its old content (never written, or only written through path terms different from q)."""
        return self.view(q)[-1][0]

    def pick(self, q):
        """Fork on which write (if any) currently defines q; returns the node or None (old state)."""
        ctx = self.w.ctx
        for g, node in self.view(q):
            if ctx.branch(g):
                return node
        raise V.OutOfSubset("inconsistent filesystem view")


def _fs(interp):
    return world(interp.ctx).fs


def _kind_fork(interp, p):
    """Concrete kind (0/1/2) of p on this path (forks)."""
    fs = _fs(interp)
    k = fs.kind(p)
    ctx = interp.ctx
    if ctx.branch(k == ABSENT):
        return ABSENT
    if ctx.branch(k == DIR):
        return DIR
    ctx.assume(k == FILE)
    return FILE


# ------------------------------------------------------------------------------------------------
# zarr ghosts
# ------------------------------------------------------------------------------------------------

_FALSE_MAP = z3.K(STR, z3.BoolVal(False))


class GhostStore:
    _pyvc_value = True

    def __init__(self, path):
        self.path = path  # z3 string term

    def __repr__(self):
        return f"GhostStore({self.path})"


class GhostAttrs:
    """`group.attrs`: the set of keys present (a z3 Array String->Bool held by the owner as `owner.A`)."""

    _pyvc_value = True

    def __init__(self, owner):
        self.owner = owner

    def _key_label(self, k):
        return k if isinstance(k, str) else "<name>"

    def __setitem__(self, k, v):
        o = self.owner
        may_fault(o.w.ctx, f"attrs[{self._key_label(k)}]=")
        o.A = z3.Store(o.A, sterm(k), z3.BoolVal(True))
        o.touch()

    def put(self, d):
        raise OutOfSubset("Attributes.put")

    def update(self, d=(), **kw):
        items = list(dict(d).items()) + list(kw.items())
        o = self.owner
        may_fault(o.w.ctx, "attrs.update")
        for k, _ in items:
            o.A = z3.Store(o.A, sterm(k), z3.BoolVal(True))
        o.touch()

    def has(self, k):
        return z3.Select(self.owner.A, sterm(k))

    def __contains__(self, k):
        return bool(Sym(self.has(k)))

    def get(self, k, default=None):
        raise OutOfSubset("reading attribute values of a ghost group (save side only)")

    def __getitem__(self, k):
        raise OutOfSubset("reading attribute values of a ghost group (save side only)")

    def __delitem__(self, k):
        raise OutOfSubset("deleting attributes of a ghost group")


class GhostArray:
    _pyvc_value = True

    def __init__(self, group, name):
        self.group = group
        self.w = group.w
        self.name = name
        self.A = _FALSE_MAP
        self.attrs = GhostAttrs(self)
        self.written = False

    def touch(self):
        self.group.touch()

    def __setitem__(self, k, v):
        may_fault(self.w.ctx, "Array[...]=")
        self.written = True
        self.group.W = z3.Store(self.group.W, self.name, z3.BoolVal(True))
        self.touch()


FIELDS = ("A", "R", "G", "W", "done")


class GhostGroup:
    """A zarr group being written.  A / R / G: which attribute keys / child arrays / child groups exist; W: the child
    arrays that received data;
    `done`: GHOST - the names whose serialisation was completed by a normally returning `_serialize_value`
    (set only by that contract, never by a library call)."""

    _pyvc_value = True

    def __init__(self, w, store_path=None, parent=None, unknown=False, tag="g"):
        self.w = w
        self.store_path = store_path
        self.parent = parent
        if unknown:
            n = w.ctx.fresh_name(tag)
            for f in FIELDS:
                setattr(self, f, z3.Const(f"{n}_{f}", z3.ArraySort(STR, BOOL)))
        else:
            self.A = self.R = self.G = self.W = self.done = _FALSE_MAP
        self.attrs = GhostAttrs(self)
        self.stamp = 0
        self.children = []

    def __repr__(self):
        return f"GhostGroup@{self.store_path}"

    def root(self):
        g = self
        while g.parent is not None:
            g = g.parent
        return g

    def touch(self):
        self.root().stamp += 1
        self.w.effects += 1

    def present(self, name):
        n = sterm(name)
        return z3.Or(z3.Select(self.A, n), z3.Select(self.R, n), z3.Select(self.G, n))

    def has_child(self, name):
        n = sterm(name)
        return z3.Or(z3.Select(self.R, n), z3.Select(self.G, n))

    def __contains__(self, name):
        return bool(Sym(self.has_child(name)))

    def _child_group(self, name, site, must_be_new):
        ctx = self.w.ctx
        may_fault(ctx, site)
        n = sterm(name)
        exists = z3.Select(self.G, n)
        if ctx.branch(exists):
            if must_be_new:
                raise RaiseSig(KeyError("group exists"))
            child = GhostGroup(self.w, parent=self, unknown=True, tag="child")
        else:
            child = GhostGroup(self.w, parent=self)
        self.G = z3.Store(self.G, n, z3.BoolVal(True))
        self.children.append((n, child))
        self.touch()
        return child

    def require_group(self, name, **kw):
        return self._child_group(name, "Group.require_group", False)

    def create_group(self, name, **kw):
        return self._child_group(name, "Group.create_group", not kw.get("overwrite", False))

    def create_array(self, name=None, shape=None, dtype=None, compressors=None, data=None, **kw):
        ctx = self.w.ctx
        may_fault(ctx, "Group.create_array")
        try:
            import numpy as np

            unstorable = dtype is not None and not contains_sym(dtype) and np.dtype(dtype).kind == "O"
        except TypeError:
            unstorable = False
        if unstorable:
            # zarr v3: "Zarr data type resolution from object failed" - nothing is created
            self.w.refusals.append("Group.create_array(dtype=object)")
            raise RaiseSig(ValueError("Zarr data type resolution from object failed"))
        n = sterm(name)
        self.R = z3.Store(self.R, n, z3.BoolVal(True))
        self.touch()
        arr = GhostArray(self, n)
        arr.shape, arr.dtype = shape, dtype
        return arr

    create_dataset = create_array

    def havoc_grow(self, tag="part"):
        """Arbitrary further writes happened: every map is replaced by an unknown SUPERSET of itself."""
        ctx = self.w.ctx
        n = ctx.fresh_name(tag)
        q = z3.String(f"{n}_q")
        for f in FIELDS:
            old = getattr(self, f)
            new = z3.Const(f"{n}_{f}", z3.ArraySort(STR, BOOL))
            ctx.assume(z3.ForAll([q], z3.Implies(z3.Select(old, q), z3.Select(new, q)), patterns=[z3.Select(new, q)]))
            setattr(self, f, new)
        self.touch()

    def __getitem__(self, k):
        raise OutOfSubset("reading children of a ghost group (save side only)")

    def __delitem__(self, k):
        raise OutOfSubset("deleting children of a ghost group")


# ------------------------------------------------------------------------------------------------
# zipfile / tempfile / walk ghosts
# ------------------------------------------------------------------------------------------------


class GhostZip:
    """An archive being written (append-only).  Ghost state:
       count     number of entries written
       names     Array String->Bool: the archive names present
       conforms  HISTORY variable: every entry written so far was the one `expect(index)` = (source, archive name) asked for
                 (`expect` is installed by the contract that states what the archive should contain; entries can neither be
                 overwritten nor removed, so this is equivalent to the quantified statement over all entries)
       valid     the central directory has been written (the archive can be opened)"""

    _pyvc_value = True

    def __init__(self, w, path, mode):
        self.w = w
        self.path = path
        self.mode = mode
        self.count = z3.IntVal(0)
        self.names = z3.K(STR, z3.BoolVal(False))
        self.conforms = z3.BoolVal(True)
        self.expect = None
        self.valid = False
        self.closed = False

    def set_expectation(self, expect):
        """Only before the first entry is written (otherwise the history is unknown)."""
        if self.expect is None:
            c = z3.simplify(self.count)
            self.expect = expect
            if not (z3.is_int_value(c) and c.as_long() == 0):
                self.conforms = z3.BoolVal(False)

    def write(self, filename, arcname=None, *a, **kw):
        ctx = self.w.ctx
        if self.closed:
            raise RaiseSig(ValueError("Attempt to write to ZIP archive that was already closed"))
        may_fault(ctx, "ZipFile.write")
        f = sterm(filename)
        a_ = sterm(arcname) if arcname is not None else f
        if self.expect is not None:
            es, ea = self.expect(self.count)
            self.conforms = z3.simplify(z3.And(self.conforms, f == es, a_ == ea))
        else:
            self.conforms = z3.BoolVal(False)
        self.names = z3.Store(self.names, a_, z3.BoolVal(True))
        self.count = z3.simplify(self.count + 1)
        self.w.effects += 1

    def writestr(self, arcname, data, *a, **kw):
        raise OutOfSubset("ZipFile.writestr")

    def close(self):
        if not self.closed:
            self.closed = True
            self.valid = True

    def havoc(self, ctx):
        """Loop havoc: an unknown number of entries has been written."""
        n = ctx.fresh_name("zip")
        c = z3.Int(f"{n}_count")
        ctx.assume(c >= 0)
        self.count = c
        self.names = z3.Const(f"{n}_names", z3.ArraySort(STR, BOOL))
        self.conforms = z3.Bool(f"{n}_conforms")


class GhostTmpDir:
    _pyvc_value = True

    def __init__(self, w, term, auto_cleanup=True):
        self.w = w
        self.term = term
        self.name = Sym(term)
        self.removed = False
        self.auto_cleanup = auto_cleanup

    def cleanup(self):
        if not self.removed:
            self.removed = True
            self.w.fs.write(self.term, Absent())


class Opaque:
    _pyvc_value = True

    def __init__(self, what):
        self.what = what

    def __repr__(self):
        return f"<opaque {self.what}>"


class WalkFiles(V.SymArr):
    """The `filenames` list of one os.walk step (its own type so that a loop over it can be recognised wherever it sits)."""


class WalkGen(GhostGen):
    """os.walk(top): N directories (top first); directory k has NF(k) = PRE(k+1) - PRE(k) files FNAME(k, j);
    FLAT(i) is the i-th file of the whole enumeration (full path).  `meta` is the position (in directory 0 = top) of the
    file `zarr.json` that holds the root group's attributes when `top` is a zarr LocalStore."""

    def __init__(self, w, top):
        super().__init__([("family", None, None, None, "os.walk")])
        ctx = w.ctx
        self.w = w
        self.top = sterm(top)
        n = ctx.fresh_name("walk")
        self.tag = n
        self.N = z3.Int(f"{n}_ndirs")
        self.PRE = z3.Function(f"{n}_PRE", INT, INT)
        self.DIRPATH = z3.Function(f"{n}_dirpath", INT, STR)
        self.FNAME = z3.Function(f"{n}_fname", INT, INT, STR)
        self.FLAT = z3.Function(f"{n}_flat", INT, STR)
        self.meta = z3.Int(f"{n}_meta")
        # N >= 1 directories, `top` first; the files of the first directory are among all files (PRE is non-decreasing)
        ctx.assume(z3.And(self.N >= 1, self.PRE(0) == 0, self.DIRPATH(0) == self.top, self.PRE(1) <= self.PRE(self.N)))
        # which group tree (if any) lives under `top`, and its modification stamp when the enumeration was taken
        self.group = None
        for g in w.roots:
            if g.store_path is not None and g.store_path.eq(self.top):
                self.group = g
        self.stamp = self.group.stamp if self.group is not None else None
        if self.group is not None:
            zj = z3.StringVal("zarr.json")
            ctx.assume(z3.And(self.meta >= 0, self.meta < self.PRE(1), self.FNAME(0, self.meta) == zj,
                              self.FLAT(self.meta) == JOIN(self.top, zj), REL(JOIN(self.top, zj), self.top) == zj))
        w.walks.append(self)

    def total(self):
        return self.PRE(self.N)

    def concrete_list_or_none(self):
        return None

    def family(self):
        ctx = self.w.ctx

        def getter(k):
            kt = lift(k)
            nf = self.PRE(kt + 1) - self.PRE(kt)
            ctx.assume(nf >= 0)

            def fname(j):
                jt = lift(j)
                # definition of the flattened enumeration at this position (ground instance; FLAT is otherwise unconstrained)
                ctx.assume(z3.Implies(z3.And(kt >= 0, kt < self.N, jt >= 0, jt < nf),
                                      self.FLAT(self.PRE(kt) + jt) == JOIN(self.DIRPATH(kt), self.FNAME(kt, jt))))
                return Sym(self.FNAME(kt, jt))

            files = WalkFiles((Sym(nf),), fname, "str", pylist=True)
            files.walk = self
            return (Sym(self.DIRPATH(kt)), Opaque("dirnames"), files)

        return Sym(self.N), getter


# ------------------------------------------------------------------------------------------------
# install
# ------------------------------------------------------------------------------------------------


def install(reg):
    import zarr
    from zarr.storage import LocalStore

    M = reg.models

    # ---- strings ------------------------------------------------------------------------------
    def attr_sym(interp, base, name):
        if not is_strsym(base):
            return NotImplemented
        t = base.t
        if name == "endswith":
            return lambda suf: Sym(z3.SuffixOf(sterm(suf), t))
        if name == "startswith":
            return lambda pre: Sym(z3.PrefixOf(sterm(pre), t))
        if name == "__fspath__":
            return lambda: base
        return NotImplemented

    prev_attr = reg.attr_models.get(Sym)

    def attr_sym_chain(interp, base, name):
        r = attr_sym(interp, base, name)
        if r is NotImplemented and prev_attr is not None:
            return prev_attr(interp, base, name)
        return r

    reg.attr_models[Sym] = attr_sym_chain

    def add_str(interp, op, a, b):
        if is_str(a) and is_str(b) and (is_strsym(a) or is_strsym(b)):
            return Sym(z3.Concat(sterm(a), sterm(b)))
        return NotImplemented

    reg.binop_models[(Sym, operator.add)] = add_str

    import ast as _ast

    prev_cmp = reg.cmp_models.get(Sym)

    def cmp_sym(interp, t, a, b):
        if (is_strsym(a) or is_strsym(b)) and is_str(a) and is_str(b):
            if t is _ast.Eq:
                return Sym(sterm(a) == sterm(b))
            if t is _ast.NotEq:
                return Sym(sterm(a) != sterm(b))
            raise OutOfSubset("ordering comparison of symbolic strings")
        if (is_strsym(a) or is_strsym(b)) and t in (_ast.Eq, _ast.NotEq):
            return t is _ast.NotEq  # a string never equals a non-string
        if prev_cmp is not None:
            return prev_cmp(interp, t, a, b)
        return NotImplemented

    reg.cmp_models[Sym] = cmp_sym

    # ---- os.path ------------------------------------------------------------------------------
    def m_exists(interp, p):
        fs = _fs(interp)
        p = fs.mention(p)
        return Sym(fs.kind(p) != ABSENT)

    def m_isdir(interp, p):
        fs = _fs(interp)
        p = fs.mention(p)
        return Sym(fs.kind(p) == DIR)

    def m_isfile(interp, p):
        fs = _fs(interp)
        p = fs.mention(p)
        return Sym(fs.kind(p) == FILE)

    def m_lexists(interp, p):
        fs = _fs(interp)
        p = fs.mention(p)
        return Sym(z3.Or(fs.kind(p) != ABSENT, fs.dangling(p)))

    M[os.path.exists] = m_exists      # follows symbolic links: False for a dangling link
    M[os.path.lexists] = m_lexists    # the directory entry exists
    M[os.path.isdir] = m_isdir
    M[os.path.isfile] = m_isfile

    def m_islink(interp, p):
        fs = _fs(interp)
        p = fs.mention(p)
        return Sym(z3.And(fs.untouched(p), fs.LINK0(p)))  # nothing modelled here creates a symbolic link

    M[os.path.islink] = m_islink

    def m_getsize(interp, p):
        fs = _fs(interp)
        p = fs.mention(p)
        k = _kind_fork(interp, p)
        if k == ABSENT:
            raise RaiseSig(FileNotFoundError("getsize: no such file"))
        if k == FILE and fs.pick(p) is None:
            return Sym(fs.SIZE0(p))
        n = z3.Int(interp.ctx.fresh_name("size"))  # a directory / a file written during this call: some size >= 0
        interp.ctx.assume(n >= 0)
        return Sym(n)

    M[os.path.getsize] = m_getsize

    def listing(interp, p, what):
        """The listing of directory p (read-only): a list of `nentries(p)` names; raises for a missing name (also a dangling
        link) and for a file."""
        fs = _fs(interp)
        p = fs.mention(p)
        k = _kind_fork(interp, p)
        if k == ABSENT:
            raise RaiseSig(FileNotFoundError(f"{what}: no such directory"))
        if k == FILE:
            raise RaiseSig(NotADirectoryError(f"{what}: not a directory"))
        n = fs.nentries(p)
        if fs.pick(p) is None:
            ent = lambda i: Sym(fs.ENT0(p, lift(i)))
        else:
            E = z3.Function(interp.ctx.fresh_name("dir_entry"), INT, STR)
            ent = lambda i: Sym(E(lift(i)))
        nv = z3.simplify(n)
        return V.SymArr((nv.as_long() if z3.is_int_value(nv) else Sym(n),), ent, "str", pylist=True)

    M[os.listdir] = lambda interp, p=".": listing(interp, p, "listdir")
    M[os.scandir] = lambda interp, p=".": listing(interp, p, "scandir")  # only counted / tested for emptiness

    def m_join(interp, a, *rest):
        if not contains_sym((a, rest)):
            return interp.native(os.path.join, a, *rest)
        t = sterm(a)
        for r in rest:
            t = JOIN(t, sterm(r))
        return Sym(t)

    M[os.path.join] = m_join

    def m_relpath(interp, p, start=None):
        if not contains_sym((p, start)):
            return interp.native(os.path.relpath, p, start) if start is not None else interp.native(os.path.relpath, p)
        if start is None:
            raise OutOfSubset("relpath against the working directory")
        return Sym(REL(sterm(p), sterm(start)))

    M[os.path.relpath] = m_relpath

    def m_splitext(interp, p):
        if not contains_sym(p):
            return interp.native(os.path.splitext, p)
        t = sterm(p)
        interp.ctx.assume(t == z3.Concat(ROOTOF(t), EXT(t)))
        return (Sym(ROOTOF(t)), Sym(EXT(t)))

    M[os.path.splitext] = m_splitext

    def m_fspath(interp, p):
        if is_strsym(p):
            return p
        return interp.native(os.fspath, p)

    M[os.fspath] = m_fspath

    # ---- os / shutil --------------------------------------------------------------------------
    def m_remove(interp, p, **kw):
        fs = _fs(interp)
        p = fs.mention(p)
        may_fault(interp.ctx, "os.remove")
        k = _kind_fork(interp, p)
        if k == ABSENT:
            if interp.ctx.branch(fs.dangling(p)):
                fs.write(p, Absent())  # unlinks the (dangling) link itself
                return
            raise RaiseSig(FileNotFoundError("os.remove: no such file"))
        if k == DIR:
            raise RaiseSig(IsADirectoryError("os.remove: is a directory"))
        fs.write(p, Absent())

    M[os.remove] = m_remove
    M[os.unlink] = m_remove

    def m_rmtree(interp, p, ignore_errors=False, onerror=None, **kw):
        fs = _fs(interp)
        p = fs.mention(p)
        if not ignore_errors:
            may_fault(interp.ctx, "shutil.rmtree")
        k = _kind_fork(interp, p)
        if k == ABSENT:
            if ignore_errors:
                return
            raise RaiseSig(FileNotFoundError("rmtree: no such directory"))
        if k == FILE:
            if ignore_errors:
                return
            raise RaiseSig(NotADirectoryError("rmtree: not a directory"))
        fs.write(p, Absent())

    M[shutil.rmtree] = m_rmtree

    def m_makedirs(interp, p, mode=0o777, exist_ok=False):
        fs = _fs(interp)
        p = fs.mention(p)
        may_fault(interp.ctx, "os.makedirs")
        k = _kind_fork(interp, p)
        if k == FILE or (k == DIR and not exist_ok):
            raise RaiseSig(FileExistsError("makedirs: file exists"))
        if k == ABSENT:
            if interp.ctx.branch(fs.dangling(p)):
                raise RaiseSig(FileExistsError("makedirs: the name exists (dangling symbolic link)"))
            fs.write(p, DirNode(None))

    M[os.makedirs] = m_makedirs

    def m_mkdir(interp, p, mode=0o777, **kw):
        fs = _fs(interp)
        p = fs.mention(p)
        may_fault(interp.ctx, "os.mkdir")
        k = _kind_fork(interp, p)
        if k != ABSENT:
            raise RaiseSig(FileExistsError("mkdir: file exists"))
        fs.write(p, DirNode(None))

    M[os.mkdir] = m_mkdir

    def m_replace(interp, src, dst, **kw):
        fs = _fs(interp)
        src, dst = fs.mention(src), fs.mention(dst)
        may_fault(interp.ctx, "os.replace")
        ks = _kind_fork(interp, src)
        if ks == ABSENT:
            raise RaiseSig(FileNotFoundError("replace: no such file"))
        kd = _kind_fork(interp, dst)
        if kd == DIR and ks == FILE:
            raise RaiseSig(IsADirectoryError("replace: destination is a directory"))
        if kd == FILE and ks == DIR:
            raise RaiseSig(NotADirectoryError("replace: destination is a file"))
        node = fs.pick(src)
        fs.write(dst, node if node is not None else Moved(src))
        fs.write(src, Absent())

    M[os.replace] = m_replace
    M[os.rename] = m_replace

    def m_move(interp, src, dst, **kw):
        m_replace(interp, src, dst)
        return dst

    M[shutil.move] = m_move

    # ---- tempfile -----------------------------------------------------------------------------
    def new_tmp(interp, site, auto):
        w = world(interp.ctx)
        ctx = interp.ctx
        may_fault(ctx, site)
        t = z3.String(ctx.fresh_name("tmpdir"))
        fs = w.fs
        # freshness: did not exist, is none of the paths named so far (later paths: GhostFS.mention)
        ctx.assume(fs.kind(t) == ABSENT)
        ctx.assume(z3.And(fs.K0(t) == ABSENT, z3.Not(fs.DANG0(t))))
        for p, _ in fs.log:
            ctx.assume(p != t)
        for p in w.ctx.ghost.get("c08.named_paths", []):
            ctx.assume(sterm(p) != t)
        w.tmp_terms.append(t)
        fs.write(t, DirNode(None))
        d = GhostTmpDir(w, t, auto)
        w.tmpdirs.append(d)
        return d

    def m_tmpdir(interp, *a, **kw):
        return new_tmp(interp, "TemporaryDirectory", True)

    M[tempfile.TemporaryDirectory] = m_tmpdir

    def m_mkdtemp(interp, *a, **kw):
        return new_tmp(interp, "mkdtemp", False).name

    M[tempfile.mkdtemp] = m_mkdtemp

    def with_tmp(interp, cm, phase):
        if phase == "enter":
            return cm.name
        cm.cleanup()  # on normal and exceptional exit

    reg.with_models[GhostTmpDir] = with_tmp

    # ---- zipfile ------------------------------------------------------------------------------
    def m_zipfile(interp, file, mode="r", *a, **kw):
        w = world(interp.ctx)
        fs = w.fs
        if not isinstance(mode, str):
            raise OutOfSubset("ZipFile with symbolic mode")
        if mode not in ("w", "x"):
            raise OutOfSubset(f"ZipFile mode {mode!r} (only writing is modelled)")
        p = fs.mention(file)
        may_fault(interp.ctx, "ZipFile.open")
        k = _kind_fork(interp, p)
        if k == DIR:
            raise RaiseSig(IsADirectoryError("ZipFile: is a directory"))
        if k == FILE and mode == "x":
            raise RaiseSig(FileExistsError("ZipFile mode x: file exists"))
        zf = GhostZip(w, p, mode)
        in_place = False
        if k == ABSENT and interp.ctx.branch(fs.dangling(p)):
            if mode == "x":
                raise RaiseSig(FileExistsError("ZipFile mode x: file exists"))
            # open(p, 'wb') through a dangling symbolic link creates the file at the link's DESTINATION - another path
            dest = fs.mention(fs.DEST0(p))
            node = ZipNode(zf)
            fs.write(dest, node)
            fs.write(p, node)
            w.zips.append(zf)
            return zf
        if k == FILE:
            # open(p, 'wb') on an existing name truncates the file the name resolves to; if that is still the file from before
            # the call, every other name of that file sees the archive
            in_place = fs.pick(p) is None
        fs.write(p, ZipNode(zf), through=in_place)  # truncated / created now; unreadable until closed
        w.zips.append(zf)
        return zf

    M[zipfile.ZipFile] = m_zipfile

    def with_zip(interp, cm, phase):
        if phase == "enter":
            return cm
        cm.close()  # ZipFile.__exit__ -> close(): writes the central directory, also when the body raised

    reg.with_models[GhostZip] = with_zip

    # ---- os.walk ------------------------------------------------------------------------------
    def m_walk(interp, top, topdown=True, onerror=None, followlinks=False):
        if not topdown:
            raise OutOfSubset("os.walk(topdown=False)")
        w = world(interp.ctx)
        w.fs.mention(top)
        return WalkGen(w, top)

    M[os.walk] = m_walk

    # ---- zarr ---------------------------------------------------------------------------------
    def m_localstore(interp, root, **kw):
        return GhostStore(sterm(root))

    M[LocalStore] = m_localstore

    def m_group(interp, store=None, overwrite=False, **kw):
        w = world(interp.ctx)
        fs = w.fs
        ctx = interp.ctx
        if isinstance(store, GhostStore):
            p = store.path
        elif is_str(store):
            p = sterm(store)
        else:
            raise OutOfSubset(f"zarr.group on {type(store).__name__}")
        p = fs.mention(p)
        may_fault(ctx, "zarr.group")
        k = _kind_fork(interp, p)
        if k == FILE:
            raise RaiseSig(NotADirectoryError("zarr.group: store path is a file"))
        known_empty = False
        if k == DIR:
            node = fs.pick(p)
            known_empty = isinstance(node, DirNode) and node.group is None
        if overwrite or k == ABSENT or known_empty:
            g = GhostGroup(w, store_path=p)
        else:
            # an existing directory opened without overwrite: whatever was there stays there
            g = GhostGroup(w, store_path=p, unknown=True, tag="existing")
        fs.write(p, DirNode(g))
        w.roots.append(g)
        return g

    M[zarr.group] = m_group
    M[zarr.open_group] = lambda interp, store=None, mode="a", **kw: m_group(interp, store, overwrite=(mode == "w"), **kw)

    def m_delattr(interp, x, name):
        if isinstance(x, V.Obj):
            if name not in x.fields:
                raise RaiseSig(AttributeError(name))
            del x.fields[name]
            return None
        return interp.native(delattr, x, name)

    M[delattr] = m_delattr

    def contains_attrs(interp, container, item):
        return Sym(container.has(item))

    reg.contains_models[GhostAttrs] = contains_attrs

    def contains_group(interp, container, item):
        return Sym(container.has_child(item))

    reg.contains_models[GhostGroup] = contains_group
    return reg
