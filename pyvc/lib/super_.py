"""Zero-argument super() on abstract objects (same semantics as the model first written in c03_models.py):
`super().m(...)` resolves m along the MRO of the instance's class AFTER the class that defines the running method."""
from __future__ import annotations

import types

from ..values import Obj, OutOfSubset
from ..interp import BoundMethod, RaiseSig


class SuperProxy:
    _pyvc_value = True

    def __init__(self, defcls, inst):
        self.defcls, self.inst = defcls, inst


def install(reg):
    def attr_super(interp, sp, name):
        inst = sp.inst
        cls = inst.cls if isinstance(inst, Obj) else inst
        mro = cls.__mro__
        i = mro.index(sp.defcls)
        for k in mro[i + 1:]:
            if name in k.__dict__:
                at = k.__dict__[name]
                if isinstance(at, types.FunctionType):
                    return BoundMethod(inst, at)
                if isinstance(at, classmethod):
                    return BoundMethod(cls, at.__func__)
                if isinstance(at, staticmethod):
                    return at.__func__
                if k is object:
                    return lambda *a, **kw: None
                return at
        raise RaiseSig(AttributeError(name))

    reg.attr_models[SuperProxy] = attr_super

    def m_super(interp, *a):
        if a:
            raise OutOfSubset("super(T, obj) with explicit arguments")
        env = getattr(interp, "cur_env", None)
        inst, e = None, env
        while e is not None:
            if "self" in e.vars:
                inst = e.vars["self"]
                break
            if "cls" in e.vars:
                inst = e.vars["cls"]
                break
            e = e.parent
        frame = interp.ctx.frames[-1] if interp.ctx.frames else ""
        clsname = frame.split(".")[0]
        defcls = env.globs.get(clsname) if env is not None else None
        if inst is None or not isinstance(defcls, type):
            raise OutOfSubset(f"zero-argument super() outside a method ({frame})")
        return SuperProxy(defcls, inst)

    reg.models[super] = m_super
