"""TRUSTED library models needed by C12 (aberration surface).  Nothing here is about quantem: each entry states the
contract of a Python / torch / numpy facility on symbolic values (A1: floats are reals, A6: third-party behaviour).

* exact constants  : the quotient of two integer-valued int/float *constants* is the exact rational (1/3 is one third, not
                     its binary64 rounding) - A1 applied to literals;
* tensor methods   : x.square() = x*x pointwise; x.broadcast_to(*shape) index map; x[bool_mask] = gather at the positions of
                     the True entries in row-major order (ghost position function shared by all uses of the same mask);
* torch functions  : tensor(scalar) = scalar; atan2/arctan2 -> A4 symbol; fft.fftfreq(n, d) = length-n real tensor
                     (values abstract: no C12 statement depends on them);
* containers       : defaultdict(factory, mapping) and copy.deepcopy of dict/list trees with symbolic leaves.
"""
from __future__ import annotations

import collections
import copy
import math
import operator
from fractions import Fraction

import numpy as np
import torch
import z3

from .. import values as V
from .. import reals
from ..values import Sym, SymArr, S, lift, contains_sym, OutOfSubset, elementwise


def _exact(x):
    """int / integer-valued-or-dyadic float constant -> Fraction (exact), else None."""
    if isinstance(x, bool):
        return None
    if isinstance(x, int):
        return Fraction(x)
    if isinstance(x, Fraction):
        return x
    if isinstance(x, float) and x == x and x not in (float("inf"), float("-inf")):
        f = Fraction(repr(x))  # shortest decimal that round-trips == the literal as written
        return f
    return None


class SymMap:
    """A Python mapping with a finite, concrete key universe in a fixed order, where each key is *symbolically* present
    (z3 Bool or bool) and carries a symbolic value.  `k in m` -> Bool term; `m.get(k, d)` -> ite(present, value, d) without
    forking; `m[k]` forks (KeyError path) unless a default factory is attached (defaultdict semantics, no insertion
    modelled: a missing key always yields a fresh default, which is what defaultdict returns on first access);
    iteration (`items/keys/values`) forks on the presence of every key."""

    _pyvc_value = True

    def __init__(self, keys, present, value, default_factory=None, zero_when_absent=False):
        """zero_when_absent: the creator has assumed  not present[k] => value[k] == 0  for every key (a re-parametrisation
        without loss of generality: the value of an absent key is never observable).  Then `get(k, 0)` IS value[k]
        and no if-then-else term is needed."""
        self.universe = list(keys)
        self.present = dict(present)
        self.value = dict(value)
        self.default_factory = default_factory
        self.zero_when_absent = zero_when_absent

    def with_default(self, factory):
        return SymMap(self.universe, self.present, self.value, factory, self.zero_when_absent)

    @staticmethod
    def _is_zero(d):
        if isinstance(d, (Sym, SymArr)) or d is None:
            return False
        try:
            return float(d) == 0.0
        except Exception:
            return False

    def _p(self, k):
        return self.present.get(k, False) if isinstance(k, str) and k in self.value else False

    def contains(self, k):
        p = self._p(k)
        return p if isinstance(p, bool) else Sym(p)

    def get(self, k, default=None):
        p = self._p(k)
        if p is False:
            return default
        if p is True:
            return self.value[k]
        if default is None or isinstance(default, (str, dict, list, tuple)):
            return self.value[k] if V.cur().branch(p) else default
        if self.zero_when_absent and self._is_zero(default):
            return self.value[k]
        return V.ite(p, self.value[k], default)

    get._sym_ok = True

    def getitem(self, k):
        from ..interp import RaiseSig

        p = self._p(k)
        if self.default_factory is not None:
            if p is True:
                return self.value[k]
            d = self.default_factory()
            if p is False:
                return d
            if self.zero_when_absent and self._is_zero(d):
                return self.value[k]
            return V.ite(p, self.value[k], d)
        if p is True or (p is not False and V.cur().branch(p)):
            return self.value[k]
        raise RaiseSig(KeyError(k))

    def keys(self):
        return [k for k in self.universe if (self._p(k) is True) or (self._p(k) is not False and V.cur().branch(self._p(k)))]

    def items(self):
        return [(k, self.value[k]) for k in self.keys()]

    def values(self):
        return [self.value[k] for k in self.keys()]

    def __iter__(self):
        return iter(self.keys())

    def copy(self):
        return SymMap(self.universe, self.present, self.value, self.default_factory, self.zero_when_absent)

    def __repr__(self):
        return f"SymMap({self.universe})"


class RecipSym:
    """A positive real given as the formal reciprocal 1/mu of a positive symbol mu (used for the wavelength):
    x / (1/mu) = x*mu and x * (1/mu) = x/mu are exact real-arithmetic identities (A1), and they keep `2*pi/wavelength`
    polynomial, so statements can be phrased without dividing by a variable."""

    _pyvc_value = True

    def __init__(self, mu):
        self.mu = mu  # Sym, assumed > 0 by the creator

    @property
    def t(self):
        return z3.RealVal(1) / self.mu.t

    def __rtruediv__(self, x):
        return x * self.mu

    def __truediv__(self, x):
        if isinstance(x, RecipSym):
            return x.mu / self.mu
        return RecipSym(self.mu * x)

    def __mul__(self, x):
        if isinstance(x, RecipSym):
            return RecipSym(self.mu * x.mu)
        return x / self.mu

    __rmul__ = __mul__

    def __repr__(self):
        return f"RecipSym(1/{self.mu.t})"


# torch.fft.fftfreq(n, d)[i] as a term: a fixed (uninterpreted) function of (n, d, i) - shared with the contracts, which state
# results of grid functions in terms of it
FFTFREQ = z3.Function("fftfreq", z3.IntSort(), z3.RealSort(), z3.IntSort(), z3.RealSort())


def fft_term(n, d, i):
    """the term fftfreq(n, d)[i] (the one m_fftfreq below produces for symbolic n or d)"""
    return FFTFREQ(lift(n), reals._real(d), i)


def install(reg):
    M = reg.models

    # ---- SymMap protocol ---------------------------------------------------------------------------------------
    reg.contains_models[SymMap] = lambda interp, container, item: container.contains(item)
    reg.getitem_models[SymMap] = lambda interp, base, key: base.getitem(key)

    def m_any(interp, xs):
        """any(): over bool terms the disjunction is returned as a term (no path fork) - same value as the builtin."""
        vals = interp.iter_values(xs)
        if vals is None:
            raise OutOfSubset("any() over symbolic-length iterable")
        if all(isinstance(v, bool) or (isinstance(v, Sym) and v.is_bool) for v in vals):
            if any(v is True for v in vals):
                return True
            terms = [v.t for v in vals if isinstance(v, Sym)]
            return Sym(z3.Or(*terms)) if terms else False
        for v in vals:
            if interp.truth(v):
                return True
        return False

    M[any] = m_any

    # ---- exact rational constants (A1 on literals) -------------------------------------------------------------
    def m_const_div(interp, op, a, b):
        if isinstance(a, (Sym, SymArr)) or isinstance(b, (Sym, SymArr)):
            return NotImplemented
        fa, fb = _exact(a), _exact(b)
        if fa is None or fb is None or fb == 0:
            return NotImplemented
        return fa / fb

    reg.binop_models[(int, operator.truediv)] = m_const_div
    reg.binop_models[(float, operator.truediv)] = m_const_div
    reg.binop_models[(Fraction, operator.truediv)] = m_const_div

    def m_frac_arith(interp, op, a, b):
        """Fraction (+,-,*) float constant stays exact instead of degrading to binary64."""
        if isinstance(a, (Sym, SymArr)) or isinstance(b, (Sym, SymArr)):
            return NotImplemented
        if isinstance(a, float) or isinstance(b, float):
            fa, fb = _exact(a), _exact(b)
            if fa is not None and fb is not None:
                return op(fa, fb)
        return NotImplemented

    for _op in (operator.add, operator.sub, operator.mul):
        reg.binop_models[(Fraction, _op)] = m_frac_arith

    # ---- tensor methods on index-function arrays -----------------------------------------------------------------
    def bool_mask_gather(base, mask):
        """x[mask] for a boolean mask of x's shape: 1-D tensor of the selected elements (row-major order).
        Ghost: count M >= 0 and position functions pos_d(j), with mask[pos(j)] true and pos(j) in range."""
        ctx = V.cur()
        g = getattr(mask, "_gather_ghost", None)
        if g is None:
            nm = ctx.fresh_name("sel")
            count = ctx.fresh(nm + "_count", "int")
            ctx.assume(count.t >= 0)
            pos = [z3.Function(f"{nm}_pos{d}", z3.IntSort(), z3.IntSort()) for d in range(mask.ndim)]
            g = (count, pos)
            mask._gather_ghost = g
        count, pos = g
        if base.ndim != mask.ndim:
            raise OutOfSubset("boolean mask of different rank")
        r = SymArr((count,), lambda j, _b=base, _p=pos: _b.fn(*[p(j) for p in _p]), base.kind)
        r.as_type = torch.Tensor
        r.gather_pos = pos
        return r

    reg.bool_mask_gather = bool_mask_gather
    prev_gi = reg.getitem_models.get(SymArr)

    def gi(interp, base, key):
        if isinstance(key, SymArr) and key.kind == "bool" and not base.pylist:
            return bool_mask_gather(base, key)
        if prev_gi is not None:
            return prev_gi(interp, base, key)
        return NotImplemented

    reg.getitem_models[SymArr] = gi

    prev_attr = reg.attr_models.get(SymArr)

    def arr_attr(interp, base, name):
        if name == "square" and not base.pylist:
            return lambda: base * base
        if name == "broadcast_to" and not base.pylist:
            def bto(*shape):
                if len(shape) == 1 and isinstance(shape[0], (tuple, list)):
                    shape = tuple(shape[0])
                shape = tuple(shape)
                nd = len(shape)
                off = nd - base.ndim
                if off < 0:
                    raise OutOfSubset("broadcast_to a lower rank")

                def fn(*idx, _b=base):
                    sub = [z3.IntVal(0) if V._dim_lit(_b.shape[j]) == 1 else idx[off + j] for j in range(_b.ndim)]
                    return _b.fn(*sub)

                r = SymArr(shape, fn, base.kind)
                r.as_type = getattr(base, "as_type", torch.Tensor)
                return r
            bto._sym_ok = True
            return bto
        if prev_attr is not None:
            return prev_attr(interp, base, name)
        return NotImplemented

    reg.attr_models[SymArr] = arr_attr

    prev_sym_attr = reg.attr_models.get(Sym)

    def sym_attr(interp, base, name):
        if name == "square":
            return lambda: base * base
        if prev_sym_attr is not None:
            return prev_sym_attr(interp, base, name)
        return NotImplemented

    reg.attr_models[Sym] = sym_attr

    # ---- torch functions ------------------------------------------------------------------------------------------
    def m_tensor(interp, data, dtype=None, device=None, requires_grad=False, **kw):
        if isinstance(data, Sym):
            return data  # A1: a 0-d tensor holding a real is that real
        if isinstance(data, SymArr):
            return data
        if contains_sym(data):
            if isinstance(data, (list, tuple)):
                r = V.from_list(list(data), kind="real", pylist=False)
                r.as_type = torch.Tensor
                return r
            raise OutOfSubset("torch.tensor of a nested symbolic structure")
        if isinstance(data, Fraction):
            data = float(data)
        return interp.native(torch.tensor, data, dtype=dtype, device=device, requires_grad=requires_grad, **kw)

    M[torch.tensor] = m_tensor
    M[torch.as_tensor] = m_tensor

    def m_atan2(interp, y, x):
        if isinstance(y, SymArr) or isinstance(x, SymArr):
            return elementwise(lambda a, b: reals.app("atan2", a, b), y, x)
        if isinstance(y, Sym) or isinstance(x, Sym):
            return reals.app("atan2", y, x)
        return interp.native(torch.atan2, y, x)

    M[torch.atan2] = m_atan2
    M[torch.arctan2] = m_atan2

    def m_math_atan2(interp, y, x):
        if contains_sym((y, x)):
            return reals.app("atan2", y, x)
        return interp.native(math.atan2, y, x)

    M[math.atan2] = m_math_atan2

    def m_fftfreq(interp, n, d=1.0, **kw):
        """torch.fft.fftfreq(n, d): a real tensor of length n whose i-th sample is a fixed function of (n, d, i).
        The sample values are left abstract (uninterpreted): every C12 statement holds for arbitrary frequency grids."""
        if not contains_sym((n, d)):
            return interp.native(torch.fft.fftfreq, n, d, **kw)
        a = SymArr((n,), lambda i: Sym(fft_term(n, d, i)), "real")
        a.as_type = torch.Tensor
        return a

    M[torch.fft.fftfreq] = m_fftfreq

    def m_remainder(interp, x, y):
        """torch.remainder(x, y) = x - y*floor(x/y) (sign of the divisor), the Python % on reals."""
        if isinstance(x, (Sym, SymArr)) or isinstance(y, (Sym, SymArr)):
            return x % y if isinstance(x, (Sym, SymArr)) else S(x) % y
        return interp.native(torch.remainder, x, y)

    M[torch.remainder] = m_remainder

    def m_square(interp, x):
        if isinstance(x, (Sym, SymArr)):
            return x * x
        return interp.native(torch.square, x)

    M[torch.square] = m_square

    # ---- containers -------------------------------------------------------------------------------------------------
    def c_defaultdict(interp, *args, **kwargs):
        if len(args) == 2 and isinstance(args[1], SymMap) and not kwargs:
            return args[1].with_default(args[0])
        return collections.defaultdict(*args, **kwargs)

    reg.ctor_models[collections.defaultdict] = c_defaultdict

    def m_deepcopy(interp, x, memo=None):
        def cp(v):
            if isinstance(v, dict):
                return {k: cp(w) for k, w in v.items()}
            if isinstance(v, list):
                return [cp(w) for w in v]
            if isinstance(v, tuple):
                return tuple(cp(w) for w in v)
            if isinstance(v, Sym):
                return v  # immutable
            if isinstance(v, SymArr):
                return v.copy()
            return copy.deepcopy(v)
        return cp(x)

    M[copy.deepcopy] = m_deepcopy

    # concrete Python containers holding symbolic *values* (keys / positions concrete): the native method is the semantics
    def _native_method(name):
        def h(interp, self_, *a, **kw):
            if name in ("get", "pop", "setdefault") and a and isinstance(a[0], (Sym, SymArr)):
                return NotImplemented  # symbolic key: not this model
            return interp.native(getattr(self_, name), *a, **kw)
        return h

    for _n in ("append", "extend", "insert"):
        reg.method_models.setdefault((list, _n), _native_method(_n))
    for _n in ("get", "pop", "setdefault", "update"):
        reg.method_models.setdefault((dict, _n), _native_method(_n))
        reg.method_models.setdefault((collections.defaultdict, _n), _native_method(_n))

    def c_dict(interp, *args, **kwargs):
        return dict(*args, **kwargs)

    reg.ctor_models[dict] = c_dict
