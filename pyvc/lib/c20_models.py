"""TRUSTED library models for C20 (display normalisation): numpy ufuncs / reductions, numpy.ma, matplotlib Normalize,
dataclass constructors.  Nothing in this file knows anything about quantem.

Pointwise view of an ndarray (`PArr`)
-------------------------------------
The normalisation code is elementwise (a fixed sequence of ufuncs with scalar second operands) plus a few
reductions (`min`, `max`, `quantile`) of the finite entries.  An array of ANY shape is therefore represented by
  * `elems`  : K generic entries (K=2 by default: two arbitrary positions of the same array, so that statements
               relating two entries - monotonicity - can be made).  Each entry is an extended real with an explicit
               NaN flag:  (val: Real, nan: Bool, inf: Int in {-1,0,+1});  meaning: NaN if nan, else +-oo if inf != 0, else val.
  * `dt`     : dtype kind 'f' (floating), 'i' (signed/unsigned integer, A2: mathematical), 'b' (bool)
  * `data`   : ghost summary of the finite entries of the whole array (`DataGhost`): min, max, quantile function,
               "has a finite entry", "has two distinct finite entries".
A statement proved for the generic entries holds for every entry (pair of entries) of every array.

Trusted numpy facts encoded here (A6 + NaN propagation, DESIGN section 7 / C20 "T"):
  * arithmetic ufuncs and np.clip propagate NaN; x*0 with x=+-oo is NaN; clip(+-oo) is the bound;
  * np.maximum / np.minimum propagate NaN, np.fmax / np.fmin IGNORE it (NaN entry -> the other operand, a number);
    np.nan_to_num replaces NaN by `nan` (0.0) and +-inf by posinf / neginf (default: the dtype's extreme finite numbers);
  * bool(x) of a Python / NumPy number is x != 0 (exact zeros of every kind are falsy); float(None) raises TypeError;
  * in-place ufuncs (`out=a`) with a float result into an integer/bool array raise (UFuncTypeError <: TypeError);
  * np.expm1(x) = exp(x) - 1 and np.log1p(x) = log(1 + x) over the reals (unfolded, no new symbol);
  * np.nanmin/np.nanmax ignore NaN but not +-inf (finite result only without an infinite entry of that sign);
    np.isclose(a, b) is |a-b| <= atol + rtol*|b|;
  * np.min/np.max of an empty array raise ValueError; np.quantile rejects q outside [0,1] with ValueError, an empty
    array with IndexError, is non-decreasing in q, lies between min and max, Q(0)=min, Q(1)=max; np.percentile(a, p) is
    np.quantile(a, p/100); np.nanquantile / np.nanpercentile skip NaN but not +-inf;
  * np.array(a, copy=False) of an ndarray is `a` itself, copy=True a fresh array; np.asarray(a) is a; ravel is a view;
  * np.ma.masked_invalid(a) masks exactly the NaN / +-oo entries and keeps the other data entries;
  * matplotlib.colors.Normalize stores vmin/vmax as given (numeric value preserved by _sanitize_extrema);
  * a @dataclass constructor binds fields positionally / by keyword / default and then calls __post_init__.
"""
from __future__ import annotations

import dataclasses

import numpy as np
import z3

from .. import values as V
from .. import reals
from ..values import Sym, S, lift, OutOfSubset, contains_sym, Obj, Kind
from ..interp import RaiseSig, BoundMethod

RV = z3.RealVal
ZERO_I = z3.IntVal(0)
FALSE = z3.BoolVal(False)


def rterm(x):
    """z3 Real term of a scalar operand (python number, numpy scalar, Sym, NumVal): its mathematical value."""
    if isinstance(x, PArr):
        raise OutOfSubset("array-array ufunc operands are not modelled for pointwise arrays")
    if isinstance(x, NumVal):
        return x.val
    return reals._real(x)


# ---------------------------------------------------------------------------------------------------------------------
# value kind of user-supplied scalars: Python number | NumPy fixed-width integer scalar  (machine arithmetic for the latter)
# ---------------------------------------------------------------------------------------------------------------------

class ScalarDType:
    """The (one) NumPy integer dtype of the NumPy scalars / integer array on a path, kept fully symbolic: its range [lo, hi]
    (signed: lo = -hi-1, unsigned: lo = 0; at least 8 bits) and its wrap-around W, an uninterpreted function constrained only
    by what every fixed-width integer type guarantees:  W(t) lies in the range, and W(t) = t when t does (no overflow).
    What W does on overflow is left open (sound over-approximation of two's-complement wrap-around).  Scalars of different
    integer dtypes in one expression (NumPy would promote) are not modelled."""

    def __init__(self, ctx):
        self._lo = z3.Real(ctx.fresh_name("scalar_dtype_min"))
        self._hi = z3.Real(ctx.fresh_name("scalar_dtype_max"))
        self.W = z3.Function(ctx.fresh_name("scalar_dtype_wrap"), z3.RealSort(), z3.RealSort())
        ctx.assume(z3.And(self._hi >= 127, z3.Or(self._lo == 0, self._lo == -self._hi - 1)))

    def lo(self):
        return self._lo

    def hi(self):
        return self._hi

    def wrap(self, t, ctx):
        r = self.W(t)
        ctx.assume(z3.And(self._lo <= r, r <= self._hi, z3.Implies(z3.And(self._lo <= t, t <= self._hi), r == t)))
        return r


def scalar_dtype(ctx):
    d = ctx.ghost.get("scalar_dtype")
    if d is None:
        d = ctx.ghost["scalar_dtype"] = ScalarDType(ctx)
    return d


class NumVal(Kind):
    """A scalar whose KIND matters for arithmetic:  val = its mathematical value (z3 Real);  np = it is a NumPy fixed-width
    integer scalar (of the path's ScalarDType);  pyint = it is a Python int (a `weak` scalar: combined with a NumPy integer
    scalar the result stays in that integer dtype, NEP 50).  Neither flag: a Python float / NumPy float64 (exact, A1).
    Trusted NumPy fact: +, -, abs, negation of NumPy integer scalars (and NumPy-int with Python-int) are computed in the
    fixed-width dtype and wrap around; with a float operand the result is an (exact) float64; .item() / float() give the
    exact Python number."""

    def __init__(self, val, np_=FALSE, pyint=FALSE):
        Kind.__init__(self, "number")
        self.val, self.np, self.pyint = z3.simplify(val), z3.simplify(np_), z3.simplify(pyint)

    def __repr__(self):
        return f"NumVal({self.val}, np={self.np}, pyint={self.pyint})"

    __hash__ = object.__hash__

    @staticmethod
    def of(x):
        if isinstance(x, NumVal):
            return x
        if isinstance(x, bool):
            raise OutOfSubset("bool operand of a scalar whose kind is tracked")
        if isinstance(x, (int, np.integer)) and not isinstance(x, np.integer):
            return NumVal(z3.RealVal(x), FALSE, z3.BoolVal(True))
        if isinstance(x, (float, np.floating)):
            return NumVal(lift(float(x)))
        if isinstance(x, Sym) and not x.is_bool:
            return NumVal(reals._real(x), FALSE, z3.BoolVal(bool(x.is_int)))
        raise OutOfSubset(f"operand {type(x).__name__} of a scalar whose kind is tracked")

    @staticmethod
    def machine(a, b):
        """is a (+|-) b computed in the fixed-width integer dtype?"""
        return z3.simplify(z3.And(z3.Or(a.np, b.np), z3.Or(a.np, a.pyint), z3.Or(b.np, b.pyint)))

    def _arith(self, other, f, swap=False):
        try:
            o = NumVal.of(other)
        except OutOfSubset:
            return NotImplemented
        a, b = (o, self) if swap else (self, o)
        m = NumVal.machine(a, b)
        exact = f(a.val, b.val)
        if z3.is_false(m):
            return NumVal(exact, FALSE, z3.And(a.pyint, b.pyint))
        ctx = V.cur()
        # computed in the fixed-width integer dtype (wraps around) iff m; no path fork: the kind stays a symbolic flag
        return NumVal(z3.If(m, scalar_dtype(ctx).wrap(exact, ctx), exact), m, z3.And(z3.Not(m), a.pyint, b.pyint))

    def __add__(self, o):
        return self._arith(o, lambda x, y: x + y)

    def __radd__(self, o):
        return self._arith(o, lambda x, y: x + y, True)

    def __sub__(self, o):
        return self._arith(o, lambda x, y: x - y)

    def __rsub__(self, o):
        return self._arith(o, lambda x, y: x - y, True)

    def __neg__(self):
        return NumVal(0.0 if False else z3.RealVal(0), FALSE, z3.BoolVal(True))._arith(self, lambda x, y: x - y)

    def __abs__(self):
        n = -self
        return NumVal(z3.If(self.val >= 0, self.val, n.val), self.np, self.pyint)

    def _cmp(self, other, f):
        try:
            o = NumVal.of(other)
        except OutOfSubset:
            return NotImplemented
        return Sym(f(self.val, o.val))

    def __eq__(self, o):
        if o is None:
            return False
        return self._cmp(o, lambda x, y: x == y)

    def __ne__(self, o):
        if o is None:
            return True
        return self._cmp(o, lambda x, y: x != y)

    def __lt__(self, o):
        return self._cmp(o, lambda x, y: x < y)

    def __le__(self, o):
        return self._cmp(o, lambda x, y: x <= y)

    def __gt__(self, o):
        return self._cmp(o, lambda x, y: x > y)

    def __ge__(self, o):
        return self._cmp(o, lambda x, y: x >= y)

    def _pyvc_truth(self, interp):
        """bool(x) of a number of any kind (Python 0 / 0.0 / NumPy scalar 0 are all falsy): x != 0; forks the path"""
        return interp.ctx.branch(self.val != 0)

    def item(self):
        """ndarray/np.generic .item(): the exact Python number"""
        return NumVal(self.val, FALSE, z3.Or(self.np, self.pyint))

    def sanitized(self):
        return self.item()


def fresh_numval(ctx, name):
    """A user-supplied number of arbitrary kind (Python int / float, NumPy integer scalar of the path's dtype)."""
    v = ctx.fresh(name, "real").t
    np_ = ctx.fresh(name + "_is_numpy_int_scalar", "bool").t
    pyint = ctx.fresh(name + "_is_python_int", "bool").t
    d = scalar_dtype(ctx)
    ctx.assume(z3.Not(z3.And(np_, pyint)))
    ctx.assume(z3.Implies(np_, z3.And(d.lo() <= v, v <= d.hi())))
    return NumVal(v, np_, pyint)


class Elem:
    """Extended real with NaN flag (immutable)."""

    __slots__ = ("val", "nan", "inf")

    def __init__(self, val, nan=FALSE, inf=ZERO_I):
        # simplified eagerly: keeps the flag terms literal (0*If(..) -> 0) so that the obligations stay small
        self.val, self.nan, self.inf = z3.simplify(val), z3.simplify(nan), z3.simplify(inf)

    def finite(self):
        return z3.And(z3.Not(self.nan), self.inf == 0)

    def number(self):
        return z3.Not(self.nan)

    def __repr__(self):
        return f"Elem({self.val}, nan={self.nan}, inf={self.inf})"


def ext_le(a, b):
    """a <= b in the extended reals (both not NaN)."""
    return z3.Or(a.inf < b.inf, z3.And(a.inf == b.inf, z3.Or(a.inf != 0, a.val <= b.val)))


def ext_lt(a, b):
    return z3.Or(a.inf < b.inf, z3.And(a.inf == b.inf, a.inf == 0, a.val < b.val))


def same_elem(a, b):
    """a and b denote the same extended real / NaN."""
    return z3.And(a.nan == b.nan, z3.Implies(z3.Not(a.nan), z3.And(a.inf == b.inf, z3.Implies(a.inf == 0, a.val == b.val))))


class DataGhost:
    """Ghost summary of the finite entries of one array."""

    def __init__(self, ctx, name):
        self.name = name
        self.gmin = z3.Real(ctx.fresh_name(name + "_min"))
        self.gmax = z3.Real(ctx.fresh_name(name + "_max"))
        self.has_finite = z3.Bool(ctx.fresh_name(name + "_has_finite"))
        self.distinct2 = z3.Bool(ctx.fresh_name(name + "_two_distinct_finite"))
        self.Q = z3.Function(ctx.fresh_name(name + "_quantile"), z3.RealSort(), z3.RealSort())
        self.has_pinf = z3.Bool(ctx.fresh_name(name + "_has_pinf"))
        self.has_ninf = z3.Bool(ctx.fresh_name(name + "_has_ninf"))
        self.has_nan = z3.Bool(ctx.fresh_name(name + "_has_nan"))

    def scalar(self, arr, term):
        """the scalar a reduction of `arr` returns (value kind: see NumVal)"""
        return make_reduction_scalar(self, arr, term)

    def facts(self, elems):
        """Meaning of the ghosts w.r.t. generic entries of the array (definition of min / max of the finite entries)."""
        f = [z3.Implies(self.has_finite, self.gmin <= self.gmax),
             z3.Implies(self.distinct2, z3.And(self.has_finite, self.gmin < self.gmax)),
             z3.Implies(z3.And(self.has_finite, self.gmin < self.gmax), self.distinct2)]
        for e in elems:
            f.append(z3.Implies(e.finite(), z3.And(self.has_finite, self.gmin <= e.val, e.val <= self.gmax)))
            f.append(z3.Implies(e.nan, self.has_nan))
            f.append(z3.Implies(z3.And(z3.Not(e.nan), e.inf > 0), self.has_pinf))
            f.append(z3.Implies(z3.And(z3.Not(e.nan), e.inf < 0), self.has_ninf))
        return f


def make_reduction_scalar(ghost, arr, term):
    """np.min / np.max return a NumPy scalar of the ARRAY's dtype: for an integer array a fixed-width integer scalar (the
    path's ScalarDType stands for the array's dtype; its entries lie in that dtype's range)."""
    if arr.dt == "i":
        ctx = V.cur()
        d = scalar_dtype(ctx)
        ctx.assume(z3.Implies(ghost.has_finite, z3.And(d.lo() <= ghost.gmin, ghost.gmax <= d.hi())))
        return NumVal(term, z3.BoolVal(True), FALSE)
    return Sym(term)


class PArr(Kind):
    """Pointwise view of a numpy ndarray (see module docstring).  (A `Kind`, so that the engine treats it as a symbolic value:
    a repository helper that merely receives such an array is interpreted, never called natively.)"""

    _pyvc_value = True

    def __init__(self, elems, dt="f", data=None, name="arr", filtered=False):
        Kind.__init__(self, "ndarray")
        self.elems = list(elems)
        self.dt = dt
        self.data = data
        self.name = name
        self.filtered = filtered
        self.writes = 0

    def __repr__(self):
        return f"PArr<{self.name} dt={self.dt} k={len(self.elems)}>"

    @property
    def dtype(self):
        return np.dtype({"f": np.float64, "i": np.int64, "b": np.bool_}[self.dt])

    def snapshot(self):
        return tuple(self.elems)

    def astype(self, dt, copy=True):
        k = np.dtype(dt).kind
        nk = "f" if k == "f" else "i" if k in "iu" else "b" if k == "b" else None
        if nk is None:
            raise OutOfSubset(f"astype({dt})")
        if nk != "f" and self.dt == "f":
            raise OutOfSubset("float -> integer astype (truncation) is not modelled")
        return PArr(self.elems, nk, self.data, self.name + ".astype", self.filtered)

    def ravel(self):
        # ravel of a C-contiguous ndarray is a VIEW: writes through it reach the caller's array (see _written)
        r = PArr(self.elems, self.dt, self.data, self.name + ".ravel", self.filtered)
        r.view_of = self
        return r

    def _pyvc_signature(self):
        """frame signature (contracts.common.frame_snapshot): changes whenever the array - or a view of it - is written."""
        return ("parr", id(self), self.writes, tuple(id(e) for e in self.elems))

    def copy(self):
        return PArr(self.elems, self.dt, self.data, self.name + ".copy", self.filtered)

    def __getitem__(self, key):
        if isinstance(key, PMask) and key.src is self and key.what == "isfinite":
            # boolean-mask selection of the finite entries: a fresh 1-D array; no generic entry is known to survive,
            # reductions go through the ghost summary
            return PArr([], self.dt, self.data, self.name + "[isfinite]", filtered=True)
        raise OutOfSubset("indexing of a pointwise array other than a[np.isfinite(a)]")

    def set_elems(self, elems):
        self.elems = list(elems)
        self._written()

    def _written(self):
        """count the write on this array and on every array it is a view of (same entries: a ravel view is entry-for-entry the base)"""
        self.writes += 1
        b = getattr(self, "view_of", None)
        while b is not None:
            b.elems = list(self.elems)
            b.writes += 1
            b = getattr(b, "view_of", None)

    def scramble(self, ctx):
        """in-place permutation of the entries (np.partition / sort / overwrite_input=True): the multiset - hence min, max,
        quantiles - is unchanged, but which entry sits at a given position is not: the generic positions now hold arbitrary
        entries of the array."""
        els = []
        for j, e in enumerate(self.elems):
            v = ctx.fresh(f"{self.name}_perm_x{j}", "real").t
            if self.dt == "f":
                nan = ctx.fresh(f"{self.name}_perm_nan{j}", "bool").t
                inf = ctx.fresh(f"{self.name}_perm_inf{j}", "int").t
                ctx.assume(z3.And(inf >= -1, inf <= 1))
            else:
                nan, inf = FALSE, ZERO_I
            els.append(Elem(v, nan, inf))
        if self.data is not None:
            for f in self.data.facts(els):
                ctx.assume(f)
        self.set_elems(els)

    def min(self, *a, **k):
        return _reduce_min_max(V.cur(), self, "min", a, k)

    def max(self, *a, **k):
        return _reduce_min_max(V.cur(), self, "max", a, k)


def _reduce_min_max(ctx, a, which, rest=(), kw=None):
    """np.min / np.max / ndarray.min / .max of an array whose NaN entries have been filtered out (or an integer array)."""
    if a.dt == "f" and not a.filtered:
        raise OutOfSubset(f"np.{which} of an unfiltered float array (NaN would propagate): only a[np.isfinite(a)] is modelled")
    if a.data is None:
        raise OutOfSubset(f"np.{which} of a derived array without ghost summary")
    if rest or kw:
        raise OutOfSubset(f"np.{which} with axis/keywords")
    if ctx.branch(z3.Not(a.data.has_finite)):
        raise RaiseSig(ValueError(f"zero-size array to reduction operation {which}imum which has no identity"))
    return a.data.scalar(a, a.data.gmin if which == "min" else a.data.gmax)


class PMask(Kind):
    _pyvc_value = True

    def __init__(self, src, what):
        Kind.__init__(self, "bool-ndarray")
        self.src, self.what = src, what


class PMasked(Kind):
    """numpy.ma.MaskedArray seen at the same generic positions: data entries + mask bits."""

    _pyvc_value = True

    def __init__(self, elems, mask, base):
        Kind.__init__(self, "masked-ndarray")
        self.elems = list(elems)
        self.mask = list(mask)
        self.base = base


def fresh_parr(ctx, name, dt="f", k=2, with_inf=True):
    """Arbitrary array of dtype kind `dt` observed at k generic positions, with its ghost summary (facts assumed)."""
    elems = []
    for j in range(k):
        v = ctx.fresh(f"{name}_x{j}", "real").t
        if dt == "f":
            nan = ctx.fresh(f"{name}_nan{j}", "bool").t
            if with_inf:
                inf = ctx.fresh(f"{name}_inf{j}", "int").t
                ctx.assume(z3.And(inf >= -1, inf <= 1))
            else:
                inf = ZERO_I
        else:
            nan, inf = FALSE, ZERO_I
            if dt == "b":
                ctx.assume(z3.Or(v == 0, v == 1))
            else:
                ctx.assume(z3.IsInt(v))
        elems.append(Elem(v, nan, inf))
    g = DataGhost(ctx, name)
    for f in g.facts(elems):
        ctx.assume(f)
    return PArr(elems, dt, g, name)


def _count(ctx, key):
    n = ctx.counter.get(key, 0)
    ctx.counter[key] = n + 1
    return n


def _domain(interp, label, cond):
    """Domain / safety obligation of a library call (log of a positive number, non-zero divisor, ...)."""
    ctx = interp.ctx
    n = _count(ctx, "domain:" + label)
    ctx.prove(f"domain:{label}#{n}", cond, kind="safety")


def install(reg, dataclasses_=(), normalize_cls=None):
    M = reg.models

    # ------------------------------------------------------------------ elementwise ufuncs with a scalar operand
    def _result(interp, a, elems, out, scalar=None):
        if out is not None:
            if out is not a:
                raise OutOfSubset("ufunc out= a different array")
            if a.dt != "f":
                # numpy: Cannot cast ufunc output from float64 to int64/bool with casting rule 'same_kind'
                raise RaiseSig(TypeError("UFuncTypeError: cannot cast ufunc output to integer/bool array"))
            a.set_elems(elems)
            return a
        dt = "f"
        if a.dt in ("i", "b"):
            kind = _scalar_kind(scalar)
            if kind is None:
                # scalar of unknown python/numpy kind: both result dtypes are possible
                kind = "i" if interp.ctx.branch(interp.ctx.fresh("scalar_is_int_kind", "bool").t) else "f"
            dt = "i" if kind == "i" else "f"
        return PArr(elems, dt, None, a.name + "'")

    def _scalar_kind(x):
        if x is None:
            return "f"
        if isinstance(x, (bool, np.bool_)):
            return "i"
        if isinstance(x, (int, np.integer)):
            return "i"
        if isinstance(x, (float, np.floating)):
            return "f"
        if isinstance(x, Sym):
            return "i" if x.is_int else None
        return None

    def _binary(name, native, ef):
        def h(interp, x1, x2, out=None, **kw):
            if kw:
                raise OutOfSubset(f"np.{name} keyword {list(kw)}")
            if isinstance(x1, PArr):
                c = rterm(x2)
                before = list(x1.elems)
                els = [ef(interp, e, c) for e in before]
                return _result(interp, x1, els, out, x2)
            if isinstance(x2, PArr):
                raise OutOfSubset(f"np.{name}(scalar, array)")
            if contains_sym((x1, x2)):
                if out is not None:
                    raise OutOfSubset("out= on scalars")
                return Sym(ef(interp, Elem(rterm(x1)), rterm(x2)).val)
            return interp.native(native, x1, x2) if out is None else interp.native(native, x1, x2, out=out)
        return h

    def e_add(interp, e, c):
        return Elem(e.val + c, e.nan, e.inf)

    def e_sub(interp, e, c):
        return Elem(e.val - c, e.nan, e.inf)

    def e_mul(interp, e, c):
        # oo * 0 = NaN ; sign of the scalar flips the infinity
        sgn = z3.If(c > 0, 1, z3.If(c < 0, -1, 0))
        return Elem(e.val * c, z3.Or(e.nan, z3.And(e.inf != 0, c == 0)), e.inf * sgn)

    def e_div(interp, e, c):
        _domain(interp, "divisor-nonzero", c != 0)
        sgn = z3.If(c > 0, 1, -1)
        return Elem(e.val / c, e.nan, e.inf * sgn)

    M[np.add] = _binary("add", np.add, e_add)
    M[np.subtract] = _binary("subtract", np.subtract, e_sub)
    M[np.multiply] = _binary("multiply", np.multiply, e_mul)
    M[np.true_divide] = _binary("true_divide", np.true_divide, e_div)
    M[np.divide] = M[np.true_divide]

    def e_pow(interp, e, p):
        # x**p for x >= 0 (negative base with fractional exponent would create NaN): domain obligation
        _domain(interp, "power-base-nonnegative", z3.Or(e.nan, z3.And(e.inf == 0, e.val >= 0)))
        return Elem(reals.F["pow"](e.val, p), e.nan, ZERO_I)

    M[np.power] = _binary("power", np.power, e_pow)

    def m_clip(interp, a, lo, hi, out=None, **kw):
        if not isinstance(a, PArr):
            if contains_sym((a, lo, hi)):
                x, l, h = rterm(a), rterm(lo), rterm(hi)
                return Sym(z3.If(x < l, l, z3.If(x > h, h, x)))
            return interp.native(np.clip, a, lo, hi) if out is None else interp.native(np.clip, a, lo, hi, out=out)
        l, h = rterm(lo), rterm(hi)
        els = []
        for e in a.elems:
            v = z3.If(e.inf > 0, h, z3.If(e.inf < 0, l, z3.If(e.val < l, l, z3.If(e.val > h, h, e.val))))
            els.append(Elem(v, e.nan, ZERO_I))
        return _result(interp, a, els, out, lo)

    M[np.clip] = m_clip

    def _unary(name, native, dom, sign=lambda t, r: []):
        def h(interp, x, out=None, **kw):
            if kw:
                raise OutOfSubset(f"np.{name} keyword {list(kw)}")
            if isinstance(x, PArr):
                els = []
                for e in x.elems:
                    _domain(interp, f"{name}-argument", z3.Or(e.nan, z3.And(e.inf == 0, dom(e.val))))
                    els.append(Elem(reals.F[name](e.val), e.nan, ZERO_I))
                return _result(interp, x, els, out)
            if contains_sym(x):
                t = rterm(x)
                _domain(interp, f"{name}-argument", dom(t))
                r = reals.F[name](t)
                # sign facts of the scalar result (ground instances of the A4 schemas) are put on the path right away, so
                # that branches on e.g. `a <= 0` for a = 1/arcsinh(1/a0) are pruned instead of surviving as dead paths
                for f in sign(t, r):
                    interp.ctx.assume(f)
                return Sym(r)
            return interp.native(native, x)
        return h

    TRUE = lambda t: z3.BoolVal(True)
    odd_sign = lambda t, r: [(t > 0) == (r > 0), (t == 0) == (r == 0)]
    M[np.log] = _unary("log", np.log, lambda t: t > 0, lambda t, r: [z3.Implies(t > 0, z3.And((t > 1) == (r > 0), (t == 1) == (r == 0)))])
    M[np.exp] = _unary("exp", np.exp, TRUE, lambda t, r: [r > 0])
    M[np.sinh] = _unary("sinh", np.sinh, TRUE, odd_sign)
    M[np.arcsinh] = _unary("arcsinh", np.arcsinh, TRUE, odd_sign)

    # np.expm1 / np.log1p are, over the reals (A1), DEFINITIONALLY exp(x) - 1 and log(1 + x) (NumPy documents them as exactly these
    # functions, evaluated with better floating-point accuracy for small x): unfolded into the exp / log models above, so no
    # new symbol and no new lemma schema is involved and code rewritten with them is seen through.
    def m_expm1(interp, x, out=None, **kw):
        if kw:
            raise OutOfSubset(f"np.expm1 keyword {list(kw)}")
        r = M[np.exp](interp, x, out=out)
        if isinstance(r, PArr):
            return M[np.subtract](interp, r, 1.0, out=r)  # r is x itself (out=x) or the fresh array exp produced
        return M[np.subtract](interp, r, 1.0)

    def m_log1p(interp, x, out=None, **kw):
        if kw:
            raise OutOfSubset(f"np.log1p keyword {list(kw)}")
        t = M[np.add](interp, x, 1.0, out=out) if isinstance(x, PArr) and out is not None else M[np.add](interp, x, 1.0)
        if isinstance(t, PArr):
            return M[np.log](interp, t, out=t)
        return M[np.log](interp, t)

    M[np.expm1] = m_expm1
    M[np.log1p] = m_log1p

    def m_abs(interp, x):
        if isinstance(x, PArr):
            raise OutOfSubset("np.abs of a pointwise array")
        if isinstance(x, NumVal):
            return abs(x)
        if contains_sym(x):
            t = rterm(x)
            return Sym(z3.If(t >= 0, t, -t))
        return interp.native(np.abs, x)

    M[np.abs] = m_abs
    M[np.absolute] = m_abs

    # ---- np.maximum / np.minimum / np.fmax / np.fmin  (array, scalar): EXACT on the (value, NaN flag, +-inf flag) view.
    # NumPy contract: maximum / minimum PROPAGATE NaN (a NaN operand gives NaN); fmax / fmin IGNORE it (if exactly one operand
    # is NaN the other one is returned).  The scalar operand is a real number (A1: never NaN / inf).  +-inf orders as usual.
    def _zmax(x, y):
        return z3.If(x >= y, x, y)

    def _zmin(x, y):
        return z3.If(x <= y, x, y)

    def e_maximum(interp, e, c):
        return Elem(z3.If(e.inf < 0, c, _zmax(e.val, c)), e.nan, z3.If(e.inf > 0, 1, 0))

    def e_minimum(interp, e, c):
        return Elem(z3.If(e.inf > 0, c, _zmin(e.val, c)), e.nan, z3.If(e.inf < 0, -1, 0))

    def e_fmax(interp, e, c):
        # NaN entry -> the scalar (a NUMBER: the NaN is gone)
        return Elem(z3.If(z3.Or(e.nan, e.inf < 0), c, _zmax(e.val, c)), FALSE, z3.If(z3.And(z3.Not(e.nan), e.inf > 0), 1, 0))

    def e_fmin(interp, e, c):
        return Elem(z3.If(z3.Or(e.nan, e.inf > 0), c, _zmin(e.val, c)), FALSE, z3.If(z3.And(z3.Not(e.nan), e.inf < 0), -1, 0))

    def _minmax(name, native, ef, pick):
        arr = _binary(name, native, ef)

        def h(interp, a, b, out=None, **kw):
            if isinstance(b, PArr) and not isinstance(a, PArr):
                a, b = b, a  # commutative
            if isinstance(a, PArr):
                return arr(interp, a, b, out=out, **kw)
            if kw or out is not None:
                raise OutOfSubset(f"np.{name} keywords on scalars")
            if isinstance(a, NumVal) or isinstance(b, NumVal):
                p, q = NumVal.of(a), NumVal.of(b)
                return NumVal(pick(p.val, q.val), NumVal.machine(p, q), FALSE)  # no overflow possible
            if contains_sym((a, b)):
                return Sym(pick(rterm(a), rterm(b)))  # (A1: symbolic scalars are real numbers, never NaN: fmax = maximum)
            return interp.native(native, a, b)
        return h

    M[np.maximum] = m_maximum = _minmax("maximum", np.maximum, e_maximum, _zmax)
    M[np.minimum] = m_minimum = _minmax("minimum", np.minimum, e_minimum, _zmin)
    M[np.fmax] = _minmax("fmax", np.fmax, e_fmax, _zmax)
    M[np.fmin] = _minmax("fmin", np.fmin, e_fmin, _zmin)

    # ---- np.nan_to_num(x, copy=True, nan=0.0, posinf=None, neginf=None): NaN -> `nan`, +inf -> `posinf` (default: the largest
    # finite number of the dtype), -inf -> `neginf` (default: the most negative one); every other entry unchanged; copy=False
    # works in place.  The dtype's largest finite number is a symbolic constant >= 65504 (float16).
    def m_nan_to_num(interp, x, copy=True, nan=0.0, posinf=None, neginf=None):
        if not isinstance(x, PArr):
            if contains_sym(x):
                return x if isinstance(x, (Sym, NumVal)) else Sym(rterm(x))  # a real number is returned unchanged
            return interp.native(np.nan_to_num, x, copy=copy, nan=nan, posinf=posinf, neginf=neginf)
        ctx = interp.ctx
        big = ctx.ghost.get("float_dtype_max")
        if big is None:
            big = ctx.ghost["float_dtype_max"] = z3.Real(ctx.fresh_name("float_dtype_max"))
            ctx.assume(big >= 65504)
        n, p, q = rterm(nan), (big if posinf is None else rterm(posinf)), (-big if neginf is None else rterm(neginf))
        els = [Elem(z3.If(e.nan, n, z3.If(e.inf > 0, p, z3.If(e.inf < 0, q, e.val))), FALSE, ZERO_I) for e in x.elems]
        cp = interp.truth(copy) if isinstance(copy, Sym) else bool(copy)
        if cp or x.dt != "f":
            return PArr(els, x.dt, None, x.name + ".nan_to_num")
        x.set_elems(els)
        return x

    M[np.nan_to_num] = m_nan_to_num

    # ------------------------------------------------------------------ array construction / views
    old_array = M.get(np.array)
    old_asarray = M.get(np.asarray)

    def m_array(interp, x, dtype=None, copy=True, **kw):
        if isinstance(x, PArr):
            if dtype is not None or kw:
                raise OutOfSubset("np.array(dtype=...) of a pointwise array")
            if interp.truth(copy) if isinstance(copy, Sym) else bool(copy):
                return x.copy()
            return x  # numpy >= 2: copy=False never copies; an ndarray is returned as is
        if old_array is not None:
            return old_array(interp, x, dtype=dtype, **kw)
        return interp.native(np.array, x, dtype=dtype, copy=copy, **kw)

    def m_asarray(interp, x, dtype=None, **kw):
        if isinstance(x, PArr):
            if dtype is not None or kw:
                raise OutOfSubset("np.asarray(dtype=...) of a pointwise array")
            return x
        if old_asarray is not None:
            return old_asarray(interp, x, dtype=dtype, **kw)
        return interp.native(np.asarray, x, dtype=dtype, **kw)

    M[np.array] = m_array
    M[np.asarray] = m_asarray

    def m_isfinite(interp, x):
        if isinstance(x, PArr):
            return PMask(x, "isfinite")
        if contains_sym(x):
            return True  # A1: symbolic scalars are finite reals
        return interp.native(np.isfinite, x)

    M[np.isfinite] = m_isfinite
    # pointwise arrays are real-valued (dt in f / i / b)
    M[np.iscomplexobj] = lambda interp, x: False if isinstance(x, PArr) else interp.native(np.iscomplexobj, x)

    # ------------------------------------------------------------------ reductions over the finite entries
    def _need_filtered(a, what):
        if not isinstance(a, PArr):
            return False
        if a.dt == "f" and not a.filtered:
            raise OutOfSubset(f"np.{what} of an unfiltered float array (NaN would propagate): only a[np.isfinite(a)] is modelled")
        if a.data is None:
            raise OutOfSubset(f"np.{what} of a derived array without ghost summary")
        return True

    def m_min(interp, a, *rest, **kw):
        if not isinstance(a, PArr):
            return interp.native(np.min, a, *rest, **kw)
        return _reduce_min_max(interp.ctx, a, "min", rest, kw)

    def m_max(interp, a, *rest, **kw):
        if not isinstance(a, PArr):
            return interp.native(np.max, a, *rest, **kw)
        return _reduce_min_max(interp.ctx, a, "max", rest, kw)

    M[np.min] = m_min
    M[np.amin] = m_min
    M[np.max] = m_max
    M[np.amax] = m_max

    def quantile_facts(g, qs):
        """Ground instances of the np.quantile contract at the requested levels."""
        f = []
        for q in qs:
            f.append(z3.Implies(g.has_finite, z3.And(g.gmin <= g.Q(q), g.Q(q) <= g.gmax)))
            f.append(z3.Implies(q == 0, g.Q(q) == g.gmin))
            f.append(z3.Implies(q == 1, g.Q(q) == g.gmax))
        for i in range(len(qs)):
            for j in range(len(qs)):
                if i != j:
                    f.append(z3.Implies(qs[i] <= qs[j], g.Q(qs[i]) <= g.Q(qs[j])))
        return f

    reg.c20_quantile_facts = quantile_facts

    def m_quantile(interp, a, q, *rest, **kw):
        if not _need_filtered(a, "quantile"):
            return interp.native(np.quantile, a, q, *rest, **kw)
        overwrite = kw.pop("overwrite_input", False)
        if rest or kw:
            raise OutOfSubset("np.quantile with axis/method keywords")
        if isinstance(overwrite, Sym):
            overwrite = interp.truth(overwrite)
        qs = list(q) if isinstance(q, (tuple, list)) else [q]
        qt = [rterm(x) for x in qs]
        ctx = interp.ctx
        bad = z3.Or(*[z3.Or(t < 0, t > 1) for t in qt])
        if ctx.branch(bad):
            raise RaiseSig(ValueError("Quantiles must be in the range [0, 1]"))
        if ctx.branch(z3.Not(a.data.has_finite)):
            raise RaiseSig(IndexError("index -1 is out of bounds for axis 0 with size 0"))
        for f in quantile_facts(a.data, qt):
            ctx.assume(f)
        res = [Sym(a.data.Q(t)) for t in qt]
        if overwrite:
            a.scramble(ctx)  # numpy partitions the input array in place (and with it every array it is a view of)
        return tuple(res) if isinstance(q, (tuple, list)) else res[0]

    M[np.quantile] = m_quantile

    # np.percentile(a, p) = np.quantile(a, p / 100) (NumPy documents it so; ValueError for p outside [0, 100]): the SAME
    # uninterpreted quantile function of the array with the same order facts, no new symbol
    def m_percentile(interp, a, q, *rest, **kw):
        if not isinstance(a, PArr):
            return interp.native(np.percentile, a, q, *rest, **kw)
        qs = [Sym(rterm(x) / 100) for x in q] if isinstance(q, (tuple, list)) else Sym(rterm(q) / 100)
        return m_quantile(interp, a, tuple(qs) if isinstance(q, (tuple, list)) else qs, *rest, **kw)

    M[np.percentile] = m_percentile

    # np.nanquantile / np.nanpercentile skip NaN but NOT +-inf: on an array without infinite entries they are the quantiles of
    # the finite entries; with an infinite entry the result is not a quantile of the finite data (domain obligation, like nanmin)
    def _nan_q(name, base):
        def h(interp, a, q, *rest, **kw):
            if not isinstance(a, PArr):
                return interp.native(getattr(np, name), a, q, *rest, **kw)
            if a.data is None:
                raise OutOfSubset(f"np.{name} of a derived array without ghost summary")
            g = a.data
            _domain(interp, f"{name}-result-is-a-quantile-of-the-finite-entries(no-infinite-entry)", z3.And(z3.Not(g.has_pinf), z3.Not(g.has_ninf)))
            f = PArr([], a.dt, g, a.name + "[~isnan]", filtered=True)
            return base(interp, f, q, *rest, **kw)
        return h

    M[np.nanquantile] = _nan_q("nanquantile", m_quantile)
    M[np.nanpercentile] = _nan_q("nanpercentile", m_percentile)

    # nan-aware reductions skip NaN but NOT +-inf; over the reals (A1) their result is a number only if the array has a
    # finite entry and no infinite entry of the relevant sign -> domain obligation (like log of a positive number)
    def _nan_reduction(name, native, pick, bad_inf):
        def h(interp, a, *rest, **kw):
            if not isinstance(a, PArr):
                return interp.native(native, a, *rest, **kw)
            if rest or kw:
                raise OutOfSubset(f"np.{name} with axis/keywords")
            if a.data is None:
                raise OutOfSubset(f"np.{name} of a derived array without ghost summary")
            g = a.data
            _domain(interp, f"{name}-result-is-a-finite-number", z3.And(g.has_finite, z3.Not(bad_inf(g))))
            return Sym(pick(g))
        return h

    M[np.nanmin] = _nan_reduction("nanmin", np.nanmin, lambda g: g.gmin, lambda g: g.has_ninf)
    M[np.nanmax] = _nan_reduction("nanmax", np.nanmax, lambda g: g.gmax, lambda g: g.has_pinf)

    old_float = M.get(float)

    def m_float(interp, x=0.0):
        h = getattr(x, "_pyvc_float", None)  # kind-abstract scalars that know their float() (may raise TypeError for None)
        if h is not None:
            return h(interp)
        if isinstance(x, NumVal):
            return Sym(x.val)  # float(np.int16(..)) / float(3): the exact value as a Python float (A1)
        return old_float(interp, x) if old_float is not None else interp.native(float, x)

    M[float] = m_float

    def m_isclose(interp, a, b, rtol=1e-05, atol=1e-08, equal_nan=False):
        if isinstance(a, PArr) or isinstance(b, PArr):
            raise OutOfSubset("np.isclose of a pointwise array")
        if contains_sym((a, b, rtol, atol)):
            x, y = rterm(a), rterm(b)
            d, ay = x - y, z3.If(y >= 0, y, -y)
            return Sym(z3.If(d >= 0, d, -d) <= rterm(atol) + rterm(rtol) * ay)  # numpy: |a - b| <= atol + rtol * |b|
        return interp.native(np.isclose, a, b, rtol=rtol, atol=atol, equal_nan=equal_nan)

    M[np.isclose] = m_isclose
    M[np.allclose] = m_isclose

    # ------------------------------------------------------------------ masked arrays
    def m_masked_invalid(interp, a, copy=True):
        if isinstance(a, PArr):
            return PMasked(a.elems, [z3.Or(e.nan, e.inf != 0) for e in a.elems], a)
        return interp.native(np.ma.masked_invalid, a, copy=copy)

    M[np.ma.masked_invalid] = m_masked_invalid

    # ------------------------------------------------------------------ matplotlib.colors.Normalize (float coercion only)
    if normalize_cls is not None:
        N = normalize_cls

        def sanitize(v):
            # _sanitize_extrema: None stays None; a NumPy scalar becomes the exact Python number (.item()), anything else float(v)
            if hasattr(v, "sanitized"):
                return v.sanitized()
            return v

        def n_init(interp, self, vmin=None, vmax=None, clip=False):
            if not isinstance(self, Obj):
                return NotImplemented
            self.fields["_vmin"] = sanitize(vmin)
            self.fields["_vmax"] = sanitize(vmax)
            self.fields["_clip"] = clip
            self.fields["_scale"] = None
            return None

        M[N.__init__] = n_init
        for nm in ("vmin", "vmax"):
            prop = N.__dict__[nm]

            def fget(interp, self, _nm=nm):
                if not isinstance(self, Obj):
                    return NotImplemented
                if "_" + _nm not in self.fields:
                    raise RaiseSig(AttributeError("_" + _nm))
                return self.fields["_" + _nm]

            def fset(interp, self, value, _nm=nm):
                if not isinstance(self, Obj):
                    return NotImplemented
                self.fields["_" + _nm] = sanitize(value)
                return None

            M[prop.fget] = fget
            M[prop.fset] = fset

    # ------------------------------------------------------------------ zero-argument super() in a method of an abstract object
    class SuperProxy:
        _pyvc_value = True

        def __init__(self, obj, rest):
            self.obj, self.rest = obj, rest

    def super_model(interp, *a):
        env = getattr(interp, "cur_env", None)
        if a or env is None:
            raise OutOfSubset("super(args)")
        obj = env.lookup("self")
        if not isinstance(obj, Obj):
            raise OutOfSubset("super() outside a method of an abstract object")
        frame = interp.ctx.frames[-1] if interp.ctx.frames else ""
        clsname = frame.rsplit(".", 1)[0]
        mro = obj.cls.__mro__
        idx = [i for i, k in enumerate(mro) if k.__qualname__ == clsname]
        if not idx:
            raise OutOfSubset(f"super(): cannot locate class {clsname} in the MRO of {obj.cls.__name__}")
        return SuperProxy(obj, mro[idx[0] + 1:])

    M[super] = super_model

    def super_getattr(interp, base, name):
        for k in base.rest:
            if name in k.__dict__:
                f = k.__dict__[name]
                return BoundMethod(base.obj, f)
        raise RaiseSig(AttributeError(name))

    reg.attr_models[SuperProxy] = super_getattr

    # ------------------------------------------------------------------ @dataclass constructors -> abstract objects
    def make_ctor(cls):
        flds = [f for f in dataclasses.fields(cls) if f.init]

        def ctor(interp, *args, **kwargs):
            if len(args) > len(flds):
                raise RaiseSig(TypeError(f"{cls.__name__}() takes {len(flds)} positional arguments"))
            vals = {}
            for f, a in zip(flds, args):
                vals[f.name] = a
            for k, v in kwargs.items():
                if k not in {f.name for f in flds}:
                    raise RaiseSig(TypeError(f"{cls.__name__}() got an unexpected keyword argument {k!r}"))
                if k in vals:
                    raise RaiseSig(TypeError(f"{cls.__name__}() got multiple values for argument {k!r}"))
                vals[k] = v
            for f in flds:
                if f.name not in vals:
                    if f.default is not dataclasses.MISSING:
                        vals[f.name] = f.default
                    elif f.default_factory is not dataclasses.MISSING:
                        vals[f.name] = f.default_factory()
                    else:
                        raise RaiseSig(TypeError(f"{cls.__name__}() missing argument {f.name!r}"))
            obj = Obj(cls, vals)
            pi = cls.__dict__.get("__post_init__")
            if pi is not None:
                interp.call(pi, [obj], {})
            return obj

        return ctor

    for cls in dataclasses_:
        reg.ctor_models[cls] = make_ctor(cls)
