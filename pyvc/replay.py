"""./check <pid> --replay <file>: re-run the recorded failing input on the REAL function against the run-time oracle."""
import importlib
import json
import os
import sys

ROOT = os.path.dirname(os.path.dirname(os.path.abspath(__file__)))


def replay_file(pid, path):
    sys.path.insert(0, ROOT)
    if not os.path.isabs(path):
        path = os.path.join(ROOT, path)
    rec = json.load(open(path))
    mod = importlib.import_module(f"contracts.{pid}")
    mod.make_registry()
    if "bounded_check" in rec:
        b = [b for b in mod.BOUNDED if b.name == rec["bounded_check"]]
        if not b or getattr(b[0], "rt", None) is None:
            print(f"replay: bounded check {rec['bounded_check']!r} has no run-time oracle")
            return 2
        res = b[0].rt(rec["case"])
        print(json.dumps(dict(case=rec["case"], **res), indent=1, default=str))
        if res.get("violated"):
            print(f"VIOLATION property={pid} replay={os.path.relpath(path, ROOT)}")
            return 1
        return 0
    rp = rec.get("replay") or {}
    con = [c for c in mod.CONTRACTS if c.func == rec.get("function")]
    if not con or con[0].rt is None or "inputs" not in rp:
        print(f"replay: obligation {rec.get('obligation')} carries no concrete input (no-failing-input-found); solver output is in the file")
        return 2
    res = con[0].rt(rp["inputs"])
    print(json.dumps(dict(inputs=rp["inputs"], **res), indent=1, default=str))
    if res.get("violated"):
        print(f"VIOLATION property={pid} replay={os.path.relpath(path, ROOT)}")
        return 1
    return 0
