"""Path context: path condition, decisions (re-execution based exploration), obligations."""
from __future__ import annotations

import z3

from . import values as V


class Obligation:
    __slots__ = ("name", "hyps", "goal", "kind", "where", "meta")

    def __init__(self, name, hyps, goal, kind="post", where="", meta=None):
        self.name = name
        self.hyps = list(hyps)
        self.goal = goal
        self.kind = kind
        self.where = where
        self.meta = meta or {}

    def key(self):
        return (self.name, hash(z3.And(*self.hyps, z3.Not(self.goal)).sexpr()))


def has_quant(t, _cache={}):
    k = t.get_id()
    if k in _cache and _cache[k][0].eq(t):  # z3 recycles ids of collected terms: the cached term is kept alive and compared
        return _cache[k][1]
    r = False
    stack = [t]
    seen = set()
    while stack:
        e = stack.pop()
        i = e.get_id()
        if i in seen:
            continue
        seen.add(i)
        if z3.is_quantifier(e):
            r = True
            break
        stack.extend(e.children())
    _cache[k] = (t, r)
    return r


class PathCtx:
    PRUNE_MS = 250
    PRUNE_RLIMIT = 1500000

    def __init__(self, prefix=(), prune=True):
        self.prefix = list(prefix)
        self.decisions = []  # list of (value, forced)
        self.pc = []
        self.obligs = []
        self.counter = {}
        self.prune = prune
        self.solver = z3.Solver()
        # feasibility pruning is bounded by a RESOURCE limit (deterministic, independent of machine load) with a generous
        # wall-clock backstop; `unknown` counts as feasible
        self.solver.set("rlimit", self.PRUNE_RLIMIT)
        # the wall-clock limit is an emergency backstop only (10 min): with 18 checks running at once a 20 s limit was hit on a
        # query that needs well under a second of CPU, `entails` answered "unknown -> no", the interpreter took a weaker modelling
        # route and a proved obligation came back REFUTED - verdicts must not depend on the load of the machine
        self.solver.set("timeout", 600000)
        for f in V.PI_FACTS:
            self.solver.add(f)
        self.pc.extend(V.PI_FACTS)
        self.notes = []
        self.ghost = {}
        self.frames = []  # interpreter call stack (for `where`)

    # ---- names
    def fresh(self, base, sort="int"):
        n = self.counter.get(base, 0)
        self.counter[base] = n + 1
        name = f"{base}!{n}"
        if sort == "int":
            return V.Sym(z3.Int(name))
        if sort == "real":
            return V.Sym(z3.Real(name))
        if sort == "bool":
            return V.Sym(z3.Bool(name))
        if sort == "str":
            return V.Sym(z3.String(name))
        raise ValueError(sort)

    def fresh_name(self, base):
        n = self.counter.get(base, 0)
        self.counter[base] = n + 1
        return f"{base}!{n}"

    def fresh_arr(self, base, shape, kind="real"):
        name = self.fresh_name(base)
        nd = len(shape)
        rng = {"int": z3.IntSort(), "real": z3.RealSort(), "bool": z3.BoolSort()}[kind]
        f = z3.Function(name, *([z3.IntSort()] * nd), rng) if nd else z3.Const(name, rng)

        def fn(*idx, _f=f, _nd=nd):
            return V.Sym(_f(*idx)) if _nd else V.Sym(_f)

        a = V.SymArr(shape, fn, kind, name=name)
        a.func = f
        return a

    # ---- path condition
    def assume(self, t):
        t = V.lift(t)
        s = V.simp(t)
        if z3.is_true(s):
            return
        self.pc.append(t)
        if not has_quant(t):
            self.solver.add(t)
        if z3.is_false(s):
            from .interp import PathEnd

            raise PathEnd("assume false")

    def feasible(self, t):
        if not self.prune:
            return True
        self.solver.push()
        self.solver.add(t)
        r = self.solver.check()
        self.solver.pop()
        return r != z3.unsat

    def entails(self, t):
        """Cheap check pc |= t (used for shape reasoning); unknown -> False."""
        self.solver.push()
        self.solver.add(z3.Not(t))
        r = self.solver.check()
        self.solver.pop()
        return r == z3.unsat

    def branch(self, t):
        t = V.lift(t)
        s = V.simp(t)
        if z3.is_true(s):
            return True
        if z3.is_false(s):
            return False
        # syntactic shortcut (no solver call, no decision): the condition or its negation is literally on the path already
        ids = getattr(self, "_pc_ids", None)
        if ids is None:
            ids = self._pc_ids = set()
            self._pc_ids_n = 0
        for x in self.pc[self._pc_ids_n:]:
            ids.add(x.get_id())
        self._pc_ids_n = len(self.pc)
        if t.get_id() in ids:
            return True
        if z3.Not(t).get_id() in ids or (z3.is_not(t) and t.arg(0).get_id() in ids):
            return False
        i = len(self.decisions)
        if i < len(self.prefix):
            d, forced = self.prefix[i]
        else:
            can_t = self.feasible(t)
            can_f = self.feasible(z3.Not(t)) if can_t else True
            if can_t and not can_f:
                d, forced = True, True
            elif can_f and not can_t:
                d, forced = False, True
            else:
                d, forced = True, False
        self.decisions.append((d, forced))
        if len(self.decisions) > 400:
            raise V.OutOfSubset("more than 400 decisions on one path (unbounded unrolling?)")
        self.pc.append(t if d else z3.Not(t))
        self.solver.add(t if d else z3.Not(t))
        return d

    # ---- obligations
    def prove(self, name, goal, kind="post", meta=None, assume_after=True):
        goal = V.lift(goal)
        s = V.simp(goal)
        where = self.frames[-1] if self.frames else ""
        self.obligs.append(Obligation(name, self.pc, goal, kind, where, meta))
        if assume_after and not z3.is_true(s):
            self.pc.append(goal)
            if not has_quant(goal):
                self.solver.add(goal)

    def __enter__(self):
        V._CUR.append(self)
        return self

    def __exit__(self, *a):
        V._CUR.pop()


def explore(run, max_paths=2000, prune=True, stop_after=None):
    """Run `run(ctx)` on every feasible decision sequence.  Returns list of (ctx, outcome).
    stop_after=N (canary runs only): stop once N paths have been explored (a sample of paths is enough to see a live one)."""
    from .interp import PathEnd

    work = [[]]
    results = []
    n = 0
    while work:
        if stop_after is not None and n >= stop_after:
            break
        prefix = work.pop()
        n += 1
        if n > max_paths:
            raise V.OutOfSubset(f"more than {max_paths} paths")
        ctx = PathCtx(prefix, prune=prune)
        V.Obj._next[0] = 0
        with ctx:
            try:
                out = run(ctx)
            except PathEnd as e:
                out = ("end", str(e))
        for i in range(len(prefix), len(ctx.decisions)):
            d, forced = ctx.decisions[i]
            if not forced:
                work.append(ctx.decisions[:i] + [(not d, False)])
        results.append((ctx, out))
    return results
