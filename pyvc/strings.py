"""String helpers for the interpreter (f-strings that build symbolic strings)."""
from __future__ import annotations

import z3

from .values import Sym


def sconcat(parts):
    """Concatenation of python str / Sym(String) parts as one Sym(String)."""
    ts = []
    for p in parts:
        if isinstance(p, Sym):
            ts.append(p.t)
        else:
            s = str(p)
            if s:
                ts.append(z3.StringVal(s))
    if not ts:
        return ""
    if len(ts) == 1:
        return Sym(ts[0])
    return Sym(z3.Concat(*ts))
