import argparse
import json
import os
import sys


def main():
    ap = argparse.ArgumentParser()
    ap.add_argument("pid")
    ap.add_argument("--tier", default=os.environ.get("VERIF_TIER", "quick"), choices=["quick", "thorough"])
    ap.add_argument("--replay")
    ap.add_argument("--update-baseline", action="store_true")
    ap.add_argument("--jobs", type=int, default=None)
    a = ap.parse_args()
    seed = int(os.environ.get("VERIF_SEED", "0") or 0)
    import quantem

    repo = os.environ.get("VERIF_REPO", "/repo")
    if not os.path.realpath(quantem.__file__).startswith(os.path.realpath(repo)):
        print(f"CHECKER-FAULT quantem imported from {quantem.__file__}, not from {repo}")
        sys.exit(3)
    if a.replay:
        from .replay import replay_file

        sys.exit(replay_file(a.pid, a.replay))
    from .runner import run_property

    sys.exit(run_property(a.pid, a.tier, seed, update_baseline=a.update_baseline, jobs=a.jobs))


if __name__ == "__main__":
    main()
