import argparse
import json
import os
import sys


def main():
    ap = argparse.ArgumentParser()
    ap.add_argument("pid")
    ap.add_argument("--tier", default=os.environ.get("VERIF_TIER", "quick"), choices=["quick", "thorough"])
    ap.add_argument("--replay")
    ap.add_argument("--update-baseline", action="store_true")
    ap.add_argument("--jobs", type=int, default=None)
    a = ap.parse_args()
    seed = int(os.environ.get("VERIF_SEED", "0") or 0)
    import quantem

    repo = os.environ.get("VERIF_REPO", "/repo")
    if not os.path.realpath(quantem.__file__).startswith(os.path.realpath(repo)):
        print(f"CHECKER-FAULT quantem imported from {quantem.__file__}, not from {repo}")
        sys.exit(3)
    if a.replay:
        from .replay import replay_file

        sys.exit(replay_file(a.pid, a.replay))
    from .runner import run_property

    # every temporary file of this run (worker processes included: they do not run atexit handlers) lives under one
    # private directory that the parent removes when the check ends
    import shutil
    import tempfile

    run_tmp = tempfile.mkdtemp(prefix=f"verif_{a.pid}_")
    os.environ["TMPDIR"] = run_tmp
    tempfile.tempdir = run_tmp
    try:
        rc = run_property(a.pid, a.tier, seed, update_baseline=a.update_baseline, jobs=a.jobs)
    finally:
        shutil.rmtree(run_tmp, ignore_errors=True)
    sys.exit(rc)


if __name__ == "__main__":
    main()
