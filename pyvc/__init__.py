"""pyvc - verification-condition generator for the Python subset used by quantem.

The engine interprets the `ast` of the REAL source files under /repo (read at check time),
on symbolic values, using sidecar contracts for callees and loop invariants, and emits named
proof obligations that are discharged by z3 / cvc5.  See /verif/DESIGN.md.
"""
