"""A4: transcendental functions as uninterpreted symbols + ground lemma instantiation; Σ-terms."""
from __future__ import annotations

import itertools

import z3

from . import values as V
from .values import Sym, SymArr, S, lift, OutOfSubset

R = z3.RealSort()
F = {
    "cos": z3.Function("cos", R, R),
    "sin": z3.Function("sin", R, R),
    "exp": z3.Function("exp", R, R),
    "log": z3.Function("log", R, R),
    "sqrt": z3.Function("sqrt", R, R),
    "sinh": z3.Function("sinh", R, R),
    "arcsinh": z3.Function("arcsinh", R, R),
    "atan2": z3.Function("atan2", R, R, R),
    "pow": z3.Function("rpow", R, R, R),
}


def _real(x):
    t = V._num(lift(x))
    return z3.ToReal(t) if z3.is_int(t) else t


def app(name, *args):
    return Sym(F[name](*[_real(a) for a in args]))


def rpow(a, b):
    return app("pow", a, b)


def unary(name):
    def f(x):
        if isinstance(x, SymArr):
            return V.elementwise(lambda e: app(name, e), x)
        return app(name, x)

    return f


# ---------------------------------------------------------------------------------------------
# ground instantiation of the lemma schemas at the occurring terms.  Every schema below is proved from Mathlib in
# lemmas/real_analysis.lean (table: lemmas/SCHEMAS.md); lemmas/check_lean.sh (thorough tier) fails when an `add(...)` of
# `lemma_instances` is not quoted verbatim there - add the theorem together with any new schema.
# ---------------------------------------------------------------------------------------------


def _apps(terms):
    """All applications of the uninterpreted real functions occurring in `terms` (dict name -> set of arg tuples)."""
    found = {k: {} for k in F}
    seen = set()
    stack = list(terms)
    while stack:
        e = stack.pop()
        i = e.get_id()
        if i in seen:
            continue
        seen.add(i)
        if z3.is_quantifier(e):
            stack.append(e.body())
            continue
        if z3.is_app(e):
            d = e.decl()
            for k, f in F.items():
                if d.eq(f):
                    found[k][e.get_id()] = tuple(e.children())
            stack.extend(e.children())
    return {k: list(v.values()) for k, v in found.items()}


def _has_var(t):
    stack = [t]
    seen = set()
    while stack:
        e = stack.pop()
        if e.get_id() in seen:
            continue
        seen.add(e.get_id())
        if z3.is_var(e):
            return True
        stack.extend(e.children())
    return False


# Optional extra schemas registered by a property module at import time (opt-in, so other properties are unaffected):
# callables(terms) -> list of ground z3 facts, each an instance of a textbook identity (part of A4 for that property).
# C12 registers lemmas/c12_trig.trig_facts (angle addition / parity with the arithmetic side condition as antecedent).
EXTRA_SCHEMAS = []


_NO_A4 = {}  # term id -> term (kept alive, so the id stays valid): top-level terms known to contain no A4 application


def _none_mention_a4(terms):
    """Cached pre-check (performance only): hypotheses are shared by the obligations of a path, scan each of them once."""
    for t in terms:
        i = t.get_id()
        if i in _NO_A4:
            continue
        if any(_apps([t]).values()):
            return False
        _NO_A4[i] = t
    return True


def lemma_instances(terms, rounds=2, extra_points=()):
    """Ground instances of the A4 lemma schemas for the function applications occurring in `terms`.
    Returns (list of z3 facts, count)."""
    if _none_mention_a4(terms):
        return [], 0
    facts = []
    seen_facts = set()
    extra = []  # instances from EXTRA_SCHEMAS: appended at the end, the built-in schemas are not re-instantiated on them
    apps0 = _apps(list(terms))
    if not any(apps0.values()):
        return [], 0
    if EXTRA_SCHEMAS:
        for sch in EXTRA_SCHEMAS:
            for f in sch(list(terms)):
                if f.get_id() not in seen_facts:
                    seen_facts.add(f.get_id())
                    extra.append(f)

    def add(f):
        k = f.get_id()
        if k not in seen_facts:
            seen_facts.add(k)
            facts.append(f)

    cur_terms = list(terms)
    one, zero = z3.RealVal(1), z3.RealVal(0)
    if not any(_apps(cur_terms).values()):
        return [], 0
    for _ in range(rounds):
        apps = _apps(cur_terms + facts)
        apps = {k: [a for a in v if not any(_has_var(x) for x in a)] for k, v in apps.items()}
        # exp / log
        exps = [a[0] for a in apps["exp"]]
        logs = [a[0] for a in apps["log"]]
        for t in exps:
            add(F["exp"](t) > 0)
            add(F["log"](F["exp"](t)) == t)
            add(z3.Implies(t == 0, F["exp"](t) == 1))
            add(z3.Implies(t >= 0, F["exp"](t) >= 1))
            add(z3.Implies(t <= 0, F["exp"](t) <= 1))
            add(z3.Implies(t > 0, F["exp"](t) > 1))
        add(F["exp"](zero) == 1)
        add(F["log"](one) == 0)
        for t in logs:
            add(z3.Implies(t > 0, F["exp"](F["log"](t)) == t))
            add(z3.Implies(t == 1, F["log"](t) == 0))
            add(z3.Implies(t > 1, F["log"](t) > 0))
            add(z3.Implies(z3.And(t > 0, t < 1), F["log"](t) < 0))
        for a, b in itertools.combinations(exps, 2):
            add((a < b) == (F["exp"](a) < F["exp"](b)))
            add((a == b) == (F["exp"](a) == F["exp"](b)))
        for a, b in itertools.combinations(logs, 2):
            add(z3.Implies(z3.And(a > 0, b > 0), (a < b) == (F["log"](a) < F["log"](b))))
            add(z3.Implies(z3.And(a > 0, b > 0), F["log"](a * b) == F["log"](a) + F["log"](b)))
        # sinh / arcsinh : strictly increasing, odd, inverse pair
        sh = [a[0] for a in apps["sinh"]]
        ash = [a[0] for a in apps["arcsinh"]]
        add(F["sinh"](zero) == 0)
        add(F["arcsinh"](zero) == 0)
        for t in sh:
            add(F["arcsinh"](F["sinh"](t)) == t)
            add((t > 0) == (F["sinh"](t) > 0))
            add((t == 0) == (F["sinh"](t) == 0))
        for t in ash:
            add(F["sinh"](F["arcsinh"](t)) == t)
            add((t > 0) == (F["arcsinh"](t) > 0))
            add((t == 0) == (F["arcsinh"](t) == 0))
        if _ == 0:
            # odd symmetry (textbook): sinh(-t) = -sinh(t), arcsinh(-t) = -arcsinh(t); instantiated once (first round only)
            for t in sh:
                add(F["sinh"](z3.simplify(-t)) == -F["sinh"](t))
            for t in ash:
                add(F["arcsinh"](z3.simplify(-t)) == -F["arcsinh"](t))
        for a, b in itertools.combinations(sh, 2):
            add((a < b) == (F["sinh"](a) < F["sinh"](b)))
        for a, b in itertools.combinations(ash, 2):
            add((a < b) == (F["arcsinh"](a) < F["arcsinh"](b)))
        # sqrt
        for (t,) in apps["sqrt"]:
            s = F["sqrt"](t)
            add(z3.Implies(t >= 0, z3.And(s >= 0, s * s == t)))
        # cos / sin
        cs = {a[0].get_id(): a[0] for a in apps["cos"] + apps["sin"]}
        for t in cs.values():
            c, s = F["cos"](t), F["sin"](t)
            add(c * c + s * s == 1)
            add(z3.And(c >= -1, c <= 1, s >= -1, s <= 1))
        add(F["cos"](zero) == 1)
        add(F["sin"](zero) == 0)
        # pow: x in [0,1], p>0 -> in [0,1], monotone, fixes 0 and 1, (x^p)^(1/p) = x
        pw = apps["pow"]
        for x, p in pw:
            r = F["pow"](x, p)
            add(z3.Implies(z3.And(x >= 0, p > 0), r >= 0))
            add(z3.Implies(z3.And(x >= 0, x <= 1, p > 0), r <= 1))
            add(z3.Implies(z3.And(x == 0, p > 0), r == 0))
            add(z3.Implies(x == 1, r == 1))
            add(z3.Implies(z3.And(x > 0), r > 0))
            add(z3.Implies(p == 1, r == x))
            add(z3.Implies(z3.And(x >= 0, p > 0), F["pow"](r, 1 / p) == x))
            add(z3.Implies(z3.And(x > 0), F["log"](r) == p * F["log"](x)))
            add(z3.Implies(z3.And(x > 0), r == F["exp"](p * F["log"](x))))
        for (x1, p1), (x2, p2) in itertools.combinations(pw, 2):
            add(z3.Implies(z3.And(p1 == p2, p1 > 0, x1 >= 0, x2 >= 0), (x1 < x2) == (F["pow"](x1, p1) < F["pow"](x2, p2))))
            add(z3.Implies(z3.And(x1 == x2, x1 > 1), (p1 < p2) == (F["pow"](x1, p1) < F["pow"](x2, p2))))
            add(z3.Implies(z3.And(p1 == p2, x1 == x2), F["pow"](x1, p1) == F["pow"](x2, p2)))
        # atan2
        for y, x in apps["atan2"]:
            a = F["atan2"](y, x)
            rr = F["sqrt"](x * x + y * y)
            add(z3.And(rr >= 0, rr * rr == x * x + y * y))
            add(rr * F["cos"](a) == x)
            add(rr * F["sin"](a) == y)
            add(z3.And(a > -V.PI - 0, a <= V.PI))
    facts = facts + extra
    return facts, len(facts)


# ---------------------------------------------------------------------------------------------
# Σ-terms: sum_{j<n} f(j) as an uninterpreted function of (n, lambda j. f j)
# ---------------------------------------------------------------------------------------------

_SUMF = {}
_SIGMA_DEPTH = [0]
_SKELETONS = {}


def sigma(n, body_fn, sort="real"):
    """Σ_{j=0}^{n-1} body_fn(j) as a term.  Alpha-equivalent summands give identical terms
    (z3 hash-conses lambdas), which yields Σ-congruence for free."""
    # bound variable named by nesting depth, so a Σ inside the summand of another Σ cannot capture it
    _SIGMA_DEPTH[0] += 1
    try:
        j = z3.Int(f"j!sum{_SIGMA_DEPTH[0]}")
        b = lift(body_fn(j))
    finally:
        _SIGMA_DEPTH[0] -= 1
    b = V._num(b)
    if sort == "real" and z3.is_int(b):
        b = z3.ToReal(b)
    rng = b.sort()
    key = str(rng)
    if key not in _SUMF:
        _SUMF[key] = z3.Function(f"Sigma_{key}", z3.IntSort(), z3.ArraySort(z3.IntSort(), rng), rng)
    lam = z3.Lambda([j], b)
    t = _SUMF[key](lift(n), lam)
    # Lambda-lifting: name the Σ-term by an uninterpreted FUNCTION of the free constants of (bound, summand):
    #     Σ_{j<n} f(j, c1..cm)   ~>   Sigma!k(c1..cm)        (k identifies the closed skeleton of the term)
    # The application depends on every free symbol, so an enclosing Σ-binder or a later ForAll/substitution over any of
    # them is respected; equal skeletons with equal arguments give equal terms (Σ-congruence by EUF); obligations stay
    # free of lambda terms, which quantifier instantiation handles badly.
    consts, seen = [], set()

    def walk(e):
        if e.get_id() in seen:
            return
        seen.add(e.get_id())
        if z3.is_const(e) and e.decl().kind() == z3.Z3_OP_UNINTERPRETED:
            consts.append(e)
            return
        if z3.is_quantifier(e):
            walk(e.body())
            return
        for c in e.children():
            walk(c)

    walk(t)
    place = [z3.Const(f"$c{i}", c.sort()) for i, c in enumerate(consts)]
    skeleton = z3.substitute(t, *zip(consts, place)).sexpr() if consts else t.sexpr()
    if skeleton not in _SKELETONS:
        _SKELETONS[skeleton] = len(_SKELETONS)
    name = f"Sigma!{_SKELETONS[skeleton]}"
    if not consts:
        return Sym(z3.Const(name, rng))
    Fk = z3.Function(name, *[c.sort() for c in consts], rng)
    return Sym(Fk(*consts))


def reduce_sum(arr, axis=None, keepdims=False):
    if not isinstance(arr, SymArr):
        raise OutOfSubset("reduce_sum on non-array")
    nd = arr.ndim
    if axis is None:
        axes = tuple(range(nd))
    elif isinstance(axis, (tuple, list)):
        axes = tuple(a % nd for a in axis)
    else:
        axes = (axis % nd,)
    axes = tuple(sorted(axes))
    keep = [i for i in range(nd) if i not in axes]
    arrfn = arr.fn  # snapshot

    # concrete small extents: expand the sum
    def fn(*idx):
        idx = list(idx)
        if keepdims:
            outer = {i: idx[i] for i in keep}
        else:
            outer = {a: idx[p] for p, a in enumerate(keep)}

        def rec(ai, bound):
            if ai == len(axes):
                full = [bound[i] if i in bound else outer[i] for i in range(nd)]
                return arrfn(*full)
            a = axes[ai]
            n = arr.shape[a]
            ln = V._dim_lit(n)
            if ln is not None and ln <= 8:
                tot = None
                for jv in range(ln):
                    b2 = dict(bound)
                    b2[a] = z3.IntVal(jv)
                    term = rec(ai + 1, b2)
                    tot = term if tot is None else tot + term
                return tot if tot is not None else 0
            def body(j, _a=a, _ai=ai):
                b2 = dict(bound)
                b2[_a] = j
                return rec(_ai + 1, b2)

            return sigma(n, body)

        return rec(0, {})

    if keepdims:
        shape = tuple(1 if i in axes else d for i, d in enumerate(arr.shape))
    else:
        shape = tuple(arr.shape[i] for i in keep)
    out = SymArr(shape, fn, arr.kind)
    if not shape:
        return out.fn()
    return out


def _subst_bound(body, j, level):
    jj = z3.Int(f"j!lvl{level}")
    t = lift(body(jj))
    return Sym(z3.substitute(t, (jj, j)))
