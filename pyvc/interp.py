"""AST interpreter over symbolic values (the VC generator).

* interprets the `ast` of REAL functions (source read from the working tree at check time);
* callee handling: registered model -> contract -> inline (if allowed) -> native call on concrete args;
* loops with symbolic trip count need an invariant (LoopSpec) and are verified at an arbitrary iteration;
* `raise` / library exceptions are paths (RaiseSig); the contract decides which are allowed.
"""
from __future__ import annotations

import ast
import builtins
import functools
import inspect
import operator
import textwrap
import types

import z3

from . import values as V
from .values import OutOfSubset, Sym, SymArr, Obj, Kind, S, lift, contains_sym, ite


class PathEnd(Exception):
    pass


class ReturnSig(Exception):
    def __init__(self, value):
        self.value = value


class BreakSig(Exception):
    pass


class ContinueSig(Exception):
    pass


class RaiseSig(Exception):
    def __init__(self, exc):
        self.exc = exc


# ------------------------------------------------------------------------------------------------
# source extraction
# ------------------------------------------------------------------------------------------------

_SRC_CACHE = {}


def func_ast(fn):
    """AST (FunctionDef / Lambda) + file + first line + source segment of a real python function."""
    fn = inspect.unwrap(fn) if not isinstance(fn, (property,)) else fn
    code = fn.__code__
    key = (code.co_filename, code.co_firstlineno, code.co_name)
    if key in _SRC_CACHE:
        return _SRC_CACHE[key]
    fname = code.co_filename
    with open(fname) as f:
        text = f.read()
    tree = _SRC_CACHE.get(("file", fname))
    if tree is None:
        tree = ast.parse(text)
        _SRC_CACHE[("file", fname)] = tree
    best = None
    for node in ast.walk(tree):
        if isinstance(node, (ast.FunctionDef, ast.Lambda)):
            name = getattr(node, "name", "<lambda>")
            if name != code.co_name:
                continue
            first = node.lineno
            if getattr(node, "decorator_list", None):
                first = min([first] + [d.lineno for d in node.decorator_list])
            if first == code.co_firstlineno or node.lineno == code.co_firstlineno:
                best = node
                break
    if best is None:
        raise OutOfSubset(f"cannot locate source of {fn!r}")
    seg = ast.get_source_segment(text, best) or ""
    res = (best, fname, best.lineno, getattr(best, "end_lineno", best.lineno), seg)
    _SRC_CACHE[key] = res
    return res


class Closure:
    """A function value defined by interpreted code (nested def / lambda) or a real function to be interpreted."""

    def __init__(self, node, env, interp, globs, name=None, defaults=None, kwdefaults=None, real=None):
        self.node = node
        self.env = env  # enclosing Env (closure) or None
        self.interp = interp
        self.globs = globs
        self.name = name or getattr(node, "name", "<lambda>")
        self.defaults = defaults or []
        self.kwdefaults = kwdefaults or {}
        self.real = real

    def __call__(self, *args, **kwargs):
        return self.interp.call_closure(self, args, kwargs)

    def __repr__(self):
        return f"<Closure {self.name}>"


class BoundMethod:
    def __init__(self, obj, func):
        self.obj = obj
        self.func = func

    def __repr__(self):
        return f"<BoundMethod {self.func!r} of {self.obj!r}>"


class Env:
    __slots__ = ("vars", "parent", "globs", "nonlocals", "globals_decl")

    def __init__(self, globs, parent=None):
        self.vars = {}
        self.parent = parent
        self.globs = globs
        self.nonlocals = set()
        self.globals_decl = set()

    def lookup(self, name):
        e = self
        while e is not None:
            if name in e.vars:
                return e.vars[name]
            e = e.parent
        if name in self.globs:
            return self.globs[name]
        if hasattr(builtins, name):
            return getattr(builtins, name)
        raise RaiseSig(NameError(f"name {name!r} is not defined"))

    def assign(self, name, value):
        if name in self.nonlocals:
            e = self.parent
            while e is not None:
                if name in e.vars:
                    e.vars[name] = value
                    return
                e = e.parent
        if name in self.globals_decl:
            raise OutOfSubset(f"assignment to global {name}")
        self.vars[name] = value


class LoopSpec:
    """Invariant for a symbolic-trip-count loop.

    inv(s)      -> list of (label, bool term) ; s exposes loop variables by name, `s.k` (iteration
                   counter, 0-based), `s.pre` (namespace of values before the loop), helpers.
    modifies    -> extra heap locations havocked: list of callables(s) returning SymArr / (Obj, field) ...
    variant(s)  -> integer term that decreases (while loops)
    """

    def __init__(self, inv=None, havoc=None, variant=None, kinds=None, after=None, yields=None):
        self.inv = inv or (lambda s: [])
        self.yields = yields
        self.havoc = havoc or {}
        self.variant = variant
        self.kinds = kinds or {}
        self.after = after


class NS:
    """Attribute namespace used by contract lambdas."""

    def __init__(_ns, _d=None, **kw):
        _ns.__dict__.update(_d or {})
        _ns.__dict__.update(kw)

    def __getitem__(self, k):
        return self.__dict__[k]

    def get(self, k, default=None):
        return self.__dict__.get(k, default)


class MissingLocal(OutOfSubset, AttributeError):
    """A loop contract reads a local variable the function no longer has (renamed / removed by an edit): the contract cannot be
    evaluated, which is `undecided` - never a checker fault and never a verdict.  (Also an AttributeError, so hasattr() works.)"""


class LoopNS(NS):
    def __getattr__(self, name):
        if name.startswith("__"):
            raise AttributeError(name)
        raise MissingLocal(f"the loop contract refers to the local variable `{name}`, which the function does not have at this loop "
                           f"(renamed or removed?); the invariant has to be restated over the new names")


_BINOPS = {
    ast.Add: operator.add, ast.Sub: operator.sub, ast.Mult: operator.mul, ast.Div: operator.truediv,
    ast.FloorDiv: operator.floordiv, ast.Mod: operator.mod, ast.Pow: operator.pow,
    ast.BitAnd: operator.and_, ast.BitOr: operator.or_, ast.BitXor: operator.xor,
    ast.LShift: operator.lshift, ast.RShift: operator.rshift, ast.MatMult: operator.matmul,
}
_CMPOPS = {
    ast.Eq: operator.eq, ast.NotEq: operator.ne, ast.Lt: operator.lt, ast.LtE: operator.le,
    ast.Gt: operator.gt, ast.GtE: operator.ge,
}

NOOP_CALLS = {"print", "warn", "tqdm"}



def _value_signature(v, depth=0):
    """Identity / write-counter signature of a value (depth 2): changes when the value is mutated in place."""
    if hasattr(v, "_pyvc_signature"):
        return v._pyvc_signature()  # model-defined value kinds (e.g. pointwise arrays of pyvc/lib/c20_models.py)
    if isinstance(v, SymArr):
        return ("arr", id(v), v.writes, id(v.fn))
    if isinstance(v, Obj):
        return ("obj", id(v), tuple((k, _value_signature(x, depth + 1) if depth < 2 else id(x)) for k, x in sorted(v.fields.items(), key=lambda kv: str(kv[0]))))
    if isinstance(v, (list, tuple)):
        return (type(v).__name__, len(v), tuple(_value_signature(x, depth + 1) if depth < 2 else id(x) for x in v[:50]))
    if isinstance(v, dict):
        return ("dict", len(v), tuple((str(k), _value_signature(x, depth + 1) if depth < 2 else id(x)) for k, x in list(v.items())[:50]))
    if isinstance(v, (Sym, int, float, complex, str, bytes, bool, type(None))):
        return ("imm",)
    return ("id", id(v))


_SIMPLE_ACCESSOR = {}


def _is_simple_accessor(f):
    """Is the source of `f` a docstring followed by a single `return <expression>` (no generator, no decorator other than
    @property / @staticmethod / @classmethod)?"""
    key = getattr(f, "__code__", None)
    if key is None:
        return False
    if key in _SIMPLE_ACCESSOR:
        return _SIMPLE_ACCESSOR[key]
    ok = False
    try:
        node = func_ast(f)[0]
        body = list(node.body)
        if body and isinstance(body[0], ast.Expr) and isinstance(getattr(body[0], "value", None), ast.Constant) and isinstance(body[0].value.value, str):
            body = body[1:]
        decos = [d.id if isinstance(d, ast.Name) else getattr(d, "attr", None) for d in node.decorator_list]
        ok = (len(body) == 1 and isinstance(body[0], ast.Return) and body[0].value is not None
              and not any(isinstance(n, (ast.Yield, ast.YieldFrom, ast.Await, ast.Lambda)) for n in ast.walk(body[0]))
              and all(d in ("property", "staticmethod", "classmethod", "getter") for d in decos))
    except Exception:
        ok = False
    _SIMPLE_ACCESSOR[key] = ok
    return ok

class Interp:
    def __init__(self, ctx, registry):
        self.ctx = ctx
        self.reg = registry  # Registry: models, contracts, inline set, loop specs
        self.depth = 0
        self.under_verification = None  # qualname of function whose body is being verified
        self.yields = []  # ghost: list of ('one', value) | ('family', count, k_sym, value, loop_id)
        self.loop_k = []  # stack of current symbolic iteration counters
        self.trace_calls = []

    # ------------------------------------------------------------------ functions
    def closure_of(self, fn):
        node, fname, l0, l1, seg = func_ast(fn)
        globs = fn.__globals__
        defaults = list(fn.__defaults__ or ())
        kwdefaults = dict(fn.__kwdefaults__ or {})
        # modelled module state (C19): reg.global_overrides = {module name: {global name: value}} replaces module
        # globals (and default-argument values that ARE those globals) by explicit symbolic state
        ov = getattr(self.reg, "global_overrides", {}).get(getattr(fn, "__module__", None))
        if ov:
            import collections

            real_ids = {id(globs[k]): v for k, v in ov.items() if k in globs and isinstance(globs[k], (dict, list))}
            defaults = [real_ids.get(id(d), d) for d in defaults]
            kwdefaults = {k: real_ids.get(id(d), d) for k, d in kwdefaults.items()}
            globs = collections.ChainMap(dict(ov), globs)
        c = Closure(node, None, self, globs, name=fn.__qualname__, defaults=defaults, kwdefaults=kwdefaults, real=fn)
        # real closures: bind free variables
        if fn.__closure__:
            env = Env(globs)
            for name, cell in zip(fn.__code__.co_freevars, fn.__closure__):
                try:
                    env.vars[name] = cell.cell_contents
                except ValueError:
                    pass
            c.env = env
        return c

    def bind_args(self, clo, args, kwargs):
        a = clo.node.args
        env = Env(clo.globs, clo.env)
        params = [p.arg for p in a.posonlyargs + a.args]
        args = list(args)
        kwargs = dict(kwargs)
        ndef = len(clo.defaults)
        for i, p in enumerate(params):
            if i < len(args):
                env.vars[p] = args[i]
            elif p in kwargs:
                env.vars[p] = kwargs.pop(p)
            else:
                j = i - (len(params) - ndef)
                if j >= 0:
                    env.vars[p] = clo.defaults[j]
                else:
                    raise RaiseSig(TypeError(f"{clo.name}() missing argument {p!r}"))
        extra = args[len(params):]
        if a.vararg:
            env.vars[a.vararg.arg] = tuple(extra)
        elif extra:
            raise RaiseSig(TypeError(f"{clo.name}() takes {len(params)} positional arguments"))
        for p in a.kwonlyargs:
            if p.arg in kwargs:
                env.vars[p.arg] = kwargs.pop(p.arg)
            elif p.arg in clo.kwdefaults:
                env.vars[p.arg] = clo.kwdefaults[p.arg]
            else:
                raise RaiseSig(TypeError(f"{clo.name}() missing keyword argument {p.arg!r}"))
        if a.kwarg:
            env.vars[a.kwarg.arg] = kwargs
        elif kwargs:
            raise RaiseSig(TypeError(f"{clo.name}() got unexpected keyword {list(kwargs)[0]!r}"))
        return env

    def call_closure(self, clo, args, kwargs):
        env = self.bind_args(clo, args, kwargs)
        return self.run_body(clo, env)

    _GEN_CACHE = {}  # id(node) -> (node, bool): the AST of a function does not change during a run

    def is_generator(self, node):
        hit = Interp._GEN_CACHE.get(id(node))
        if hit is not None and hit[0] is node:
            return hit[1]
        r = False
        for n in ast.walk(node):
            if isinstance(n, (ast.Yield, ast.YieldFrom)):
                # make sure the yield is not inside a nested function
                r = self._owns_yield(node)
                break
        Interp._GEN_CACHE[id(node)] = (node, r)
        return r

    def _owns_yield(self, node):
        def walk(n, top):
            for c in ast.iter_child_nodes(n):
                if isinstance(c, (ast.FunctionDef, ast.Lambda, ast.AsyncFunctionDef)) :
                    continue
                if isinstance(c, (ast.Yield, ast.YieldFrom)):
                    return True
                if walk(c, False):
                    return True
            return False
        return walk(node, True)

    def run_body(self, clo, env):
        self.depth += 1
        if self.depth > 60:
            raise OutOfSubset("interpreter recursion depth > 60")
        self.ctx.frames.append(getattr(clo, "frame", None) or f"{clo.name}")
        try:
            node = clo.node
            if isinstance(node, ast.Lambda):
                return self.eval(node.body, env)
            if self.is_generator(node):
                saved = self.yields
                self.yields = []
                try:
                    try:
                        self.exec_block(node.body, env)
                    except ReturnSig:
                        pass
                    return GhostGen(self.yields)
                finally:
                    self.yields = saved
            try:
                self.exec_block(node.body, env)
            except ReturnSig as r:
                return r.value
            return None
        finally:
            self.depth -= 1
            self.ctx.frames.pop()

    # ------------------------------------------------------------------ statements
    def exec_block(self, stmts, env):
        for s in stmts:
            self.exec(s, env)

    def exec(self, node, env):
        m = getattr(self, "x_" + type(node).__name__, None)
        if m is None:
            raise OutOfSubset(f"statement {type(node).__name__} at line {getattr(node, 'lineno', '?')}")
        self.cur_line = getattr(node, "lineno", None)
        return m(node, env)

    def x_Expr(self, node, env):
        if isinstance(node.value, ast.Constant):
            return  # docstring
        self.eval(node.value, env)

    def x_Pass(self, node, env):
        pass

    def x_Import(self, node, env):
        for a in node.names:
            mod = __import__(a.name)
            if a.asname:
                import importlib

                mod = importlib.import_module(a.name)
                env.assign(a.asname, mod)
            else:
                env.assign(a.name.split(".")[0], mod)

    def x_ImportFrom(self, node, env):
        import importlib

        pkg = env.globs.get("__package__") or env.globs.get("__name__", "").rpartition(".")[0]
        mod = importlib.import_module("." * node.level + (node.module or ""), pkg if node.level else None)
        for a in node.names:
            env.assign(a.asname or a.name, getattr(mod, a.name))

    def x_Global(self, node, env):
        env.globals_decl.update(node.names)

    def x_Nonlocal(self, node, env):
        env.nonlocals.update(node.names)

    def x_Assign(self, node, env):
        v = self.eval(node.value, env)
        for t in node.targets:
            self.assign(t, v, env)

    def x_AnnAssign(self, node, env):
        if node.value is not None:
            self.assign(node.target, self.eval(node.value, env), env)

    def x_AugAssign(self, node, env):
        t = node.target
        op = _BINOPS[type(node.op)]
        if isinstance(t, ast.Name):
            cur = env.lookup(t.id)
            new = self.inplace(op, cur, self.eval(node.value, env))
            env.assign(t.id, new)
        elif isinstance(t, ast.Subscript):
            base = self.eval(t.value, env)
            key = self.eval_index(t.slice, env)
            cur = self.getitem(base, key)
            if isinstance(base, SymArr):
                new = self.binop(op, cur, self.eval(node.value, env))  # a[i] op= v on an array: functional element update
            else:
                # container[k] op= v is container[k] = container[k].__iop__(v): an array / list held in a dict or list is
                # updated IN PLACE (every alias of that element sees it), anything immutable is rebound
                new = self.inplace(op, cur, self.eval(node.value, env))
            self.setitem(base, key, new)
        elif isinstance(t, ast.Attribute):
            base = self.eval(t.value, env)
            cur = self.getattr(base, t.attr)
            new = self.inplace(op, cur, self.eval(node.value, env))
            self.setattr(base, t.attr, new)
        else:
            raise OutOfSubset("augmented assignment target")

    def inplace(self, op, cur, val):
        """`x op= v`: numpy / torch arrays are updated in place (aliases see it), everything else rebinds."""
        if isinstance(cur, V.TorchElem):
            # in-place operator on a 0-dim torch view: the element of the base tensor is written (every later read of the base
            # sees it) and the name stays a view of that element
            arr, idx = cur.arr, cur.idx
            if arr.writes != cur.stamp:
                raise OutOfSubset("in-place operator on a 0-dim tensor view whose base was written since the view was taken")
            new = self.binop(op, Sym(cur.t), val)
            if isinstance(new, SymArr):
                raise OutOfSubset("in-place operator on a 0-dim tensor view with an array operand")
            arr[tuple(Sym(i) for i in idx)] = new
            return V.TorchElem(lift(new), arr, idx, arr.writes)
        if isinstance(cur, SymArr) and not cur.pylist and cur.base is not cur:
            cur.detach_from_base()
        new = self.binop(op, cur, val)
        if isinstance(cur, SymArr) and not cur.pylist and isinstance(new, SymArr):
            cur.fn = new.fn  # `new` captured the old index function by value (values._snap_fn / elementwise)
            cur.writes += 1
            # ghost facts attached by a library model to the freshly computed array (C15: conserved totals) follow the
            # value into the updated array; they are stamped with the write counter, so any other write invalidates them
            g = getattr(new, "_ghost_total", None)
            if g is not None:
                cur._ghost_total = (g[0], cur.writes)
            return cur
        if isinstance(cur, list) and op is operator.add:
            cur.extend(val)
            return cur
        if type(cur) in (dict, set) and op is operator.or_ and type(new) is type(cur):
            cur.update(val)  # `d |= other` / `s |= other` mutate the left operand in place (aliases see it)
            return cur
        if hasattr(cur, "_pyvc_inplace") and not isinstance(cur, (Sym, SymArr, Obj)):
            # value classes of library models that are mutable arrays (C13: structural complex arrays): `x op= v` stores INTO x
            return cur._pyvc_inplace(op, new)
        return new

    def assign(self, target, v, env):
        if isinstance(target, ast.Name):
            env.assign(target.id, v)
        elif isinstance(target, (ast.Tuple, ast.List)):
            vals = self.unpack(v, len(target.elts), any(isinstance(e, ast.Starred) for e in target.elts))
            if any(isinstance(e, ast.Starred) for e in target.elts):
                k = [i for i, e in enumerate(target.elts) if isinstance(e, ast.Starred)][0]
                n_after = len(target.elts) - k - 1
                vals = list(vals)
                head, mid, tail = vals[:k], vals[k:len(vals) - n_after], vals[len(vals) - n_after:]
                for e, x in zip(target.elts[:k], head):
                    self.assign(e, x, env)
                self.assign(target.elts[k].value, list(mid), env)
                for e, x in zip(target.elts[k + 1:], tail):
                    self.assign(e, x, env)
            else:
                for e, x in zip(target.elts, vals):
                    self.assign(e, x, env)
        elif isinstance(target, ast.Attribute):
            self.setattr(self.eval(target.value, env), target.attr, v)
        elif isinstance(target, ast.Subscript):
            base = self.eval(target.value, env)
            key = self.eval_index(target.slice, env)
            self.setitem(base, key, v)
        else:
            raise OutOfSubset(f"assignment target {type(target).__name__}")

    def unpack(self, v, n, starred=False):
        if isinstance(v, (tuple, list)):
            if not starred and len(v) != n:
                raise RaiseSig(ValueError(f"cannot unpack {len(v)} values into {n}"))
            return v
        if isinstance(v, SymArr):
            ln = V._dim_lit(v.sym_len())
            if ln is None:
                raise OutOfSubset("unpacking symbolic-length sequence")
            if not starred and ln != n:
                raise RaiseSig(ValueError(f"cannot unpack {ln} values into {n}"))
            return [v[i] for i in range(ln)]
        if isinstance(v, GhostGen):
            return v.concrete_list()
        try:
            vals = list(v)
        except TypeError as e:
            raise RaiseSig(e)
        if not starred and len(vals) != n:
            raise RaiseSig(ValueError(f"cannot unpack {len(vals)} values into {n}"))
        return vals

    def x_Return(self, node, env):
        raise ReturnSig(self.eval(node.value, env) if node.value is not None else None)

    def x_Raise(self, node, env):
        if node.exc is None:
            cur_exc = getattr(self, "_handling", None)
            if cur_exc:
                raise RaiseSig(cur_exc[-1])  # bare `raise` inside an except block re-raises the handled exception
            raise OutOfSubset("bare raise")
        exc = self.eval_exc(node.exc, env)
        raise RaiseSig(exc)

    def eval_exc(self, node, env):
        # error messages are never evaluated symbolically
        if isinstance(node, ast.Call):
            cls = self.eval(node.func, env)
            if isinstance(cls, type) and issubclass(cls, BaseException):
                try:
                    args = [self.eval(a, env) for a in node.args]
                    args = [a if isinstance(a, str) else "<value>" for a in args]
                except (OutOfSubset, RaiseSig):
                    args = ["<message not evaluated>"]
                try:
                    return cls(*args)
                except Exception:
                    return cls()
        e = self.eval(node, env)
        if isinstance(e, type) and issubclass(e, BaseException):
            e = e()
        return e

    def x_Assert(self, node, env):
        c = self.eval(node.test, env)
        if not self.truth(c):
            raise RaiseSig(AssertionError())

    def x_Delete(self, node, env):
        for t in node.targets:
            if isinstance(t, ast.Name):
                env.vars.pop(t.id, None)
            elif isinstance(t, ast.Subscript):
                base = self.eval(t.value, env)
                key = self.eval_index(t.slice, env)
                self.native(operator.delitem, base, key)
            elif isinstance(t, ast.Attribute):
                base = self.eval(t.value, env)
                if isinstance(base, Obj):
                    if t.attr not in base.fields:
                        raise RaiseSig(AttributeError(t.attr))
                    del base.fields[t.attr]
                else:
                    self.native(delattr, base, t.attr)

    def x_If(self, node, env):
        if self.truth(self.eval(node.test, env)):
            self.exec_block(node.body, env)
        else:
            self.exec_block(node.orelse, env)

    def truth(self, v):
        if isinstance(v, Sym):
            return bool(v)
        if isinstance(v, SymArr):
            if v.ndim == 0:
                return bool(S(v.fn()))
            if v.pylist:
                return bool(S(v.sym_len()) > 0)
            raise OutOfSubset("truth value of a symbolic array")
        if isinstance(v, Obj):
            if hasattr(v.cls, "__len__"):
                r = self.call(self.getattr(v, "__len__"), [], {})
                return self.truth(S(r) != 0) if contains_sym(r) else r != 0
            return True
        if isinstance(v, Kind):
            h = getattr(v, "_pyvc_truth", None)  # opt-in: a kind-abstract value that knows its Python truth value (-> bool, may fork the path)
            if h is not None:
                return h(self)
            raise OutOfSubset("truth value of kind-abstract value")
        return bool(v)

    def x_With(self, node, env):
        for item in node.items:
            cm_node = item.context_expr
            # torch.no_grad(): body only
            if isinstance(cm_node, ast.Call) and isinstance(cm_node.func, ast.Attribute) and cm_node.func.attr in ("no_grad", "enable_grad", "catch_warnings"):
                continue
            cm = self.eval(cm_node, env)
            h = self.reg.with_models.get(type(cm)) or self.reg.with_models.get(getattr(cm, "cls", None))
            if h is None:
                raise OutOfSubset(f"context manager {cm!r}")
            val = h(self, cm, "enter")
            if item.optional_vars is not None:
                self.assign(item.optional_vars, val, env)
            try:
                self.exec_block(node.body, env)
            finally:
                h(self, cm, "exit")
            return
        self.exec_block(node.body, env)

    def x_Try(self, node, env):
        try:
            try:
                self.exec_block(node.body, env)
            except RaiseSig as r:
                for h in node.handlers:
                    if h.type is None:
                        match = True
                    else:
                        et = self.eval(h.type, env)
                        match = isinstance(r.exc, et)
                    if match:
                        if h.name:
                            env.assign(h.name, r.exc)
                        if not hasattr(self, "_handling"):
                            self._handling = []
                        self._handling.append(r.exc)
                        try:
                            self.exec_block(h.body, env)
                        finally:
                            self._handling.pop()
                        break
                else:
                    raise
            else:
                self.exec_block(node.orelse, env)
        finally:
            if node.finalbody:
                self.exec_block(node.finalbody, env)

    def x_FunctionDef(self, node, env):
        defaults = [self.eval(d, env) for d in node.args.defaults]
        kwdefaults = {a.arg: self.eval(d, env) for a, d in zip(node.args.kwonlyargs, node.args.kw_defaults) if d is not None}
        c = Closure(node, env, self, env.globs, defaults=defaults, kwdefaults=kwdefaults)
        if node.decorator_list:
            raise OutOfSubset("decorated nested function")
        c.frame = self.ctx.frames[-1] if self.ctx.frames else None
        env.assign(node.name, c)

    def x_While(self, node, env):
        spec = self.loop_spec(node)
        if spec is None:
            # concrete unrolling (bounded by the decision limit)
            n = 0
            nsym = 0
            while True:
                tv = self.eval(node.test, env)
                if not isinstance(tv, (bool, int, float, str, type(None))):
                    # a test that is not a concrete Python value forks the path at every unrolling: without a loop contract such a
                    # loop is not decidable by unrolling (found with seeded/C17_I: an added path-compression loop made the
                    # interpreter unroll a symbolic walk with ever-growing store terms, the check never returned)
                    nsym += 1
                    if nsym > 6:
                        raise OutOfSubset("while loop with a symbolic condition and no loop contract (unrolled 6 times)")
                if not self.truth(tv):
                    self.exec_block(node.orelse, env)
                    break
                n += 1
                if n > 200:
                    raise OutOfSubset("while loop without invariant unrolled > 200 times")
                try:
                    self.exec_block(node.body, env)
                except BreakSig:
                    break
                except ContinueSig:
                    continue
            return
        self.symbolic_loop(node, env, spec, kind="while")

    def x_For(self, node, env):
        it = self.eval(node.iter, env)
        if isinstance(it, Obj) and hasattr(it.cls, "__iter__"):
            # `for x in obj`: the iterator protocol calls obj.__iter__() (used through its contract / inlined)
            it = self.call(self.getattr(it, "__iter__"), [], {})
        spec = self.loop_spec(node)
        lm = getattr(self.reg, "loop_models", {}).get(type(it)) if spec is None else None
        if lm is not None and lm(self, node, env, it) is not NotImplemented:
            return  # reg.loop_models[type] = handler(interp, for-node, env, iterable): the model summarised the whole loop (C19: pointwise loops over dict keys)
        seq = self.iter_values(it)
        if seq is not None and spec is None:
            broke = False
            for v in seq:
                self.assign(node.target, v, env)
                try:
                    self.exec_block(node.body, env)
                except BreakSig:
                    broke = True
                    break
                except ContinueSig:
                    continue
            if not broke:
                self.exec_block(node.orelse, env)
            return
        if spec is None:
            # loop without carried state: arbitrary-iteration rule
            spec = LoopSpec(inv=lambda s: [])
            carried = self.assigned_names(node.body) - self.assigned_names([ast.Expr(node.target)])
            tnames = self.target_names(node.target)
            live = [n for n in carried if n not in tnames and self._used_outside_def(node, n)]
            if live:
                raise OutOfSubset(f"loop at line {node.lineno} over symbolic iterable carries {sorted(live)} and has no invariant")
        self.symbolic_loop(node, env, spec, kind="for", iterable=it)

    def _used_outside_def(self, loopnode, name):
        # a name assigned in the body is loop-carried if it is read before being written in the body
        # (conservative: any Load occurrence that textually precedes the first Store), or read after the loop.
        first_store = None
        loads_before = False
        for n in ast.walk(ast.Module(body=loopnode.body, type_ignores=[])):
            if isinstance(n, ast.Name) and n.id == name:
                pos = (n.lineno, n.col_offset)
                if isinstance(n.ctx, ast.Store):
                    if first_store is None or pos < first_store:
                        first_store = pos
        for n in ast.walk(ast.Module(body=loopnode.body, type_ignores=[])):
            if isinstance(n, ast.Name) and n.id == name and isinstance(n.ctx, ast.Load):
                if first_store is None or (n.lineno, n.col_offset) < first_store:
                    loads_before = True
        return loads_before or name in self.reads_after.get(id(loopnode), {name})

    reads_after = {}

    def iter_values(self, it):
        """Concrete list of iteration values, or None if the trip count is symbolic."""
        if type(it) in getattr(self.reg, "iter_models", {}):
            return None  # a property's own iterable value (C19: dict with symbolic key set): always a symbolic loop
        if isinstance(it, SymRange):
            return it.concrete()
        if isinstance(it, SymArr):
            ln = V._dim_lit(it.sym_len())
            if ln is None:
                return None
            return [it[i] for i in range(ln)]
        if isinstance(it, GhostGen):
            return it.concrete_list_or_none()
        if isinstance(it, SymEnumerate):
            inner = self.iter_values(it.inner)
            if inner is None:
                return None
            return [(i + it.start, v) for i, v in enumerate(inner)]
        if isinstance(it, SymZip):
            inners = [self.iter_values(x) for x in it.inners]
            if any(x is None for x in inners):
                return None
            return list(zip(*inners))
        if isinstance(it, Obj):
            raise OutOfSubset(f"iteration over abstract object {it!r}")
        try:
            return list(it)
        except TypeError as e:
            raise RaiseSig(e)

    def target_names(self, t):
        return {n.id for n in ast.walk(t) if isinstance(n, ast.Name)}

    def assigned_names(self, stmts):
        out = set()
        for s in stmts:
            for n in ast.walk(s):
                if isinstance(n, ast.Name) and isinstance(n.ctx, ast.Store):
                    out.add(n.id)
                elif isinstance(n, (ast.FunctionDef,)):
                    out.add(n.name)
        return out

    def loop_spec(self, node):
        f = self.ctx.frames[-1] if self.ctx.frames else ""
        return self.reg.loop_spec(f, node)

    # ---- symbolic loops
    def symbolic_loop(self, node, env, spec, kind, iterable=None):
        ctx = self.ctx
        fname = ctx.frames[-1] if ctx.frames else "?"
        lid = f"{fname}@loop{self.reg.loop_ordinal(fname, node)}"
        pre = NS(dict(self._flat_env(env)))
        carried = sorted(self.assigned_names(node.body))
        tnames = sorted(self.target_names(node.target)) if kind == "for" else []

        def ns(k):
            d = dict(self._flat_env(env))
            # name-independent view of the loop state for invariants that should survive a renaming of locals:
            #   loop_iterable  the evaluated iterable of a `for` loop;  loop_targets  its target names;
            #   loop_carried   {name: current value} of the names the body assigns and that were ALREADY bound before the loop
            live = {n: d[n] for n in carried if n in pre.__dict__ and n in d and n not in tnames}
            return LoopNS(d, k=k, pre=pre, ctx=ctx, interp=self, loop_iterable=iterable, loop_targets=tuple(tnames), loop_carried=live)

        # trip count for `for`
        N = None
        getter = None
        if kind == "for":
            N, getter = self.iter_family(iterable)
        # 1. invariant holds on entry (k = 0)
        for lab, t in self._inv(spec, ns(S(0))):
            ctx.prove(f"{lid}:inv-entry:{lab}", t, kind="loop-inv-entry")
        # 2. arbitrary iteration: havoc carried variables
        decision_mark = len(ctx.decisions)
        k = ctx.fresh("k", "int")
        ctx.assume(k.t >= 0)
        if N is not None:
            ctx.assume(k.t <= lift(N))
        self._havoc(env, carried, spec, pre, lid)
        # arrays written IN PLACE by the body (`a[i] = v`, `a[i] += v`): their contents are arbitrary at iteration k
        inplace_names = self._havoc_inplace(node.body, env, carried, spec, lid)
        inv_k = self._inv(spec, ns(k))
        for lab, t in inv_k:
            ctx.assume(t)
        # safety net: anything mutable that is NOT havocked must come out of the body unmodified
        skip = set(carried) | set(inplace_names) | set(spec.havoc.keys()) | set(tnames)
        mut_before = self._mutable_signature(env, skip)
        # which way: one more iteration (check preservation, then stop) or exit?
        if kind == "for":
            more = ctx.branch(k.t < lift(N))
        else:
            more = self.truth(self.eval(node.test, env))
        if more:
            if kind == "for":
                self.assign(node.target, getter(k), env)
            var0 = spec.variant(ns(k)) if spec.variant else None
            self.loop_k.append((lid, k, N, spec, ns))
            try:
                try:
                    self.exec_block(node.body, env)
                except ContinueSig:
                    pass
                except BreakSig:
                    raise OutOfSubset("break inside a loop verified by invariant")
            finally:
                self.loop_k.pop()
            mut_after = self._mutable_signature(env, skip)
            for key, sig in mut_before.items():
                if key in mut_after and mut_after[key] != sig:
                    raise OutOfSubset(f"{lid}: loop body mutates `{key}` which is neither loop-carried nor havocked "
                                      f"(add a LoopSpec.havoc entry keyed by its variable name)")
            for lab, t in self._inv(spec, ns(k + 1)):
                ctx.prove(f"{lid}:inv-preserved:{lab}", t, kind="loop-inv-preserved")
            if spec.variant:
                v1 = spec.variant(ns(k + 1))
                ctx.prove(f"{lid}:variant-decreases", z3.And(lift(v1) < lift(var0), lift(var0) >= 0), kind="loop-variant")
            raise PathEnd("loop iteration verified")
        # exit path
        if kind == "for":
            ctx.assume(k.t == lift(N))
        if spec.after:
            spec.after(ns(k))
        if spec.yields is not None:
            kk = ctx.fresh("ky", "int")
            self.yields.append(("family", N if N is not None else k, kk, spec.yields(ns(kk)), lid))
        self.exec_block(node.orelse, env)

    def _store_bases(self, stmts):
        """Names that are the base of a Subscript store / augmented subscript store in `stmts`."""
        out = set()
        for st in stmts:
            for n in ast.walk(st):
                tgts = []
                if isinstance(n, ast.Assign):
                    tgts = n.targets
                elif isinstance(n, (ast.AugAssign, ast.AnnAssign)):
                    tgts = [n.target]
                for t in tgts:
                    for e in ast.walk(t):
                        if isinstance(e, ast.Subscript) and isinstance(e.ctx, ast.Store) and isinstance(e.value, ast.Name):
                            out.add(e.value.id)
        return out

    def _havoc_inplace(self, body, env, carried, spec, lid):
        done = []
        for n in sorted(self._store_bases(body)):
            if n in carried or n in spec.havoc:
                continue
            try:
                v = env.lookup(n)
            except RaiseSig:
                continue
            if isinstance(v, SymArr):
                if v.base is not v:
                    v.detach_from_base()
                kind = v.kind if v.kind in ("int", "real", "bool") else "real"
                fresh = self.ctx.fresh_arr(n, v.shape, kind)
                v.fn = fresh.fn
                v.func = getattr(fresh, "func", None)
                v.writes += 1
                done.append(n)
        return done

    def _mutable_signature(self, env, skip):
        """Cheap identity/content signature of every mutable value reachable from the environment (depth 2)."""
        sig = {}

        def one(key, v, depth):
            if key in skip:  # dotted keys ("self._field") can be named in LoopSpec.havoc as well
                return
            if isinstance(v, SymArr):
                sig[key] = ("arr", id(v), v.writes, id(v.fn))
            elif isinstance(v, Obj) and depth < 2:
                sig[key] = ("obj", id(v), tuple(sorted(v.fields)))
                for f, fv in v.fields.items():
                    one(f"{key}.{f}", fv, depth + 1)
            elif isinstance(v, list) and depth < 2:
                sig[key] = ("list", id(v), len(v), tuple(id(x) for x in v[:50]))
            elif isinstance(v, dict) and depth < 2:
                sig[key] = ("dict", id(v), len(v), tuple((repr(k)[:20], id(x)) for k, x in list(v.items())[:50]))
            elif isinstance(v, set):
                sig[key] = ("set", id(v), len(v))

        for name, v in self._flat_env(env).items():
            if name in skip:
                continue
            one(name, v, 0)
        return sig

    def _inv(self, spec, s):
        r = spec.inv(s)
        if r is None:
            return []
        if isinstance(r, dict):
            r = list(r.items())
        out = []
        for i, x in enumerate(r):
            if isinstance(x, tuple):
                out.append((x[0], lift(x[1])))
            else:
                out.append((f"c{i}", lift(x)))
        return out

    def _flat_env(self, env):
        chain = []
        e = env
        while e is not None:
            chain.append(e.vars)
            e = e.parent
        d = {}
        for v in reversed(chain):
            d.update(v)
        return d

    def _havoc(self, env, names, spec, pre, lid):
        ctx = self.ctx
        for n in names:
            try:
                old = env.lookup(n)
            except RaiseSig:
                old = None
            kind = spec.kinds.get(n)
            if kind is None:
                if isinstance(old, Sym):
                    kind = "int" if old.is_int else "bool" if old.is_bool else "real"
                elif isinstance(old, bool):
                    kind = "bool"
                elif isinstance(old, int):
                    kind = "int"
                elif isinstance(old, float):
                    kind = "real"
                elif old is None:
                    continue  # first assigned inside the loop: not carried
                elif isinstance(old, SymArr):
                    new = ctx.fresh_arr(n, old.shape, old.kind if old.kind in ("int", "real", "bool") else "real")
                    new.pylist = old.pylist
                    env.assign(n, new)
                    continue
                elif type(old) in getattr(self.reg, "havoc_models", {}):
                    # reg.havoc_models[type] = handler(ctx, name, old) -> arbitrary value of that type (name-independent havoc of a
                    # library model's value class; C10: abstract images)
                    env.assign(n, self.reg.havoc_models[type(old)](ctx, n, old))
                    continue
                else:
                    raise OutOfSubset(f"{lid}: cannot havoc loop-carried variable {n} of type {type(old).__name__}")
            if callable(kind):
                env.assign(n, kind(ctx, old))
            else:
                env.assign(n, ctx.fresh(n, kind))
        for key, h in spec.havoc.items():
            h(NS(dict(self._flat_env(env)), pre=pre, ctx=ctx, interp=self, env=env))  # env: lets a hook rebind a local that is mutated through methods (C10: list.append)

    def iter_family(self, it):
        """(trip count, getter(k)->value) for a symbolic iterable."""
        h = getattr(self.reg, "iter_models", {}).get(type(it))
        if h is not None:
            return h(self, it)  # reg.iter_models[type] = handler(interp, value) -> (count, getter)
        if isinstance(it, SymRange):
            return it.count(), lambda k: it.start + k * it.step
        if isinstance(it, SymArr):
            return it.sym_len(), lambda k: it.fn(lift(k)) if it.ndim == 1 else it[k]
        if isinstance(it, SymEnumerate):
            n, g = self.iter_family(it.inner)
            return n, lambda k: (k + it.start, g(k))
        if isinstance(it, SymZip):
            fams = [self.iter_family(x) for x in it.inners]
            n = fams[0][0]
            for m, _ in fams[1:]:
                n = V.smin(n, m)
            return n, lambda k: tuple(g(k) for _, g in fams)
        if isinstance(it, GhostGen):
            return it.family()
        raise OutOfSubset(f"symbolic iteration over {type(it).__name__}")

    def x_Break(self, node, env):
        raise BreakSig()

    def x_Continue(self, node, env):
        raise ContinueSig()

    # ------------------------------------------------------------------ expressions
    def eval(self, node, env):
        m = getattr(self, "e_" + type(node).__name__, None)
        if m is None:
            raise OutOfSubset(f"expression {type(node).__name__} at line {getattr(node, 'lineno', '?')}")
        return m(node, env)

    def e_Constant(self, node, env):
        return node.value

    def e_Name(self, node, env):
        return env.lookup(node.id)

    def e_Tuple(self, node, env):
        return tuple(self._elts(node.elts, env))

    def e_List(self, node, env):
        return list(self._elts(node.elts, env))

    def e_Set(self, node, env):
        return set(self._elts(node.elts, env))

    def _elts(self, elts, env):
        out = []
        for e in elts:
            if isinstance(e, ast.Starred):
                out.extend(self.unpack(self.eval(e.value, env), 0, True))
            else:
                out.append(self.eval(e, env))
        return out

    def e_Dict(self, node, env):
        d = {}
        for k, v in zip(node.keys, node.values):
            if k is None:
                d.update(self.eval(v, env))
            else:
                d[self.eval(k, env)] = self.eval(v, env)
        df = getattr(self.reg, "dict_factory", None)
        if df is not None:  # a property may model dict displays by its own map value (C19: symbolic nested maps)
            return df(self, d)
        return d

    def e_JoinedStr(self, node, env):
        parts = []
        for v in node.values:
            if isinstance(v, ast.Constant):
                parts.append(str(v.value))
            else:
                x = self.eval(v.value, env)
                if v.conversion == ord("r"):
                    x = repr(x)
                elif v.conversion == ord("s"):
                    x = str(x)
                spec = self.eval(v.format_spec, env) if v.format_spec is not None else ""
                fm = getattr(self.reg, "format_model", None)
                if fm is not None and contains_sym(x):
                    r = fm(self, x, spec)
                    if r is not NotImplemented:
                        parts.append(r)
                        continue
                if isinstance(x, Sym) and z3.is_string(x.t):
                    from .strings import sconcat

                    parts.append(x)
                    continue
                parts.append(format(x, spec))
        if any(isinstance(p, Sym) for p in parts):
            from .strings import sconcat

            return sconcat(parts)
        return "".join(parts)

    def e_FormattedValue(self, node, env):
        return format(self.eval(node.value, env))

    def e_UnaryOp(self, node, env):
        v = self.eval(node.operand, env)
        if isinstance(node.op, ast.Not):
            if isinstance(v, Sym):
                t = v.t if v.is_bool else (V._num(v.t) != 0)
                return Sym(z3.Not(t))
            return not self.truth(v)
        if isinstance(node.op, ast.USub):
            return -v
        if isinstance(node.op, ast.UAdd):
            return +v
        if isinstance(node.op, ast.Invert):
            return ~v
        raise OutOfSubset("unary op")

    def e_BinOp(self, node, env):
        a = self.eval(node.left, env)
        b = self.eval(node.right, env)
        return self.binop(_BINOPS[type(node.op)], a, b)

    def binop(self, op, a, b):
        for x in (a, b):
            if isinstance(x, V.TorchElem) and x.arr.writes != x.stamp:
                # torch: the 0-dim view shows the base's CURRENT element; the engine holds the value at the time of the read
                raise OutOfSubset("a 0-dim tensor view is read after its base tensor was written (the view aliases the new value)")
        h = self.reg.binop_models.get((type(a), op)) or self.reg.binop_models.get((type(b), op))
        if h is not None:
            r = h(self, op, a, b)
            if r is not NotImplemented:
                return r
        if op is operator.mul and isinstance(a, list) and isinstance(b, Sym):
            return V.repeat_list(V.from_list(a, kind="int"), b)
        if op is operator.mul and isinstance(b, list) and isinstance(a, Sym):
            return V.repeat_list(V.from_list(b, kind="int"), a)
        if op is operator.mod and isinstance(a, str):
            return "<formatted>"
        try:
            return op(a, b)
        except ZeroDivisionError as e:
            raise RaiseSig(e)
        except (TypeError, ValueError, OverflowError) as e:
            if contains_sym((a, b)):
                raise OutOfSubset(f"binary {op.__name__} on {type(a).__name__}, {type(b).__name__}: {e}")
            raise RaiseSig(e)

    def e_BoolOp(self, node, env):
        is_and = isinstance(node.op, ast.And)
        v = None
        for e in node.values:
            v = self.eval(e, env)
            t = self.truth(v)
            # `x and y` / `x or y` evaluate to the deciding OPERAND, not to its truth value (`a or 5` is `a` when a != 0).
            # A bool-sorted Sym equals its truth value on this path, so the literal is returned for it (keeps terms small);
            # numeric / string Syms are returned themselves (engine self-test: boolop_value).
            if is_and and not t:
                return v if not (isinstance(v, Sym) and v.is_bool) else False
            if not is_and and t:
                return v if not (isinstance(v, Sym) and v.is_bool) else True
        return v if not (isinstance(v, Sym) and v.is_bool) else (True if is_and else False)

    def e_Compare(self, node, env):
        left = self.eval(node.left, env)
        result = True
        for op, rn in zip(node.ops, node.comparators):
            right = self.eval(rn, env)
            r = self.compare(op, left, right)
            if len(node.ops) == 1:
                return r
            if not self.truth(r):
                return False
            left = right
        return result

    def compare(self, op, a, b):
        t = type(op)
        if t in (ast.Is, ast.IsNot):
            r = self.identical(a, b)
            return r if t is ast.Is else not r
        if t in (ast.In, ast.NotIn):
            r = self.contains(b, a)
            if t is ast.In:
                return r
            return Sym(z3.Not(r.t)) if isinstance(r, Sym) else not r
        h = self.reg.cmp_models.get(type(a)) or self.reg.cmp_models.get(type(b))
        if h is not None:
            r = h(self, t, a, b)
            if r is not NotImplemented:
                return r
        if t is ast.Eq and isinstance(a, SymArr) and not a.pylist:
            return a.eq(b)
        if t is ast.Eq and isinstance(b, SymArr) and not b.pylist:
            return b.eq(a)
        if t is ast.NotEq and (isinstance(a, SymArr) and not a.pylist or isinstance(b, SymArr) and not b.pylist):
            return ~(a.eq(b) if isinstance(a, SymArr) else b.eq(a))
        if isinstance(a, (tuple, list)) and isinstance(b, (tuple, list)) and contains_sym((a, b)) and t in (ast.Eq, ast.NotEq):
            if type(a) is not type(b) or len(a) != len(b):
                return t is ast.NotEq
            conj = [lift(self.compare(ast.Eq(), x, y)) for x, y in zip(a, b)]
            r = Sym(z3.And(*conj)) if conj else True
            if t is ast.NotEq:
                return Sym(z3.Not(r.t)) if isinstance(r, Sym) else not r
            return r
        if t in (ast.Eq, ast.NotEq) and (isinstance(a, SymArr) and a.pylist or isinstance(b, SymArr) and b.pylist):
            # `==` of Python lists compares length and elements; SymArr defines no __eq__, so the native operator would
            # compare object identity (engine self-test: symlist_equality)
            r = self._list_eq(a, b)
            if t is ast.NotEq:
                return Sym(z3.Not(r.t)) if isinstance(r, Sym) else not r
            return r
        try:
            return _CMPOPS[t](a, b)
        except TypeError as e:
            raise RaiseSig(e)

    def _list_eq(self, a, b):
        """Equality of two Python lists of which at least one is a SymArr(pylist=True)."""
        if a is b:
            return True
        sides = []
        for x in (a, b):
            if isinstance(x, SymArr) and x.pylist and x.ndim == 1:
                ln = V._dim_lit(x.sym_len())
                if ln is None:
                    raise OutOfSubset("== of a symbolic-length list")
                sides.append([x.fn(z3.IntVal(i)) for i in range(ln)])
            elif isinstance(x, list):
                sides.append(x)
            elif isinstance(x, (SymArr, Obj, Kind)):
                raise OutOfSubset(f"== of a symbolic list and {type(x).__name__}")
            else:
                return False  # a list never equals a tuple / number / None / str
        if len(sides[0]) != len(sides[1]):
            return False
        conj = []
        for x, y in zip(*sides):
            r = self.compare(ast.Eq(), x, y)
            if isinstance(r, Sym):
                conj.append(r.t)
            elif isinstance(r, SymArr):
                raise OutOfSubset("== of lists with array elements")
            elif not r:
                return False
        return Sym(z3.And(*conj)) if conj else True

    def identical(self, a, b):
        if isinstance(a, Kind) or isinstance(b, Kind):
            h = self.reg.kind_is
            if h:
                return h(self, a, b)
        if a is None or b is None:
            return a is b
        return a is b

    def contains(self, container, item):
        h = self.reg.contains_models.get(type(container))
        if h is not None:
            return h(self, container, item)
        if isinstance(container, (list, tuple, set, frozenset)) and contains_sym((container, item)):
            if isinstance(item, Kind) or any(isinstance(c, Kind) for c in container):
                raise OutOfSubset("`in` over kind-abstract values")
            terms = []
            for c in container:
                r = self.compare(ast.Eq(), item, c)
                if r is True:
                    return True
                if r is False:
                    continue
                terms.append(lift(r))
            return Sym(z3.Or(*terms)) if terms else False
        if isinstance(container, dict) and isinstance(item, Sym):
            terms = [lift(self.compare(ast.Eq(), item, c)) for c in container]
            return Sym(z3.Or(*terms)) if terms else False
        if isinstance(container, Obj):
            m = self.getattr(container, "__contains__")
            return self.call(m, [item], {})
        try:
            return item in container
        except TypeError as e:
            raise RaiseSig(e)

    def e_IfExp(self, node, env):
        h = getattr(self.reg, "ifexp_model", None)  # optional (per-property): value-level merge of pure conditional expressions
        if h is not None:
            r = h(self, node, env)
            if r is not NotImplemented:
                return r
        if self.truth(self.eval(node.test, env)):
            return self.eval(node.body, env)
        return self.eval(node.orelse, env)

    def e_Lambda(self, node, env):
        defaults = [self.eval(d, env) for d in node.args.defaults]
        c = Closure(node, env, self, env.globs, defaults=defaults)
        c.frame = self.ctx.frames[-1] if self.ctx.frames else None
        return c

    def e_NamedExpr(self, node, env):
        v = self.eval(node.value, env)
        self.assign(node.target, v, env)
        return v

    def e_Starred(self, node, env):
        raise OutOfSubset("starred expression")

    def e_Attribute(self, node, env):
        base = self.eval(node.value, env)
        return self.getattr(base, node.attr)

    def e_Subscript(self, node, env):
        base = self.eval(node.value, env)
        key = self.eval_index(node.slice, env)
        return self.getitem(base, key)

    def eval_index(self, node, env):
        if isinstance(node, ast.Slice):
            return slice(
                self.eval(node.lower, env) if node.lower else None,
                self.eval(node.upper, env) if node.upper else None,
                self.eval(node.step, env) if node.step else None,
            )
        if isinstance(node, ast.Tuple):
            return tuple(self.eval_index(e, env) for e in node.elts)
        return self.eval(node, env)

    def e_Slice(self, node, env):
        return self.eval_index(node, env)

    def e_ListComp(self, node, env):
        return self._comp(node, env, lambda: [], lambda acc, v: acc.append(v), node.elt)

    def e_SetComp(self, node, env):
        return self._comp(node, env, lambda: set(), lambda acc, v: acc.add(v), node.elt)

    def e_GeneratorExp(self, node, env):
        return self._comp(node, env, lambda: [], lambda acc, v: acc.append(v), node.elt)

    def e_DictComp(self, node, env):
        acc = {}
        self._comp_rec(node.generators, 0, Env(env.globs, env), lambda e: acc.__setitem__(self.eval(node.key, e), self.eval(node.value, e)))
        return acc

    def _comp(self, node, env, mk, add, elt):
        cms = getattr(self.reg, "comp_models", None)
        if cms and len(node.generators) == 1:
            # reg.comp_models[type] = handler(interp, comprehension-node, env, iterable) -> value | NotImplemented (C19: key subsets of a dict)
            it0 = self.eval(node.generators[0].iter, env)
            h = cms.get(type(it0))
            if h is not None:
                r = h(self, node, env, it0)
                if r is not NotImplemented:
                    return r
        acc = mk()
        self._comp_rec(node.generators, 0, Env(env.globs, env), lambda e: add(acc, self.eval(elt, e)))
        return acc

    def _comp_rec(self, gens, i, env, emit):
        if i == len(gens):
            emit(env)
            return
        g = gens[i]
        it = self.eval(g.iter, env)
        vals = self.iter_values(it)
        if vals is None:
            raise OutOfSubset("comprehension over a symbolic-length iterable")
        for v in vals:
            self.assign(g.target, v, env)
            if all(self.truth(self.eval(c, env)) for c in g.ifs):
                self._comp_rec(gens, i + 1, env, emit)

    def e_Yield(self, node, env):
        v = self.eval(node.value, env) if node.value is not None else None
        if self.loop_k:
            lid, k, N, spec, nsf = self.loop_k[-1]
            if spec.yields is None:
                raise OutOfSubset(f"{lid}: yield inside a symbolic loop needs LoopSpec.yields")
            expected = spec.yields(nsf(k))
            self.ctx.prove(f"{lid}:yield-matches-spec", veq(v, expected), kind="loop-yield")
        else:
            self.yields.append(("one", v))
        return None

    def e_YieldFrom(self, node, env):
        """`yield from it` outside a symbolic loop: every value of `it` is yielded in order (the sent-value / return-value
        protocol of sub-generators is not modelled: the expression evaluates to None, which is what a plain iterable gives)."""
        it = self.eval(node.value, env)
        if self.loop_k:
            raise OutOfSubset("yield from inside a loop verified by invariant")
        if isinstance(it, GhostGen):
            self.yields.extend(it.items)
            return None
        vals = self.iter_values(it)
        if vals is None:
            raise OutOfSubset("yield from a symbolic-length iterable")
        for v in vals:
            self.yields.append(("one", v))
        return None

    def e_Await(self, node, env):
        raise OutOfSubset("await")

    # ------------------------------------------------------------------ attribute / item protocol
    def getattr(self, base, name):
        h = self.reg.attr_models.get(type(base))
        if h is not None:
            r = h(self, base, name)
            if r is not NotImplemented:
                return r
        if isinstance(base, Obj):
            return self.obj_getattr(base, name)
        if isinstance(base, types.ModuleType) and name == "pi" and base.__name__ in ("math", "numpy", "torch"):
            return Sym(V.PI)
        if isinstance(base, Sym):
            if name in ("real",):
                return base
            if name == "imag":
                return 0
            if name in ("item", "__class__"):
                return getattr(base, name)
            raise OutOfSubset(f"attribute {name} of symbolic scalar")
        try:
            r = getattr(base, name)
        except AttributeError as e:
            if isinstance(base, SymArr):
                # the real list / ndarray / Tensor HAS this attribute: not modelled, not an AttributeError
                # (engine self-test: symlist_count_method)
                real_t = list if base.pylist else getattr(base, "as_type", None)
                if real_t is None:
                    import numpy as _np

                    real_t = _np.ndarray
                if hasattr(real_t, name):
                    raise OutOfSubset(f"attribute {name} of a symbolic {real_t.__name__} is not modelled")
            elif getattr(base, "_pyvc_value", False) and not name.startswith("__"):
                # an engine stand-in (a property module's array / tensor / generator class): when the REAL type it stands for has
                # the attribute, the lookup failure is a modelling gap (undecided), not an AttributeError of the program
                real_t = getattr(base, "as_type", None)
                if real_t is not None and hasattr(real_t, name):
                    raise OutOfSubset(f"attribute {name} of {type(base).__name__} (stand-in for {getattr(real_t, '__name__', real_t)}) is not modelled")
            raise RaiseSig(e)
        return r

    def obj_getattr(self, obj, name):
        cls = obj.cls
        cattr = None
        for k in cls.__mro__:
            if name in k.__dict__:
                cattr = k.__dict__[name]
                break
        if isinstance(cattr, property):
            return self.call(cattr.fget, [obj], {})
        if name in obj.fields:
            return obj.fields[name]
        if cattr is not None:
            if isinstance(cattr, types.FunctionType):
                return BoundMethod(obj, cattr)
            if isinstance(cattr, staticmethod):
                return cattr.__func__
            if isinstance(cattr, classmethod):
                return BoundMethod(cls, cattr.__func__)
            return cattr
        if name == "__class__":
            return cls
        if name == "__dict__":
            return obj.fields
        ga = getattr(cls, "__getattr__", None)
        if ga is not None:
            return self.call(ga, [obj, name], {})
        raise RaiseSig(AttributeError(f"{cls.__name__!r} object has no attribute {name!r}"))

    def setattr(self, base, name, v):
        if isinstance(base, Obj):
            cls = base.cls
            for k in cls.__mro__:
                if name in k.__dict__:
                    cattr = k.__dict__[name]
                    if isinstance(cattr, property):
                        if cattr.fset is None:
                            raise RaiseSig(AttributeError(f"can't set attribute {name}"))
                        self.call(cattr.fset, [base, v], {})
                        return
                    break
            base.fields[name] = v
            return
        h = self.reg.setattr_models.get(type(base))
        if h is not None:
            return h(self, base, name, v)
        if contains_sym(v):
            raise OutOfSubset(f"storing symbolic value into attribute {name} of native {type(base).__name__}")
        self.native(setattr, base, name, v)

    def getitem(self, base, key):
        h = self.reg.getitem_models.get(type(base))
        if h is not None:
            r = h(self, base, key)
            if r is not NotImplemented:
                return r
        if isinstance(base, Obj):
            return self.call(self.getattr(base, "__getitem__"), [key], {})
        if isinstance(base, (list, tuple, str)) and contains_sym(key):
            if isinstance(key, slice):
                if isinstance(base, str):
                    raise OutOfSubset("symbolic slice of concrete str")
                arr = V.from_list(base, kind="int")
                r = arr[key]
                return r
            n = len(base)
            i = SymArr._norm_index(None, key, n)
            if isinstance(base, str):
                raise OutOfSubset("symbolic index into concrete str")
            # select by ite chain
            if n == 0:
                raise RaiseSig(IndexError("index out of range"))
            if all(not isinstance(x, (SymArr, Obj, Kind, list, tuple, dict, str)) and x is not None for x in base):
                r = base[-1]
                for j in range(n - 2, -1, -1):
                    r = ite(lift(i) == j, base[j], r)
                return r
            # structured elements: fork on the index value
            for j in range(n):
                if self.ctx.branch(lift(i) == j):
                    return base[j]
            raise PathEnd("index out of enumerated range")
        if isinstance(base, dict) and isinstance(key, Sym):
            for kk in base:
                r = self.compare(ast.Eq(), key, kk)
                if self.truth(r):
                    return base[kk]
            raise RaiseSig(KeyError("<symbolic key>"))
        try:
            return base[key]
        except (IndexError, KeyError, TypeError) as e:
            raise RaiseSig(e)

    def setitem(self, base, key, v):
        h = self.reg.setitem_models.get(type(base))
        if h is not None:
            r = h(self, base, key, v)
            if r is not NotImplemented:
                return
        if isinstance(base, Obj):
            self.call(self.getattr(base, "__setitem__"), [key, v], {})
            return
        if isinstance(base, list) and isinstance(key, Sym):
            n = len(base)
            i = SymArr._norm_index(None, key, n)
            for j in range(n):
                base[j] = ite(lift(i) == j, v, base[j])
            return
        if isinstance(base, dict) and isinstance(key, Sym):
            raise OutOfSubset("symbolic key stored into concrete dict")
        try:
            base[key] = v
        except (IndexError, KeyError, TypeError, ValueError) as e:
            if contains_sym((key, v)) and not isinstance(base, (list, dict)):
                raise OutOfSubset(f"setitem on native {type(base).__name__} with symbolic operand")
            raise RaiseSig(e)

    # ------------------------------------------------------------------ calls
    def e_Call(self, node, env):
        # calls whose only effect is output are dropped (documented in evidence.dropped_by_extraction)
        fnode = node.func
        fname = fnode.id if isinstance(fnode, ast.Name) else fnode.attr if isinstance(fnode, ast.Attribute) else None
        if fname == "cast" and len(node.args) == 2:
            return self.eval(node.args[1], env)
        self.cur_env = env  # lets a model of zero-argument `super()` find the enclosing function's first argument
        f = self.eval(fnode, env)
        if fname in self.reg.noop_calls:
            # output-only LIBRARY calls (print, warnings.warn, gc.collect, torch.cuda.empty_cache, tqdm); a repository
            # function or a nested helper that merely has such a name is executed normally
            target = getattr(f, "__func__", f)
            if not isinstance(f, (Closure, BoundMethod)) and not (isinstance(target, types.FunctionType) and self.is_repo_function(target)):
                return None
        args = self._elts(node.args, env)
        kwargs = {}
        for kw in node.keywords:
            if kw.arg is None:
                kwargs.update(self.eval(kw.value, env))
            else:
                kwargs[kw.arg] = self.eval(kw.value, env)
        return self.call(f, args, kwargs, node=node)

    def call(self, f, args, kwargs, node=None):
        reg = self.reg
        if isinstance(f, Closure):
            # opt-in: a NESTED helper (def inside the function under verification) used through a stated contract,
            # keyed by its name: reg.closure_models[name] = handler(interp, closure, args, kwargs) -> value | NotImplemented
            cm = getattr(reg, "closure_models", None)
            h = (cm.get(f.name) or cm.get("*")) if cm and f.real is None else None  # "*": handler decides by WHAT the helper does
            if h is not None:
                r = h(self, f, args, kwargs)
                if r is not NotImplemented:
                    return r
            return self.call_closure(f, args, kwargs)
        if isinstance(f, BoundMethod):
            return self.call(f.func, [f.obj] + list(args), kwargs, node)
        if isinstance(f, Obj) and hasattr(f.cls, "__call__"):
            return self.call(self.getattr(f, "__call__"), args, kwargs, node)  # calling an abstract instance: cls.__call__
        if self.ctx.ghost.get("memo_stack"):
            try:
                if f in reg.stateful or getattr(f, "__func__", None) in reg.stateful:
                    nm = getattr(f, "__qualname__", None) or getattr(f, "__name__", repr(f))
                    self.ctx.ghost.setdefault("memo_bad", []).append(
                        f"memoised {self.ctx.ghost['memo_stack'][-1]} reads mutable external state through {getattr(f, '__module__', '')}.{nm}")
            except TypeError:
                pass
        # models keyed by the real callable
        try:
            m = reg.models.get(f)
        except TypeError:
            m = None
        if m is not None:
            r = m(self, *args, **kwargs)
            if r is not NotImplemented:
                return r
        if isinstance(f, functools._lru_cache_wrapper) and self.is_repo_function(f):
            return self.call_memoised(f, args, kwargs)
        # bound methods of real objects whose underlying function is modelled / contracted
        if isinstance(f, types.MethodType):
            m = reg.models.get(f.__func__)
            if m is not None:
                r = m(self, f.__self__, *args, **kwargs)
                if r is not NotImplemented:
                    return r
            if self.is_repo_function(f.__func__):
                return self.call(f.__func__, [f.__self__] + list(args), kwargs, node)
        # methods of native builtin types called with symbolic receivers / args
        if isinstance(f, (types.BuiltinMethodType, types.MethodWrapperType)) and hasattr(f, "__self__"):
            key = (type(f.__self__), f.__name__)
            m = reg.method_models.get(key)
            if m is not None:
                r = m(self, f.__self__, *args, **kwargs)
                if r is not NotImplemented:
                    return r
        if isinstance(f, type):
            return self.construct(f, args, kwargs)
        if isinstance(f, types.FunctionType) and self.is_repo_function(f):
            return self.call_repo(f, args, kwargs)
        # native
        if contains_sym((args, kwargs)) and not getattr(f, "_sym_ok", False):
            owner = getattr(f, "__self__", None)
            container_method = isinstance(owner, (list, dict, set)) and getattr(f, "__name__", "") in (
                "append", "extend", "insert", "pop", "clear", "update", "add", "setdefault", "get", "copy", "items", "keys", "values", "discard")
            if not (isinstance(owner, (Sym, SymArr, GhostGen, SymRange)) or getattr(owner, "_pyvc_value", False) or container_method):
                name = getattr(f, "__qualname__", None) or getattr(f, "__name__", repr(f))
                mod = getattr(f, "__module__", "")
                if not (mod or "").startswith("pyvc"):
                    raise OutOfSubset(f"no model for {mod}.{name} with symbolic arguments")
        return self.native(f, *args, **kwargs)

    def native(self, f, *args, **kwargs):
        try:
            return f(*args, **kwargs)
        except (RaiseSig, ReturnSig, PathEnd, OutOfSubset, BreakSig, ContinueSig):
            raise
        except V.RaiseSigLazy as e:
            raise RaiseSig(e.exc)
        except RecursionError:
            raise
        except Exception as e:
            raise RaiseSig(e)

    # ---- functools.lru_cache / functools.cache on repository functions
    def call_memoised(self, f, args, kwargs):
        """A memoising wrapper is transparent for ONE call (the wrapped body is interpreted) but not over a call history:
        the events that make it observable - the body reads mutable external state, or a cached result is written in place
        later - are collected and reported by the contract's summary frame obligation (registry.Contract.verify)."""
        g = self.ctx.ghost
        qn = f"{f.__module__}:{f.__qualname__}"
        g.setdefault("memo_stack", []).append(qn)
        try:
            r = self.call(f.__wrapped__, args, kwargs)
        finally:
            g["memo_stack"].pop()
        g.setdefault("memo_results", []).append((qn, r, _value_signature(r)))
        return r

    def check_memoised_results(self):
        g = self.ctx.ghost
        for qn, r, sig in g.get("memo_results", ()):
            if _value_signature(r) != sig:
                g.setdefault("memo_bad", []).append(f"the cached result of memoised {qn} is written in place after the call")

    def is_repo_function(self, f):
        return (getattr(f, "__module__", "") or "").startswith(self.reg.repo_prefix)

    def call_repo(self, f, args, kwargs):
        reg = self.reg
        qn = f"{f.__module__}:{f.__qualname__}"
        con = reg.contracts.get(qn)
        if con is not None and qn != self.under_verification_top():
            return con.apply(self, args, kwargs)
        if con is not None and qn == self.under_verification_top() and self.depth > 0 and con.recursive_by_contract:
            return con.apply(self, args, kwargs)
        if qn in getattr(reg, "opaque_calls", ()):
            # collaborator outside this contract: treated as a no-op with an ASSUMED frame (the property module lists it in TRUSTED)
            self.ctx.ghost.setdefault("opaque_calls", set()).add(qn)
            return None
        if qn in reg.inline or reg.inline_all or not contains_sym((args, kwargs)) and not reg.strict_calls:
            if qn in reg.inline or reg.inline_all:
                self.ctx.ghost.setdefault("inlined", set()).add(qn)
                return self.call_closure(self.closure_of(f), args, kwargs)
            return self.native(f, *args, **kwargs)
        if _is_simple_accessor(f):
            # a body that is just `return <expr>` (typically a property getter) is interpreted in place: inlining is always sound
            # (it is the real code); the permission list is proof engineering, and a harmless edit that starts using such an
            # accessor must not make the contract undecidable
            self.ctx.ghost.setdefault("inlined", set()).add(qn)
            return self.call_closure(self.closure_of(f), args, kwargs)
        if self.ctx.ghost.get("auto_inline_depth", 0) < 6:
            # no contract and no permission: interpret the callee's real body in place (always sound; depth-limited so that an
            # unexpected recursion ends as `undecided`).  Keeps "extract a helper function" refactorings decidable.
            g = self.ctx.ghost
            g["auto_inline_depth"] = g.get("auto_inline_depth", 0) + 1
            g.setdefault("inlined", set()).add(qn + " (auto)")
            try:
                return self.call_closure(self.closure_of(f), args, kwargs)
            finally:
                g["auto_inline_depth"] -= 1
        raise OutOfSubset(f"call to {qn} has neither contract nor inline permission")

    def under_verification_top(self):
        return self.under_verification

    def construct(self, cls, args, kwargs):
        reg = self.reg
        m = reg.ctor_models.get(cls)
        if m is not None:
            r = m(self, *args, **kwargs)
            if r is not NotImplemented:
                return r
        if (getattr(cls, "__module__", "") or "").startswith(reg.repo_prefix) and not issubclass(cls, BaseException):
            qn = f"{cls.__module__}:{cls.__qualname__}"
            if qn in reg.abstract_classes or contains_sym((args, kwargs)):
                obj = Obj(cls)
                init = cls.__init__
                if init is not object.__init__:
                    self.call(init, [obj] + list(args), kwargs)
                return obj
        if cls is slice and not kwargs and 1 <= len(args) <= 3:
            return slice(*args)  # a plain container (eval_index builds the same object for a[lo:hi:step])
        if cls is dict and len(args) <= 1 and all(type(a) is dict for a in args):
            return dict(*args, **kwargs)  # shallow copy of a plain Python dict (values may be symbolic): a container operation
        if contains_sym((args, kwargs)):
            m = reg.models.get(cls)
            raise OutOfSubset(f"constructing native {cls.__name__} from symbolic arguments")
        return self.native(cls, *args, **kwargs)


# ------------------------------------------------------------------------------------------------
# symbolic iterables
# ------------------------------------------------------------------------------------------------


class SymRange:
    def __init__(self, start, stop, step):
        self.start, self.stop, self.step = start, stop, step

    def is_concrete(self):
        return not contains_sym((self.start, self.stop, self.step))

    def concrete(self):
        if self.is_concrete():
            return list(range(self.start, self.stop, self.step))
        return None

    def count(self):
        st = self.step
        if isinstance(st, Sym):
            lv = st.literal()
            if lv is None:
                # symbolic positive step (must be provably > 0)
                if not V.cur().entails(st.t > 0):
                    raise OutOfSubset("range() with symbolic step not provably positive")
                d = S(self.stop) - S(self.start)
                return ite(d.t <= 0, 0, (d + (st - 1)) // st)
            st = lv
        if st == 0:
            raise RaiseSig(ValueError("range() arg 3 must not be zero"))
        d = S(self.stop) - S(self.start)
        if st > 0:
            return ite(d.t <= 0, 0, (d + (st - 1)) // st if st != 1 else d)
        return ite(d.t >= 0, 0, ((-d) + (-st - 1)) // (-st))

    def __len__(self):
        c = self.count()
        return c.__index__() if isinstance(c, Sym) else c

    def sym_len(self):
        return self.count()

    def __iter__(self):
        c = self.concrete()
        if c is None:
            raise OutOfSubset("native iteration over symbolic range")
        return iter(c)


class SymEnumerate:
    def __init__(self, inner, start=0):
        self.inner, self.start = inner, start


class SymZip:
    def __init__(self, inners):
        self.inners = inners


class GhostGen:
    """Result of running a generator function symbolically: the ghost sequence of yielded values."""

    def __init__(self, items):
        self.items = items

    def concrete_list_or_none(self):
        if all(i[0] == "one" for i in self.items):
            return [i[1] for i in self.items]
        return None

    def concrete_list(self):
        r = self.concrete_list_or_none()
        if r is None:
            raise OutOfSubset("generator with symbolic number of yields used as a concrete sequence")
        return r

    def family(self):
        fam = [i for i in self.items if i[0] == "family"]
        if len(self.items) == 1 and fam:
            _, N, k, v, lid = fam[0]
            return N, lambda kk: substitute_value(v, k, kk)
        raise OutOfSubset("mixed generator family")

    def __iter__(self):
        return iter(self.concrete_list())


def substitute_value(v, k, kk):
    """Replace symbolic iteration counter k by kk inside value v."""
    if isinstance(v, Sym):
        return Sym(z3.substitute(v.t, (k.t, lift(kk))))
    if isinstance(v, tuple):
        return tuple(substitute_value(x, k, kk) for x in v)
    if isinstance(v, list):
        return [substitute_value(x, k, kk) for x in v]
    if isinstance(v, SymArr):
        shape = tuple(substitute_value(d, k, kk) if isinstance(d, Sym) else d for d in v.shape)
        old = v.fn

        def fn(*idx):
            return substitute_value(old(*idx), k, kk)

        return SymArr(shape, fn, v.kind, v.pylist, base=v.base)
    return v


def veq(a, b):
    """Structural equality of two values as a z3 Bool."""
    if isinstance(a, (tuple, list)) and isinstance(b, (tuple, list)):
        if len(a) != len(b):
            return z3.BoolVal(False)
        return z3.And(*[veq(x, y) for x, y in zip(a, b)]) if a else z3.BoolVal(True)
    if isinstance(a, SymArr) and isinstance(b, SymArr):
        if a.ndim != b.ndim:
            return z3.BoolVal(False)
        idx = [z3.Int(f"i!eq{d}") for d in range(a.ndim)]
        rng = [z3.And(i >= 0, i < lift(d)) for i, d in zip(idx, a.shape)]
        shp = [lift(x) == lift(y) for x, y in zip(a.shape, b.shape)]
        body = veq(a.fn(*idx), b.fn(*idx))
        return z3.And(*shp, z3.ForAll(idx, z3.Implies(z3.And(*rng), body)))
    if a is None or b is None:
        return z3.BoolVal(a is b)
    ta, tb = lift(a), lift(b)
    if z3.is_bool(ta) and z3.is_bool(tb):
        return ta == tb
    ta, tb = V.coerce2(ta, tb)
    return ta == tb
