"""Symbolic value domain.

Sym      : a z3 Int / Real / Bool term with Python operator semantics (floor //, %, int/int -> real)
SymArr   : an index-function array / sequence: shape (ints or Sym ints) + fn(index terms) -> value
Obj      : abstract instance of a real class with (possibly symbolic) fields
Kind     : kind-abstract value for polymorphic dispatch

Implicit `bool(Sym)` forks the current path (re-execution based exploration), so native helper code and
the interpreter's `if` / `while` / `and` / `or` all branch the same way.
"""
from __future__ import annotations

import math
from fractions import Fraction

import z3

_CUR = []  # stack of active PathCtx


def cur():
    if not _CUR:
        raise RuntimeError("no active path context")
    return _CUR[-1]


class OutOfSubset(Exception):
    """The code left the Python subset / library models the engine understands (=> undecided)."""


PI = z3.Real("pi")
PI_FACTS = [PI > z3.RealVal("3.14159"), PI < z3.RealVal("3.1416")]


def is_z3(x):
    return isinstance(x, z3.ExprRef)


def lift(x):
    """Python value / Sym -> z3 term."""
    if isinstance(x, Sym):
        return x.t
    if isinstance(x, bool):
        return z3.BoolVal(x)
    if isinstance(x, int):
        return z3.IntVal(x)
    if isinstance(x, float):
        if x == math.pi:
            return PI
        if x == 2 * math.pi:
            return 2 * PI
        if x != x or x in (float("inf"), float("-inf")):
            raise OutOfSubset(f"non-finite float constant {x!r} in symbolic arithmetic")
        return z3.RealVal(str(Fraction(repr(x))))
    if isinstance(x, Fraction):
        return z3.RealVal(str(x))
    if is_z3(x):
        return x
    try:
        import numpy as np

        if isinstance(x, np.bool_):
            return z3.BoolVal(bool(x))
        if isinstance(x, np.integer):
            return z3.IntVal(int(x))
        if isinstance(x, np.floating):
            return lift(float(x))
        import torch

        if isinstance(x, torch.Tensor) and x.ndim == 0:
            return lift(x.item())
    except ImportError:
        pass
    raise OutOfSubset(f"cannot lift {type(x).__name__} to a term")


def _num(t):
    """Bool terms used in arithmetic become 0/1 ints."""
    if z3.is_bool(t):
        return z3.If(t, z3.IntVal(1), z3.IntVal(0))
    return t


def coerce2(a, b):
    a, b = _num(lift(a)), _num(lift(b))
    if a.sort() == b.sort():
        return a, b
    if z3.is_int(a) and z3.is_real(b):
        return z3.ToReal(a), b
    if z3.is_real(a) and z3.is_int(b):
        return a, z3.ToReal(b)
    raise OutOfSubset(f"sort mismatch {a.sort()} vs {b.sort()}")


def simp(t):
    return z3.simplify(t)


def py_floordiv(a, b):
    """Python floor division on Int terms (SMT div is Euclidean)."""
    return z3.If(b > 0, a / b, (-a) / (-b))


def py_mod(a, b):
    return a - b * py_floordiv(a, b)


# Python float scalars: `x / 0.0`, `x // 0.0`, `x % 0.0` and `0.0 ** -k` raise ZeroDivisionError exactly like the integer
# forms (engine self-test: real_truediv, real_floordiv, real_mod, neg_pow_zero_base).  A real-sorted Sym ALSO stands for
# numpy / torch scalars (results of `.sum()`, elements), whose division by zero yields inf / nan and does NOT raise, and the
# engine does not track which of the two a value is.  The check is therefore OPT-IN (PYVC_REAL_DIV_ZERO=1 or
# values.REAL_DIV_ZERO_RAISES = True in a property's make_registry): off = numpy reading (no exception, unconstrained
# quotient), on = Python-float reading.  With the default, absence of ZeroDivisionError is NOT established for divisions
# whose operands are Python floats; the self-test lists this as a known deviation.
REAL_DIV_ZERO_RAISES = __import__("os").environ.get("PYVC_REAL_DIV_ZERO", "0") == "1"


def _real_zero_check(b, msg):
    if REAL_DIV_ZERO_RAISES and cur().branch(b == 0):
        from .interp import RaiseSig

        raise RaiseSig(ZeroDivisionError(msg))


class Sym:
    __slots__ = ("t",)

    def __init__(self, t):
        assert is_z3(t), t
        self.t = t

    # -- classification
    @property
    def is_int(self):
        return z3.is_int(self.t)

    @property
    def is_real(self):
        return z3.is_real(self.t)

    @property
    def is_bool(self):
        return z3.is_bool(self.t)

    def __repr__(self):
        return f"Sym({self.t})"

    def __format__(self, spec):
        return f"<{self.t}>"

    def __hash__(self):
        return hash(self.t)

    # -- literals
    def literal(self):
        s = simp(self.t)
        if z3.is_true(s):
            return True
        if z3.is_false(s):
            return False
        if z3.is_int_value(s):
            return s.as_long()
        if z3.is_rational_value(s):
            f = Fraction(s.numerator_as_long(), s.denominator_as_long())
            return f
        return None

    def __bool__(self):
        t = self.t
        if z3.is_string(t):
            t = z3.Length(t) != 0  # truth value of a str: non-empty
        elif not z3.is_bool(t):
            t = _num(t) != 0
        return cur().branch(t)

    def __index__(self):
        v = self.literal()
        if isinstance(v, int) and not isinstance(v, bool):
            return v
        raise OutOfSubset(f"symbolic integer {self.t} used where a concrete index is required")

    def __int__(self):
        v = self.literal()
        if isinstance(v, (int, bool)):
            return int(v)
        raise OutOfSubset(f"int() of symbolic value {self.t} (use the modelled int)")

    def __float__(self):
        v = self.literal()
        if v is not None:
            return float(v)
        raise OutOfSubset(f"float() of symbolic value {self.t}")

    # -- arithmetic
    def _bin(self, other, f, swap=False):
        if isinstance(other, (SymArr,)):
            return NotImplemented
        try:
            a, b = coerce2(other, self) if swap else coerce2(self, other)
        except OutOfSubset:
            return NotImplemented
        return Sym(f(a, b))

    def __add__(self, o):
        return self._bin(o, lambda a, b: a + b)

    def __radd__(self, o):
        return self._bin(o, lambda a, b: a + b, True)

    def __sub__(self, o):
        return self._bin(o, lambda a, b: a - b)

    def __rsub__(self, o):
        return self._bin(o, lambda a, b: a - b, True)

    def __mul__(self, o):
        return self._bin(o, lambda a, b: a * b)

    def __rmul__(self, o):
        return self._bin(o, lambda a, b: a * b, True)

    def __neg__(self):
        return Sym(-_num(self.t))

    def __pos__(self):
        return Sym(_num(self.t))

    def __abs__(self):
        t = _num(self.t)
        return Sym(z3.If(t >= 0, t, -t))

    def _truediv(self, a, b):
        if z3.is_int(a) and z3.is_int(b):
            if cur().branch(b == 0):
                from .interp import RaiseSig

                raise RaiseSig(ZeroDivisionError("division by zero"))
            return z3.ToReal(a) / z3.ToReal(b)
        _real_zero_check(b, "float division by zero")
        return a / b

    def __truediv__(self, o):
        return self._bin(o, self._truediv)

    def __rtruediv__(self, o):
        return self._bin(o, self._truediv, True)

    def _floordiv(self, a, b):
        if z3.is_int(a) and z3.is_int(b):
            if cur().branch(b == 0):
                from .interp import RaiseSig

                raise RaiseSig(ZeroDivisionError("integer division or modulo by zero"))
            return py_floordiv(a, b)
        # real floor division: floor(a/b)
        _real_zero_check(b, "float floor division by zero")
        return z3.ToReal(z3.ToInt(a / b))

    def __floordiv__(self, o):
        return self._bin(o, self._floordiv)

    def __rfloordiv__(self, o):
        return self._bin(o, self._floordiv, True)

    def _mod(self, a, b):
        if z3.is_int(a) and z3.is_int(b):
            if cur().branch(b == 0):
                from .interp import RaiseSig

                raise RaiseSig(ZeroDivisionError("integer division or modulo by zero"))
            return py_mod(a, b)
        # real modulo with positive/negative divisor: a - b*floor(a/b)
        _real_zero_check(b, "float modulo by zero")
        return a - b * z3.ToReal(z3.ToInt(a / b))

    def __mod__(self, o):
        return self._bin(o, self._mod)

    def __rmod__(self, o):
        return self._bin(o, self._mod, True)

    def __pow__(self, o):
        if isinstance(o, Sym):
            o2 = o.literal()
            if o2 is None:
                from .reals import rpow

                return rpow(self, o)
            o = o2
        if isinstance(o, float) and o == int(o):
            o = int(o)
        if isinstance(o, Fraction) and o.denominator == 1:
            o = int(o)
        if isinstance(o, int) and not isinstance(o, bool):
            if o >= 0:
                r = z3.IntVal(1) if self.is_int else z3.RealVal(1)
                for _ in range(o):
                    r = r * _num(self.t)
                return Sym(r)
            base = _num(self.t)
            if z3.is_int(base):
                base = z3.ToReal(base)
            r = z3.RealVal(1)
            for _ in range(-o):
                r = r * base
            _real_zero_check(base, "0.0 cannot be raised to a negative power")
            return Sym(z3.RealVal(1) / r)
        from .reals import rpow

        return rpow(self, o)

    def __rpow__(self, o):
        from .reals import rpow

        return rpow(o, self)

    # -- comparisons
    def __lt__(self, o):
        return self._bin(o, lambda a, b: a < b)

    def __le__(self, o):
        return self._bin(o, lambda a, b: a <= b)

    def __gt__(self, o):
        return self._bin(o, lambda a, b: a > b)

    def __ge__(self, o):
        return self._bin(o, lambda a, b: a >= b)

    def __eq__(self, o):
        if o is None or isinstance(o, (str, tuple, list, dict)):
            return False
        if self.is_bool:
            try:
                ot = lift(o)
            except OutOfSubset:
                return False
            if z3.is_bool(ot):
                return Sym(self.t == ot)
        r = self._bin(o, lambda a, b: a == b)
        return False if r is NotImplemented else r

    def __ne__(self, o):
        r = self.__eq__(o)
        if r is False:
            return True
        if r is True:
            return False
        return Sym(z3.Not(r.t))

    # -- boolean algebra (bitwise operators on bools, as numpy/torch use them)
    def __and__(self, o):
        a, b = lift(self), lift(o)
        if z3.is_bool(a) and z3.is_bool(b):
            return Sym(z3.And(a, b))
        return NotImplemented

    __rand__ = __and__

    def __or__(self, o):
        a, b = lift(self), lift(o)
        if z3.is_bool(a) and z3.is_bool(b):
            return Sym(z3.Or(a, b))
        return NotImplemented

    __ror__ = __or__

    def __invert__(self):
        if self.is_bool:
            return Sym(z3.Not(self.t))
        return NotImplemented

    # numpy / torch scalar-ish API
    def item(self):
        return self

    @property
    def real(self):
        return self


def is_sym(x):
    return isinstance(x, (Sym, SymArr, Obj, Kind))


def contains_sym(x, depth=0):
    if is_sym(x):
        return True
    if depth > 4:
        return False
    if isinstance(x, (list, tuple, set, frozenset)):
        return any(contains_sym(e, depth + 1) for e in x)
    if isinstance(x, dict):
        return any(contains_sym(k, depth + 1) or contains_sym(v, depth + 1) for k, v in x.items())
    if isinstance(x, slice):
        return any(contains_sym(e) for e in (x.start, x.stop, x.step))
    return False


def S(x):
    """Wrap a python number / z3 term as Sym (identity on Sym, and on scalar value classes of library models that carry
    `_pyvc_scalar = True`, e.g. C16's complex pairs, which implement the arithmetic protocol themselves)."""
    return x if isinstance(x, Sym) or getattr(x, "_pyvc_scalar", False) else Sym(lift(x))


def term(x):
    return lift(x)


def ite(c, a, b):
    """Value-level if-then-else on numbers (no path fork)."""
    c = lift(c)
    lc = simp(c)
    if z3.is_true(lc):
        return a
    if z3.is_false(lc):
        return b
    if isinstance(a, SymArr) or isinstance(b, SymArr):
        raise OutOfSubset("ite over arrays: use where()")
    if isinstance(a, tuple) and isinstance(b, tuple) and len(a) == len(b):
        return tuple(ite(c, x, y) for x, y in zip(a, b))
    ta, tb = lift(a), lift(b)
    if z3.is_bool(ta) and z3.is_bool(tb):
        return Sym(z3.If(c, ta, tb))
    ta, tb = coerce2(ta, tb)
    return Sym(z3.If(c, ta, tb))


def smin(a, b):
    if not (contains_sym(a) or contains_sym(b)):
        return min(a, b)
    return ite(S(b) < S(a), b, a)


def smax(a, b):
    if not (contains_sym(a) or contains_sym(b)):
        return max(a, b)
    return ite(S(b) > S(a), b, a)


# --------------------------------------------------------------------------------------------
# Arrays / sequences as index functions
# --------------------------------------------------------------------------------------------


def _dim_lit(d):
    if isinstance(d, Sym):
        v = d.literal()
        return v if isinstance(v, int) else None
    return int(d)


def dims_equal(a, b):
    la, lb = _dim_lit(a), _dim_lit(b)
    if la is not None and lb is not None:
        return la == lb
    return z3.is_true(simp(lift(a) == lift(b))) or cur().entails(lift(a) == lift(b))


class TorchElem(Sym):
    """A 0-dim torch view: the value of `arr[idx]` at the time of the read, plus where it lives.  Behaves as a scalar `Sym`
    everywhere; only in-place operators (Interp.inplace) look at the origin.  `.item()` / arithmetic give plain values."""

    __slots__ = ("arr", "idx", "stamp")

    def __init__(self, t, arr, idx, stamp):
        Sym.__init__(self, t)
        self.arr, self.idx, self.stamp = arr, idx, stamp

    def item(self):
        return Sym(self.t)

    def clone(self):
        return Sym(self.t)


class SymArr:
    """N-d array / sequence: `shape` tuple of int|Sym, `fn(*index_terms) -> value` (Sym or python number).

    kind: 'int' | 'real' | 'bool' | 'complex' | 'obj'  (element kind, informational)
    pylist: True when the value is a Python list/tuple (``+`` concatenates, ``*`` repeats).
    Mutation (``a[i] = v``) replaces `fn` by a functional update, so aliases see it (same object).
    """

    @property
    def _version(self):
        """torch.Tensor._version (in-place modification counter): the write counter stands for it"""
        return self.writes

    def __init__(self, shape, fn, kind="real", pylist=False, name=None, base=None):
        self.shape = tuple(shape)
        self.fn = fn
        self.kind = kind
        self.pylist = pylist
        self.name = name
        self.base = base if base is not None else self  # provenance for frame conditions (views share base)
        self.writes = 0

    # ---- basics
    @property
    def ndim(self):
        return len(self.shape)

    def dim(self):
        return len(self.shape)

    def __repr__(self):
        return f"SymArr({self.name or ''} shape={self.shape} kind={self.kind}{' list' if self.pylist else ''})"

    def sym_len(self):
        if not self.shape:
            raise RaiseSigLazy(TypeError("len() of unsized object"))
        return self.shape[0]

    def __len__(self):
        n = self.sym_len()
        if isinstance(n, Sym):
            return n.__index__()
        return n

    def numel(self):
        r = 1
        for d in self.shape:
            r = r * d
        return r

    @property
    def size(self):
        if getattr(getattr(self, "as_type", None), "__name__", "") == "Tensor":
            # torch: `x.size()` / `x.size(d)` is a METHOD (numpy: `a.size` is the element count)
            shape = self.shape

            def size(dim=None):
                if dim is None:
                    return tuple(shape)
                if not isinstance(dim, int) or not -len(shape) <= dim < len(shape):
                    raise RaiseSigLazy(IndexError("Dimension out of range"))
                return shape[dim]

            size._sym_ok = True
            return size
        return self.numel()

    def at(self, *idx):
        """Element at index terms (no bounds check)."""
        return self.fn(*[lift(i) for i in idx])

    def item(self):
        if self.ndim == 0:
            return self.fn()
        raise OutOfSubset("item() on non-scalar symbolic array")

    def detach_from_base(self):
        """Called before writing through a view: the view becomes its own array; the base (and its other views) are
        poisoned, so any later read of them is rejected instead of silently missing the write."""
        base = self.base
        f = self.fn
        if isinstance(getattr(f, "__closure__", None), tuple):
            pass
        base.writes += 1  # makes every other view of `base` stale (see _snap_fn)

        def poisoned(*idx):
            raise OutOfSubset("read of an array after a write through one of its views (view aliasing is not modelled)")

        # keep this view readable: its own guard (and those of the views it was derived from) are exempted
        for gd in getattr(self, "_guards", ()):
            gd.exempt = True
        base.fn = poisoned
        self.base = self

    def copy(self):
        fn = self.fn
        r = SymArr(self.shape, fn, self.kind, self.pylist, name=self.name)
        for a in ("as_type", "mem", "inv", "func", "psum"):
            if hasattr(self, a):
                setattr(r, a, getattr(self, a))
        return r

    clone = copy

    def detach(self):
        return self

    device = "cpu"

    @property
    def dtype(self):
        return {"int": "int64", "real": "float", "bool": "bool", "complex": "complex"}.get(self.kind, self.kind)

    def long(self):
        f = self.fn

        def fn(*idx):
            e = f(*idx)
            t = lift(e)
            if z3.is_real(t):
                # truncation toward zero (exact identity on integer-valued reals: ToInt(ToReal(i)) = i)
                return Sym(simp(z3.If(t >= 0, z3.ToInt(t), -z3.ToInt(-t))))
            return e

        r = SymArr(self.shape, fn, "int", self.pylist, name=self.name)
        if hasattr(self, "as_type"):
            r.as_type = self.as_type
        return r

    def float(self):
        return self

    def contiguous(self):
        return self

    @property
    def T(self):
        if self.ndim != 2:
            raise OutOfSubset(".T on non-2d symbolic array")
        srcfn = _snap_fn(self, view=True)
        r = SymArr((self.shape[1], self.shape[0]), lambda i, j: srcfn(j, i), self.kind, base=self.base)
        r._guards = tuple(getattr(self, "_guards", ())) + (srcfn,)
        return r

    def cpu(self):
        return self

    def to(self, *a, **k):
        return self

    def numpy(self):
        return self

    def flatten(self):
        return self.reshape(-1)

    ravel = flatten

    def reshape(self, *shape):
        if len(shape) == 1 and isinstance(shape[0], (tuple, list)):
            shape = tuple(shape[0])
        old = self.shape
        total = self.numel()
        shape = list(shape)
        if any((not isinstance(s, Sym)) and s == -1 for s in shape):
            k = [i for i, s in enumerate(shape) if (not isinstance(s, Sym)) and s == -1][0]
            rest = 1
            for i, s in enumerate(shape):
                if i != k:
                    rest = rest * s
            if len(shape) == 1:
                shape[k] = total
            else:
                shape[k] = S(total) // rest if contains_sym((total, rest)) else total // rest
        shape = tuple(shape)
        # element counts must agree: numpy raises ValueError, torch RuntimeError (decided here for concrete extents only;
        # engine self-test: np_reshape_bad, t_reshape_bad)
        if all(_dim_lit(d) is not None for d in tuple(old) + shape):
            n_old = n_new = 1
            for d in old:
                n_old *= _dim_lit(d)
            for d in shape:
                n_new *= _dim_lit(d)
            if n_old != n_new or any(_dim_lit(d) < 0 for d in shape):
                from .interp import RaiseSig

                is_t = getattr(getattr(self, "as_type", None), "__name__", "") == "Tensor"
                raise RaiseSig((RuntimeError if is_t else ValueError)(f"cannot reshape array of size {n_old} into shape {shape}"))
        srcfn = _snap_fn(self, view=True)

        sym_old = len(old) > 1 and any(_dim_lit(d) is None for d in old)
        sym_new = len(shape) > 1 and any(_dim_lit(d) is None for d in shape)
        rm_new = rowmajor(shape) if sym_new else None
        rm_old = rowmajor(old) if sym_old else None

        def fn(*idx):
            # row-major linear index in the new shape, then unravel in the old shape
            if rm_new is not None:
                lin = rm_new.lin(*idx)
            else:
                lin = z3.IntVal(0)
                for i, d in zip(idx, shape):
                    lin = lin * lift(d) + i
            if rm_old is not None:
                return srcfn(*[rm_old.unr[a](lin) for a in range(len(old))])
            if len(old) == 1:
                return srcfn(lin)
            oidx = []
            for d in reversed(old):
                d = lift(d)
                oidx.append(lin % d)
                lin = lin / d
            return srcfn(*reversed(oidx))

        if len(old) == 1 and len(shape) == 1:
            r = SymArr(shape, srcfn, self.kind, False, base=self.base)
        else:
            r = SymArr(shape, fn, self.kind, False, base=self.base)
        r._guards = tuple(getattr(self, "_guards", ())) + (srcfn,)
        return r

    view = reshape

    # ---- indexing
    def _norm_index(self, i, n, check=True):
        """Python index normalisation with IndexError path."""
        from .interp import RaiseSig

        if isinstance(i, SymArr) and i.ndim == 0:
            i = i.fn()
        if not isinstance(i, Sym):
            try:
                i = int(i)
            except Exception:
                raise OutOfSubset(f"index of type {type(i).__name__}")
        if not contains_sym((i, n)):
            if i < -n or i >= n:
                raise RaiseSig(IndexError("index out of range"))
            return i + n if i < 0 else i
        i, n = S(i), S(n)
        if check:
            bad = z3.Or(i.t < -n.t, i.t >= n.t)
            if cur().branch(bad):
                raise RaiseSig(IndexError("index out of range"))
        lit = simp(i.t >= 0)
        if z3.is_true(lit) or cur().entails(i.t >= 0):
            return i
        return ite(i.t < 0, i + n, i)

    @staticmethod
    def _slice_bounds(sl, n):
        """(start, stop, step, length) of a slice on an axis of length n; Python clipping semantics.
        Only positive concrete steps are supported."""
        step = sl.step
        if isinstance(step, Sym):
            lv = step.literal()
            if lv is None:
                if not cur().entails(step.t > 0):
                    raise OutOfSubset("symbolic slice step not provably positive")
                lo0 = 0 if sl.start is None else None
                if lo0 is None or sl.stop is not None:
                    raise OutOfSubset("symbolic slice step with explicit bounds")
                nn = S(n)
                ln = ite(nn.t <= 0, 0, (nn + (step - 1)) // step)
                return 0, n, step.t, ln
            step = lv
        if step is None:
            step = 1
        if step <= 0:
            raise OutOfSubset("non-positive slice step")

        def clip(v, default):
            if v is None:
                return default
            if not contains_sym((v, n)):
                v = int(v)
                if v < 0:
                    v = max(0, v + n)
                return min(v, n)
            v, nn = S(v), S(n)
            v = ite(v.t < 0, smax(0, v + nn), v)
            return smin(v, nn)

        lo = clip(sl.start, 0)
        hi = clip(sl.stop, n)
        if not contains_sym((lo, hi)):
            ln = max(0, -(-(hi - lo) // step))
        else:
            d = S(hi) - S(lo)
            ln = ite(d.t <= 0, 0, (d + (step - 1)) // step if step != 1 else d)
        return lo, hi, step, ln

    def __getitem__(self, key):
        if not isinstance(key, tuple):
            key = (key,)
        # expand Ellipsis
        n_real = sum(1 for k in key if k is not None and k is not Ellipsis)
        if any(k is Ellipsis for k in key):
            e = [i for i, k in enumerate(key) if k is Ellipsis][0]
            key = key[:e] + (slice(None),) * (self.ndim - n_real) + key[e + 1 :]
        else:
            key = key + (slice(None),) * (self.ndim - n_real)
        if n_real > self.ndim:
            from .interp import RaiseSig

            raise RaiseSig(IndexError("too many indices for array"))
        # advanced (array) indices: only a single 1-d integer array index, or boolean mask unsupported
        new_shape = []
        plan = []  # per source axis: ('int', idx) | ('slice', lo, step) | ('arr', arr)
        out_axes = []  # for each output axis: ('new',) | ('slice', src_axis_plan_idx) | ('arr', plan idx)
        ax = 0
        for k in key:
            if k is None:
                new_shape.append(1)
                out_axes.append(("new",))
                continue
            n = self.shape[ax]
            if isinstance(k, slice):
                lo, hi, step, ln = self._slice_bounds(k, n)
                plan.append(("slice", lo, step))
                out_axes.append(("src", len(plan) - 1))
                new_shape.append(ln)
            elif isinstance(k, SymArr) and k.ndim >= 1:
                if k.kind == "bool":
                    raise OutOfSubset("boolean mask indexing of a symbolic array is not modelled")
                plan.append(("arr", k))
                for d in k.shape:
                    new_shape.append(d)
                out_axes.append(("arr", len(plan) - 1, k.ndim))
            elif isinstance(k, (list,)):
                karr = from_list(k, kind="int")
                plan.append(("arr", karr))
                new_shape.append(karr.shape[0])
                out_axes.append(("arr", len(plan) - 1, 1))
            else:
                i = self._norm_index(k, n)
                plan.append(("int", i))
            ax += 1
        srcfn = _snap_fn(self, view=not any(p[0] == "arr" for p in plan))
        self_shape = self.shape

        def fn(*idx):
            idx = list(idx)
            pos = 0
            srcidx = [None] * len(plan)
            for oa in out_axes:
                if oa[0] == "new":
                    pos += 1
                elif oa[0] == "src":
                    _, lo, step = plan[oa[1]]
                    srcidx[oa[1]] = lift(lo) + idx[pos] * step if (is_z3(step) or step != 1) else lift(lo) + idx[pos]
                    pos += 1
                else:
                    arr = plan[oa[1]][1]
                    v = arr.fn(*idx[pos : pos + oa[2]])
                    vt = lift(v)
                    if z3.is_bool(vt):  # a mask computed by a comparison (its `kind` is informational only)
                        raise OutOfSubset("boolean mask indexing of a symbolic array is not modelled")
                    # negative entries of an index array count from the end (numpy / torch); arrays that are
                    # non-negative by construction (arange, argsort / permutation bijections) or provably on this path
                    # are left as they are
                    # (engine self-test: np_fancy_index_negative)
                    if z3.is_int(vt) and not (hasattr(arr, "sigma") or arr.name == "arange") and not _provably_nonneg(vt):
                        vt = simp(z3.If(vt < 0, vt + lift(self_shape[oa[1]]), vt))
                    srcidx[oa[1]] = vt
                    pos += oa[2]
            for j, p in enumerate(plan):
                if p[0] == "int":
                    srcidx[j] = lift(p[1])
            return srcfn(*srcidx)

        if not new_shape and not any(p[0] != "int" for p in plan):
            if self.pylist or True:
                # scalar element access returns the element itself
                v = self.fn(*[lift(p[1]) for p in plan])
                if (not self.pylist and type(v) is Sym and not v.is_bool
                        and getattr(getattr(self, "as_type", None), "__name__", "") == "Tensor"):
                    # torch: x[i] with integer indices is a 0-dim VIEW of x - `t = x[i]; t += v` writes x[i] (numpy returns a
                    # scalar copy).  The value carries its origin so that an in-place operator on it can write through.
                    return TorchElem(v.t, self, tuple(lift(p[1]) for p in plan), self.writes)
                return v
        has_arr = any(p[0] == "arr" for p in plan)
        r = SymArr(tuple(new_shape), fn, self.kind, self.pylist and self.ndim == 1 and not has_arr and len(new_shape) == 1,
                   base=None if has_arr else self.base)
        if not has_arr:
            r._guards = tuple(getattr(self, "_guards", ())) + (srcfn,)
        return r

    # torch's naming convention: a method whose name ends in "_" works IN PLACE.  One the engine does not model is still a write
    # into the buffer: the write counter moves (frame clauses see it) and the content is unknown afterwards.
    _INPLACE_NO_WRITE = ("requires_grad_", "share_memory_", "detach_", "retain_grad_", "pin_memory_")

    def __getattr__(self, name):
        if name.endswith("_") and not name.startswith("_") and not self.__dict__.get("pylist", True):
            if name in SymArr._INPLACE_NO_WRITE:
                return lambda *a, **k: self

            def inplace(*a, _name=name, **k):
                ctx = cur()
                if self.base is not self:
                    self.detach_from_base()
                self.writes += 1
                fresh = ctx.fresh_arr(f"inplace_{_name}", self.shape, self.kind if self.kind in ("int", "real", "bool") else "real")
                self.fn = fresh.fn
                return self

            return inplace
        raise AttributeError(name)

    def __setitem__(self, key, value):
        if not isinstance(key, tuple):
            key = (key,)
        old = self.fn
        if self.base is not self:
            self.detach_from_base()
        self.writes += 1
        if all(not isinstance(k, (slice, SymArr, list)) and k is not None and k is not Ellipsis for k in key) and len(key) == self.ndim:
            idxs = [lift(self._norm_index(k, n)) for k, n in zip(key, self.shape)]
            val = value

            def fn(*idx, _old=old, _idxs=idxs, _val=val):
                c = z3.And(*[i == j for i, j in zip(idx, _idxs)]) if _idxs else z3.BoolVal(True)
                return ite(c, _val, _old(*idx))

            self.fn = fn
            return
        raise OutOfSubset("slice / advanced assignment on symbolic array")

    def __iter__(self):
        n = self.sym_len()
        ln = _dim_lit(n)
        if ln is None:
            raise OutOfSubset("iteration over a symbolic-length sequence outside a contract-ed loop")
        for i in range(ln):
            yield self[i]

    # ---- elementwise arithmetic (numpy semantics) / list concatenation
    def _ew(self, other, f, swap=False, kind=None):
        if self.pylist:
            return NotImplemented
        return elementwise(lambda a, b: f(b, a) if swap else f(a, b), self, other, kind=kind)

    def __add__(self, o):
        if self.pylist:
            if isinstance(o, list):
                o = from_list(o, kind=self.kind)
                o.pylist = True
            if isinstance(o, SymArr) and o.pylist:
                return concat_list(self, o)
            return NotImplemented
        return self._ew(o, lambda a, b: a + b)

    def __radd__(self, o):
        if self.pylist:
            if isinstance(o, list):
                o = from_list(o, kind=self.kind)
                o.pylist = True
                return concat_list(o, self)
            return NotImplemented
        return self._ew(o, lambda a, b: a + b, True)

    def __sub__(self, o):
        return self._ew(o, lambda a, b: a - b)

    def __rsub__(self, o):
        return self._ew(o, lambda a, b: a - b, True)

    def __mul__(self, o):
        if self.pylist:
            return repeat_list(self, o)
        return self._ew(o, lambda a, b: a * b)

    def __rmul__(self, o):
        if self.pylist:
            return repeat_list(self, o)
        return self._ew(o, lambda a, b: a * b, True)

    def __truediv__(self, o):
        return self._ew(o, lambda a, b: _realdiv(a, b))

    def __rtruediv__(self, o):
        return self._ew(o, lambda a, b: _realdiv(a, b), True)

    def __floordiv__(self, o):
        return self._ew(o, lambda a, b: S(a) // b)

    def __mod__(self, o):
        return self._ew(o, lambda a, b: S(a) % b)

    def __pow__(self, o):
        return self._ew(o, lambda a, b: S(a) ** b)

    def __neg__(self):
        return elementwise(lambda a: -S(a), self)

    def __abs__(self):
        return elementwise(lambda a: abs(S(a)), self)

    def __lt__(self, o):
        return _as_mask(self._ew(o, lambda a, b: S(a) < b))  # a comparison yields a boolean mask

    def __le__(self, o):
        return _as_mask(self._ew(o, lambda a, b: S(a) <= b))  # a comparison yields a boolean mask

    def __gt__(self, o):
        return _as_mask(self._ew(o, lambda a, b: S(a) > b))  # a comparison yields a boolean mask

    def __ge__(self, o):
        return _as_mask(self._ew(o, lambda a, b: S(a) >= b))  # a comparison yields a boolean mask

    def __and__(self, o):
        return self._ew(o, lambda a, b: S(a) & b)

    def __or__(self, o):
        return self._ew(o, lambda a, b: S(a) | b)

    def __invert__(self):
        return elementwise(lambda a: ~S(a), self)

    def eq(self, o):
        return _as_mask(self._ew(o, lambda a, b: S(a) == b))

    __hash__ = object.__hash__

    # reductions
    def sum(self, axis=None, dim=None, keepdim=False, keepdims=False):
        from .reals import reduce_sum

        return reduce_sum(self, axis if axis is not None else dim, keepdim or keepdims)

    def mean(self, axis=None, dim=None, keepdim=False, keepdims=False):
        from .reals import reduce_sum

        ax = axis if axis is not None else dim
        s = reduce_sum(self, ax, keepdim or keepdims)
        if ax is None:
            cnt = self.numel()
        else:
            axs = (ax,) if not isinstance(ax, (tuple, list)) else tuple(ax)
            cnt = 1
            for a in axs:
                cnt = cnt * self.shape[a]
        return s / cnt

    # over-approximating reductions (fresh result constrained by the universal half of the definition)
    def any(self, *a, **k):
        if a or k:
            raise OutOfSubset("any(axis) on symbolic array")
        return cur().fresh("any", "bool")

    def all(self, *a, **k):
        if a or k:
            raise OutOfSubset("all(axis) on symbolic array")
        return cur().fresh("all", "bool")

    def _extreme(self, name, cmp):
        ctx = cur()
        m = ctx.fresh(name, "int" if self.kind == "int" else "real")
        idx = [z3.Int(f"i!ext{d}") for d in range(self.ndim)]
        if idx:
            rng = z3.And(*[z3.And(i >= 0, i < lift(d)) for i, d in zip(idx, self.shape)])
            e = lift(self.fn(*idx))
            if z3.is_bool(e):
                raise OutOfSubset("max/min of boolean array")
            a, b = coerce2(e, m.t)
            ctx.assume(z3.ForAll(idx, z3.Implies(rng, cmp(a, b))))
        return m

    def max(self, *a, **k):
        if a or k:
            raise OutOfSubset("max(axis) on symbolic array")
        return self._extreme("max", lambda e, m: e <= m)

    def min(self, *a, **k):
        if a or k:
            raise OutOfSubset("min(axis) on symbolic array")
        return self._extreme("min", lambda e, m: e >= m)

    def argsort(self, *a, **k):
        """TRUSTED: argsort of a 1-d array is a bijection sigma of [0,n) with values non-decreasing along it."""
        if self.ndim != 1:
            raise OutOfSubset("argsort of a non-1d symbolic array")
        ctx = cur()
        n = lift(self.shape[0])
        nm = ctx.fresh_name("argsort")
        SG = z3.Function(nm, z3.IntSort(), z3.IntSort())
        TAU = z3.Function(nm + "_inv", z3.IntSort(), z3.IntSort())
        i, j = z3.Int("i!q"), z3.Int("j!q")
        ctx.assume(z3.ForAll([i], z3.Implies(z3.And(i >= 0, i < n), z3.And(SG(i) >= 0, SG(i) < n, TAU(SG(i)) == i)), patterns=[SG(i)]))
        ctx.assume(z3.ForAll([i], z3.Implies(z3.And(i >= 0, i < n), z3.And(TAU(i) >= 0, TAU(i) < n, SG(TAU(i)) == i)), patterns=[TAU(i)]))
        r = SymArr((self.shape[0],), lambda t: Sym(SG(t)), "int", name=nm)
        r.sigma, r.tau = SG, TAU
        ctx.ghost.setdefault("argsort", []).append((SG, TAU, self))  # ghost access for completeness arguments
        if hasattr(self, "as_type"):
            r.as_type = self.as_type
        return r

    def astype(self, dt, copy=True):
        # real -> integer dtype truncates toward zero (numpy / torch); every other conversion keeps the values
        # (engine self-test: np_astype_int)
        if self.kind == "real" and _is_int_dtype(dt):
            r = self.long()
            r.pylist = False
            return r
        return self.copy()

    def tolist(self):
        ln = _dim_lit(self.sym_len())
        if ln is None:
            r = self.copy()
            r.pylist = True
            return r
        return [self[i] for i in range(ln)]




def _as_mask(r):
    """Result of an elementwise comparison: its element kind is bool (set on the result, so subclasses overriding
    `_ew` with the original signature keep working)."""
    if isinstance(r, SymArr):
        r.kind = "bool"
    return r


def _provably_nonneg(t):
    """t >= 0 by simplification or entailed by the current path condition (bounded solver call; unknown -> False).
    Keeps the index term of a provably non-negative fancy index free of the wrap-around conditional."""
    if z3.is_true(simp(t >= 0)):
        return True
    try:
        return cur().entails(t >= 0)
    except RuntimeError:
        return False


def _is_int_dtype(dt):
    """True for int / numpy integer dtypes / torch integer dtypes (by name, so torch need not be imported here)."""
    if dt is int:
        return True
    if dt is float or dt is bool or dt is None:
        return False
    name = getattr(dt, "__name__", None) or str(dt)
    name = name.replace("torch.", "").replace("numpy.", "")
    return name in ("int", "int8", "int16", "int32", "int64", "long", "short", "intp", "int_", "uint8", "uint16", "uint32", "uint64", "integer")


class RowMajor:
    """C-order (row-major) bijection between index tuples of a shape with SYMBOLIC extents and linear indices, as
    uninterpreted functions `lin` / `unr[a]` constrained by quantified axioms (assumed on the current path):
      idx in range  =>  0 <= lin(idx) < prod(shape)  and  unr_a(lin(idx)) = idx_a  and  lin(idx) = sum idx_a * stride_a
      0 <= v < prod =>  0 <= unr_a(v) < shape_a      and  lin(unr(v)) = v
    These are theorems of integer arithmetic (division with remainder); using them as axioms keeps obligations out of
    nonlinear div/mod reasoning.  Keyed by the textual shape, so equal shapes share the functions."""

    def __init__(self, shape):
        self.shape = tuple(shape)
        key = "x".join(str(lift(d)) for d in shape)
        nd = len(shape)
        self.lin = z3.Function(f"lin[{key}]", *([z3.IntSort()] * nd), z3.IntSort())
        self.unr = [z3.Function(f"unr{a}[{key}]", z3.IntSort(), z3.IntSort()) for a in range(nd)]
        idx = [z3.Int(f"i!rm{a}") for a in range(nd)]
        v = z3.Int("v!rm")
        dims = [lift(d) for d in shape]
        total = dims[0]
        for d in dims[1:]:
            total = total * d
        inr = z3.And(*[z3.And(i >= 0, i < d) for i, d in zip(idx, dims)])
        val = z3.IntVal(0)
        for i, d in zip(idx, dims):
            val = val * d + i
        L = self.lin(*idx)
        self.axioms = [
            z3.ForAll(idx, z3.Implies(inr, z3.And(L >= 0, L < total, L == val, *[self.unr[a](L) == idx[a] for a in range(nd)])), patterns=[L]),
            z3.ForAll([v], z3.Implies(z3.And(v >= 0, v < total),
                                      z3.And(*[z3.And(self.unr[a](v) >= 0, self.unr[a](v) < dims[a]) for a in range(nd)],
                                             self.lin(*[self.unr[a](v) for a in range(nd)]) == v)),
                      patterns=[z3.MultiPattern(*[self.unr[a](v) for a in range(nd)])] if nd > 1 else [self.unr[0](v)]),
        ]


def rowmajor(shape):
    """RowMajor bijection for `shape`, with its axioms assumed once per path."""
    ctx = cur()
    key = "x".join(str(lift(d)) for d in shape)
    cache = ctx.ghost.setdefault("rowmajor", {})
    if key not in cache:
        rm = RowMajor(shape)
        for ax in rm.axioms:
            ctx.assume(ax)
        cache[key] = rm
    return cache[key]


_LAST_GUARD = [None]


def _snap_fn(arr, view=False):
    """The index function of `arr` as of NOW (derived arrays must not see later in-place writes to `arr`).
    For views (basic slices / reshapes) a later write to the base is not modelled: reading such a stale view is rejected."""
    f = arr.fn
    if not view:
        return f
    base, w0 = arr.base, arr.base.writes

    def g(*idx):
        if base.writes != w0 and not g.exempt:
            raise OutOfSubset("read of a view after its base array was written (view aliasing is not modelled)")
        return f(*idx)

    g._raw = f
    g.exempt = False
    _LAST_GUARD[0] = g
    return g


class RaiseSigLazy(Exception):
    def __init__(self, exc):
        self.exc = exc


def _realdiv(a, b):
    a, b = _num(lift(a)), _num(lift(b))
    if z3.is_int(a):
        a = z3.ToReal(a)
    if z3.is_int(b):
        b = z3.ToReal(b)
    return Sym(a / b)


def from_list(xs, kind="real", pylist=True):
    xs = list(xs)
    n = len(xs)

    def fn(i, _xs=xs):
        if not _xs:
            return 0
        r = _xs[-1]
        for j in range(len(_xs) - 2, -1, -1):
            r = ite(i == j, _xs[j], r)
        return r

    return SymArr((n,), fn, kind, pylist)


def concat_list(a, b):
    la, lb = a.shape[0], b.shape[0]
    af, bf = a.fn, b.fn

    def fn(i):
        return ite(i < lift(la), af(i), bf(i - lift(la)))

    return SymArr((la + lb,), fn, a.kind, True)


def repeat_list(a, n):
    """list * n  (n may be symbolic; negative n gives the empty list)."""
    la = a.shape[0]
    n0 = smax(0, n)
    lla = _dim_lit(la)
    af = a.fn

    def fn(i):
        if lla == 1:
            return af(z3.IntVal(0))
        return af(i % lift(la))

    return SymArr((n0 * la,), fn, a.kind, True)


def broadcast_shapes(*shapes):
    nd = max(len(s) for s in shapes)
    out = []
    for k in range(nd):
        dims = []
        for s in shapes:
            j = k - (nd - len(s))
            dims.append(s[j] if j >= 0 else 1)
        d = None
        for x in dims:
            if _dim_lit(x) == 1:
                continue
            if d is None:
                d = x
            elif not dims_equal(d, x):
                raise OutOfSubset(f"cannot prove broadcast compatibility of {d} and {x}")
        out.append(1 if d is None else d)
    return tuple(out)


def as_arr(x):
    if isinstance(x, SymArr):
        return x
    return SymArr((), lambda _x=x: _x, "real")


def elementwise(f, *args, kind=None):
    arrs = [as_arr(a) for a in args]
    shape = broadcast_shapes(*[a.shape for a in arrs])
    nd = len(shape)
    fns = [a.fn for a in arrs]  # snapshot: later in-place writes to the operands must not leak into the result

    def fn(*idx):
        vals = []
        for a, af in zip(arrs, fns):
            off = nd - a.ndim
            sub = [z3.IntVal(0) if _dim_lit(a.shape[j]) == 1 else idx[off + j] for j in range(a.ndim)]
            vals.append(af(*sub))
        return f(*vals)

    k = kind or next((a.kind for a in arrs if a.ndim or True), "real")
    return SymArr(shape, fn, k)


# --------------------------------------------------------------------------------------------
# Abstract objects, kinds
# --------------------------------------------------------------------------------------------


class Obj:
    """Abstract instance of a real class `cls`; fields live in `fields` (a plain dict)."""

    _next = [0]

    def __init__(self, cls, fields=None, name=None):
        object.__setattr__(self, "cls", cls)
        object.__setattr__(self, "fields", dict(fields or {}))
        object.__setattr__(self, "name", name or cls.__name__)
        Obj._next[0] += 1
        object.__setattr__(self, "oid", Obj._next[0])

    def __repr__(self):
        return f"Obj<{self.cls.__name__}#{self.oid}>"


class Kind:
    """Kind-abstract value: a tag plus a payload dict of symbolic components."""

    def __init__(self, kind, **payload):
        self.kind = kind
        self.payload = payload

    def __repr__(self):
        return f"Kind({self.kind})"
